"""C04 — validated molecule: correspondence of Model/MolRec.v with qcelemental.molparse.from_arrays, the property
oracle (well-formedness + fixed point + refusal classes) on the implementation through all three entry points."""
import ast
import contextlib
import io
import os
from decimal import Decimal
from fractions import Fraction

from .. import coqrun
from ..core import Corr, TranslateError
from ..coqrun import cz, cstr, copt, cbool, cq, clist
from ..translate import ptable

PID = "C04"
ALLOWED_AXIOMS = set()
EXTRA_TARGETS = ["Model/MolRec.vo", "Model/MolSchema.vo"]
REQ = ["QV.Common.Outcome", "QV.Model.Nucleus", "QV.Model.ChgMult", "QV.Model.MolRec"]


def _find_fn(tree, name):
    for n in ast.walk(tree):
        if isinstance(n, ast.FunctionDef) and n.name == name:
            return n
    raise TranslateError(f"from_arrays.py: function {name} not found")


def _num(node):
    if isinstance(node, ast.Constant) and isinstance(node.value, (int, float)) and not isinstance(node.value, bool):
        return Decimal(repr(node.value))
    raise TranslateError(f"from_arrays.py: expected a numeric literal, got {ast.dump(node)[:80]}")


def extract_consts(repo):
    """The numeric constants of from_arrays.py the model depends on, read from the source (fail-closed on shape)."""
    path = os.path.join(repo, "qcelemental", "molparse", "from_arrays.py")
    with open(path) as fh:
        tree = ast.parse(fh.read())
    units = _find_fn(tree, "validate_and_fill_units")
    window = None
    bo_hi = bo_lo = None
    for n in ast.walk(units):
        if isinstance(n, ast.Compare) and len(n.ops) == 1 and isinstance(n.ops[0], ast.Lt) and \
                isinstance(n.left, ast.Call) and getattr(n.left.func, "id", None) == "abs":
            src = ast.unparse(n.left)
            if src != "abs(input_units_to_au - iutau)":
                raise TranslateError(f"unexpected tolerance test {src}")
            window = _num(n.comparators[0])
        if isinstance(n, ast.BoolOp) and isinstance(n.op, ast.Or) and "bondorder" in ast.unparse(n):
            if ast.unparse(n) not in ("bondorder < 0 or bondorder > 5",):
                raise TranslateError(f"unexpected bond-order test {ast.unparse(n)}")
            bo_lo, bo_hi = Decimal(0), Decimal(5)
    if window is None or bo_hi is None:
        raise TranslateError("from_arrays.py: units window / bond-order bounds not found")
    fa = _find_fn(tree, "from_arrays")
    defaults = {}
    kwn = [a.arg for a in fa.args.kwonlyargs]
    for a, d in zip(kwn, fa.args.kw_defaults):
        if a in ("tooclose", "mtol"):
            defaults[a] = _num(d)
        if a in ("speclabel", "zero_ghost_fragments", "nonphysical"):
            if not (isinstance(d, ast.Constant) and isinstance(d.value, bool)):
                raise TranslateError(f"default of {a} is not a bool literal")
            defaults[a] = d.value
        if a in ("units", "missing_enabled_return", "domain"):
            if not (isinstance(d, ast.Constant) and isinstance(d.value, str)):
                raise TranslateError(f"default of {a} is not a str literal")
            defaults[a] = d.value
    want = {"tooclose": Decimal("0.1"), "mtol": Decimal("0.001"), "speclabel": True, "zero_ghost_fragments": False,
            "nonphysical": False, "units": "Angstrom", "missing_enabled_return": "error", "domain": "qm"}
    for k, v in want.items():
        if defaults.get(k) != v:
            raise TranslateError(f"from_arrays default {k}={defaults.get(k)!r}, harness assumes {v!r}")
    return {"window": window, "bo_hi": bo_hi, "defaults": defaults}


def _startswith_arg(node, what):
    """molschema.get('schema_name', '').startswith(<str>) -> <str>"""
    if not (isinstance(node, ast.Call) and isinstance(node.func, ast.Attribute) and node.func.attr == "startswith"
            and ast.unparse(node.func.value) == "molschema.get('schema_name', '')" and len(node.args) == 1
            and isinstance(node.args[0], ast.Constant) and isinstance(node.args[0].value, str)):
        raise TranslateError(f"from_schema.py: unexpected {what}: {ast.unparse(node)[:100]}")
    return node.args[0].value


def _version_arg(node, what):
    if not (isinstance(node, ast.Compare) and len(node.ops) == 1 and isinstance(node.ops[0], ast.Eq)
            and ast.unparse(node.left) == "molschema.get('schema_version', '')" and isinstance(node.comparators[0], ast.Constant)
            and type(node.comparators[0].value) is int):
        raise TranslateError(f"from_schema.py: unexpected {what}: {ast.unparse(node)[:100]}")
    return node.comparators[0].value


def extract_schema_consts(repo):
    """from_schema.py: the sniffed schema_name prefixes / versions, and the fixed keywords it hands to
    contiguize_from_fragment_pattern and from_arrays (fail-closed on any other shape)."""
    path = os.path.join(repo, "qcelemental", "molparse", "from_schema.py")
    with open(path) as fh:
        tree = ast.parse(fh.read())
    fs = _find_fn(tree, "from_schema")
    ifs = [n for n in fs.body if isinstance(n, ast.If)]
    if len(ifs) != 2:
        raise TranslateError(f"from_schema: expected 2 top-level if statements, found {len(ifs)}")
    sn = ifs[0]
    t1 = sn.test
    if not (isinstance(t1, ast.BoolOp) and isinstance(t1.op, ast.And) and len(t1.values) == 2
            and isinstance(t1.values[0], ast.BoolOp) and isinstance(t1.values[0].op, ast.Or)):
        raise TranslateError(f"from_schema: unexpected version-1 test {ast.unparse(t1)[:120]}")
    v1_prefixes = [_startswith_arg(v, "version-1 name test") for v in t1.values[0].values]
    v1 = _version_arg(t1.values[1], "version-1 test")
    if ast.unparse(sn.body[0]) != "ms = molschema['molecule']" or len(sn.body) != 1:
        raise TranslateError("from_schema: version-1 branch is not ms = molschema['molecule']")
    if not (len(sn.orelse) == 1 and isinstance(sn.orelse[0], ast.If)):
        raise TranslateError("from_schema: no elif for version 2")
    s2 = sn.orelse[0]
    t2 = s2.test
    if not (isinstance(t2, ast.BoolOp) and isinstance(t2.op, ast.And) and len(t2.values) == 2):
        raise TranslateError(f"from_schema: unexpected version-2 test {ast.unparse(t2)[:120]}")
    v2_prefix = _startswith_arg(t2.values[0], "version-2 name test")
    v2 = _version_arg(t2.values[1], "version-2 test")
    if ast.unparse(s2.body[0]) != "ms = molschema" or len(s2.body) != 1:
        raise TranslateError("from_schema: version-2 branch is not ms = molschema")
    if not (len(s2.orelse) == 1 and isinstance(s2.orelse[0], ast.Raise) and ast.unparse(s2.orelse[0].exc).startswith("ValidationError(")):
        raise TranslateError("from_schema: unrecognised schema does not raise ValidationError")
    fp = ifs[1]
    if ast.unparse(fp.test) != "'fragments' in ms" or ast.unparse(fp.body[0]) != "frag_pattern = ms['fragments']" or \
            ast.unparse(fp.orelse[0]) != "frag_pattern = [np.arange(len(ms['symbols']))]":
        raise TranslateError("from_schema: default fragment pattern is not [np.arange(len(symbols))]")
    calls = {}
    for n in ast.walk(fs):
        if isinstance(n, ast.Call) and isinstance(n.func, ast.Name) and n.func.id in ("from_arrays", "contiguize_from_fragment_pattern"):
            calls[n.func.id] = {k.arg: ast.unparse(k.value) for k in n.keywords}
    want_c = {"geom": "ms['geometry']", "elea": "ms.get('mass_numbers', None)", "elez": "ms.get('atomic_numbers', None)",
              "elem": "ms['symbols']", "mass": "ms.get('masses', None)", "real": "ms.get('real', None)",
              "elbl": "ms.get('atom_labels', None)", "throw_reorder": "True"}
    if calls.get("contiguize_from_fragment_pattern") != want_c:
        raise TranslateError(f"from_schema: contiguize_from_fragment_pattern keywords changed: {calls.get('contiguize_from_fragment_pattern')}")
    fa = calls.get("from_arrays") or {}
    fixed = {"units": "'Bohr'", "input_units_to_au": "None", "speclabel": "False", "domain": "'qm'", "nonphysical": "nonphysical",
             "fragment_separators": "dcontig['fragment_separators']", "fragment_charges": "ms.get('fragment_charges', None)",
             "fragment_multiplicities": "ms.get('fragment_multiplicities', None)", "molecular_charge": "ms.get('molecular_charge', None)",
             "molecular_multiplicity": "ms.get('molecular_multiplicity', None)", "connectivity": "ms.get('connectivity', None)",
             "fix_com": "ms.get('fix_com', None)", "fix_orientation": "ms.get('fix_orientation', None)",
             "fix_symmetry": "ms.get('fix_symmetry', None)"}
    for k in ("geom", "elea", "elez", "elem", "mass", "real", "elbl"):
        fixed[k] = f"dcontig['{k}']"
    for k, v in fixed.items():
        if fa.get(k) != v:
            raise TranslateError(f"from_schema: from_arrays keyword {k}={fa.get(k)!r}, model assumes {v}")
    for k in ("tooclose", "mtol", "zero_ghost_fragments", "missing_enabled_return", "copy"):
        if k in fa:
            raise TranslateError(f"from_schema now passes {k} to from_arrays; the model assumes the default")
    return {"v1_prefixes": v1_prefixes, "v1": v1, "v2_prefix": v2_prefix, "v2": v2}


def translate(ctx):
    ptable.generate(ctx.repo)
    c = extract_consts(ctx.repo)
    sc = extract_schema_consts(ctx.repo)
    import importlib
    import sys
    if ctx.repo not in sys.path:
        sys.path.insert(0, ctx.repo)
    from qcelemental import constants
    b2a = constants.bohr2angstroms
    if not (isinstance(b2a, float) and 0.52 < b2a < 0.54):
        raise TranslateError(f"constants.bohr2angstroms = {b2a!r}")
    if float(repr(b2a)) != b2a:
        raise TranslateError("bohr2angstroms does not round-trip")
    out = ["(* GENERATED by harness/props/c04.py from qcelemental/molparse/from_arrays.py and qcelemental.constants — do not edit *)",
           "From Coq Require Import ZArith QArith List String.", "Import ListNotations.",
           f"Definition bohr2angstroms : Q := {cq(Fraction(Decimal(repr(b2a))))}.   (* exact value of the binary64 constant's shortest decimal *)",
           f"Definition iutau_window : Q := {cq(Fraction(c['window']))}.",
           f"Definition bond_order_max : Q := {cq(Fraction(c['bo_hi']))}.",
           "(* keyword defaults of from_arrays (what from_schema / Molecule validation run with) *)",
           f"Definition default_tooclose : Q := {cq(Fraction(c['defaults']['tooclose']))}.",
           f"Definition default_mtol : Q := {cq(Fraction(c['defaults']['mtol']))}.",
           f"Definition default_zgf : bool := {cbool(c['defaults']['zero_ghost_fragments'])}.",
           "(* from_schema.py: schema_name prefixes / schema_version values it recognises *)",
           f"Definition sniff_v1_prefixes : list string := {clist(sc['v1_prefixes'], cstr)}.",
           f"Definition sniff_v1_version : Z := {cz(sc['v1'])}.",
           f"Definition sniff_v2_prefix : string := {cstr(sc['v2_prefix'])}.",
           f"Definition sniff_v2_version : Z := {cz(sc['v2'])}.", ""]
    coqrun.write_if_changed(os.path.join(coqrun.COQ, "Gen", "MolConsts.v"), "\n".join(out))
    return None


# ------------------------------------------------------------------------------------------------
# implementation side

from . import c05, c06   # noqa: E402  (oracles and generators of the two sub-properties are reused per atom / per record)


def ekind_of(e):
    n = type(e).__name__
    mod = type(e).__module__
    if n == "ValidationError" and mod.startswith("pydantic"):
        return "PydanticValidation"
    return {"ValidationError": "Validation", "NotAnElementError": "NotAnElement"}.get(n, n)


def fl(x):
    return None if x is None else float(x)


def arrays_kwargs(c):
    kw = {}
    g = [float(x) for x in c["geom"]]
    kw["geom"] = g
    for k in ("elea", "elez", "elem", "real", "elbl"):
        if c.get(k) is not None:
            kw[k] = list(c[k])
    if c.get("mass") is not None:
        kw["mass"] = [fl(x) for x in c["mass"]]
    kw["units"] = c.get("units", "Angstrom")
    if c.get("iutau") is not None:
        kw["input_units_to_au"] = float(c["iutau"])
    for k in ("fix_com", "fix_orientation", "fix_symmetry", "molecular_charge", "molecular_multiplicity"):
        if c.get(k) is not None:
            kw[k] = c[k]
    if c.get("seps") is not None:
        kw["fragment_separators"] = list(c["seps"])
    if c.get("fchg") is not None:
        kw["fragment_charges"] = list(c["fchg"])
    if c.get("fmult") is not None:
        kw["fragment_multiplicities"] = list(c["fmult"])
    if c.get("conn") is not None:
        kw["connectivity"] = [(a, b, float(o)) for a, b, o in c["conn"]]
    kw["speclabel"] = c.get("speclabel", True)
    kw["tooclose"] = float(c.get("tooclose", "0.1"))
    kw["zero_ghost_fragments"] = c.get("zgf", False)
    kw["nonphysical"] = c.get("nonphysical", False)
    kw["mtol"] = float(c.get("mtol", "0.001"))
    kw["missing_enabled_return"] = "minimal" if c.get("minimal") else "error"
    return kw


def canon_record(r):
    """molrec dict (from_arrays / from_schema) -> canonical, comparable, JSON-able form"""
    def ints(a):
        return [int(x) for x in a]

    def num(x):
        x = float(x)
        return int(x) if x.is_integer() else x
    out = {
        "units": str(r["units"]),
        "iutau": repr(float(r["input_units_to_au"])) if "input_units_to_au" in r else None,
        "geom": [repr(float(x)) for x in r["geom"]],
        "elea": ints(r["elea"]), "elez": ints(r["elez"]), "elem": [str(x) for x in r["elem"]],
        "mass": [repr(float(x)) for x in r["mass"]], "real": [bool(x) for x in r["real"]],
        "elbl": [str(x) for x in r["elbl"]],
        "seps": ints(r["fragment_separators"]),
        "fchg": [num(x) for x in r["fragment_charges"]], "fmult": [num(x) for x in r["fragment_multiplicities"]],
        "chg": num(r["molecular_charge"]), "mult": num(r["molecular_multiplicity"]),
        "fix_com": r["fix_com"], "fix_orientation": r["fix_orientation"], "fix_symmetry": r.get("fix_symmetry"),
        "conn": [(int(a), int(b), repr(float(o))) for a, b, o in r["connectivity"]] if "connectivity" in r else None,
    }
    return out


def impl_from_arrays(c, raw=False):
    from qcelemental.molparse import from_arrays
    try:
        with contextlib.redirect_stdout(io.StringIO()):
            r = from_arrays(verbose=0, **arrays_kwargs(c))
    except Exception as e:
        return ("Err", ekind_of(e))
    if raw:
        return ("Ok", r)
    return ("Ok", canon_record(r))


def record_kwargs(c, rec):
    """a canonical record as from_arrays input, with the processing settings of case c (labels are user tags)"""
    return {
        "geom": list(rec["geom"]), "elea": list(rec["elea"]), "elez": list(rec["elez"]), "elem": list(rec["elem"]),
        "mass": list(rec["mass"]), "real": list(rec["real"]), "elbl": list(rec["elbl"]),
        "units": rec["units"], "iutau": rec["iutau"], "fix_com": rec["fix_com"], "fix_orientation": rec["fix_orientation"],
        "fix_symmetry": rec["fix_symmetry"], "seps": list(rec["seps"]), "fchg": list(rec["fchg"]), "fmult": list(rec["fmult"]),
        "molecular_charge": rec["chg"], "molecular_multiplicity": rec["mult"], "conn": rec["conn"],
        "speclabel": False, "tooclose": c.get("tooclose", "0.1"), "zgf": c.get("zgf", False),
        "nonphysical": c.get("nonphysical", False), "mtol": c.get("mtol", "0.001"), "minimal": True,
    }


# ------------------------------------------------------------------------------------------------
# Gallina rendering

def qdec(s):
    return cq(Fraction(Decimal(s)))


def ccol(col, f):
    if col is None:
        return "None"
    return "(Some " + clist(col, lambda x: copt(x, f)) + ")"


def raw_term(c):
    conn = "None" if c.get("conn") is None else "(Some " + clist(c["conn"], lambda t: f"({cz(t[0])}, {cz(t[1])}, {qdec(t[2])})") + ")"
    return "(Build_raw %s %s %s %s %s %s %s %s %s %s %s %s %s %s %s %s %s %s %s %s %s %s %s %s)" % (
        clist(c["geom"], qdec), ccol(c.get("elea"), cz), ccol(c.get("elez"), cz), ccol(c.get("elem"), cstr),
        ccol(c.get("mass"), qdec), ccol(c.get("real"), cbool), ccol(c.get("elbl"), cstr),
        cstr(c.get("units", "Angstrom")), copt(c.get("iutau"), qdec),
        copt(c.get("fix_com"), cbool), copt(c.get("fix_orientation"), cbool), copt(c.get("fix_symmetry"), cstr),
        "None" if c.get("seps") is None else "(Some " + clist(c["seps"], cz) + ")",
        ccol(c.get("fchg"), cz), ccol(c.get("fmult"), cz), copt(c.get("molecular_charge"), cz), copt(c.get("molecular_multiplicity"), cz),
        conn, cbool(c.get("speclabel", True)), qdec(c.get("tooclose", "0.1")), cbool(c.get("zgf", False)),
        cbool(c.get("nonphysical", False)), qdec(c.get("mtol", "0.001")), cbool(bool(c.get("minimal"))))


EK = {"Validation": "Validation", "NotAnElement": "NotAnElement", "ValueError": "PyValueError", "KeyError": "PyKeyError",
      "IndexError": "PyIndexError", "TypeError": "PyTypeError", "AttributeError": "PyAttributeError"}


def out_term(out):
    if out[0] != "Ok":
        return f"(Err {EK.get(out[1], 'PyAssertion')})"
    return "(Ok %s)" % rec_term(out[1])


def rec_term(r):
    conn = "None" if r["conn"] is None else "(Some " + clist(r["conn"], lambda t: f"({cz(t[0])}, {cz(t[1])}, {qdec(t[2])})") + ")"
    return "(Build_molrec %s %s %s %s %s %s %s %s %s %s %s %s %s %s %s %s %s %s)" % (
        cstr(r["units"]), copt(r["iutau"], qdec), clist(r["geom"], qdec), clist(r["elea"], cz), clist(r["elez"], cz),
        clist(r["elem"], cstr), clist(r["mass"], qdec), clist(r["real"], cbool), clist(r["elbl"], cstr), clist(r["seps"], cz),
        clist(r["fchg"], cz), clist(r["fmult"], cz), cz(r["chg"]), cz(r["mult"]), cbool(r["fix_com"]), cbool(r["fix_orientation"]),
        copt(r["fix_symmetry"], cstr), conn)


# ------------------------------------------------------------------------------------------------
# the property on the implementation's answer

SLACK = Decimal("1e-9")


def py_pieces(n, seps):
    pts = [0] + list(seps) + [n]
    idx = list(range(n))
    return [idx[pts[i]:pts[i + 1]] for i in range(len(pts) - 1)]


def atom_case(c, k):
    """the C06 view of atom k of a C04 case"""
    def at(col):
        v = c.get(col)
        return None if v is None else v[k]
    a = at("elea")
    ac = {"A": None if a == -1 else a, "Z": at("elez"), "E": at("elem"), "mass": at("mass"), "real": at("real"),
          "label": at("elbl"), "speclabel": c.get("speclabel", True), "nonphysical": c.get("nonphysical", False),
          "mtol": c.get("mtol", "0.001")}
    parts = c.get("parts")
    if parts is not None and parts[k] is not None:
        ac["parts"] = parts[k]
    return ac


def malformation(T, c):
    """Why no well-formed record can exist for this input (independent of the implementation); None if none found."""
    g = c["geom"]
    if len(g) == 0 and not c.get("minimal"):
        return "no geometry"
    if len(g) % 3:
        return "geometry length is not a multiple of 3"
    nat = len(g) // 3
    for k in ("elea", "elez", "elem", "mass", "real", "elbl"):
        if c.get(k) is not None and len(c[k]) != nat:
            return f"{k} has {len(c[k])} entries for {nat} atoms"
    if c.get("units", "Angstrom").capitalize() not in ("Angstrom", "Bohr"):
        return "unknown units"
    tc = Decimal(c.get("tooclose", "0.1"))
    pts = [tuple(Decimal(x) for x in g[3 * i:3 * i + 3]) for i in range(nat)]
    for i in range(nat):
        for j in range(i + 1, nat):
            d2 = sum((a - b) ** 2 for a, b in zip(pts[i], pts[j]))
            if d2 < tc * tc - SLACK:
                return f"atoms {i} and {j} closer than tooclose"
    if c.get("seps") is not None:
        try:
            pieces = py_pieces(nat, c["seps"])
        except TypeError:
            return "separators are not integers"
        if nat and (any(len(p) == 0 for p in pieces) or sum(pieces, []) != list(range(nat))):
            return "separators do not partition the atoms in order (empty, unsorted or out-of-range piece)"
        nfr = len(pieces)
        for k in ("fchg", "fmult"):
            if c.get(k) is not None and len(c[k]) != nfr:
                return f"{k} has {len(c[k])} entries for {nfr} fragments"
    else:
        if c.get("fchg") is not None or c.get("fmult") is not None:
            return "fragment charges/multiplicities without separators"
    return None


def oracle(T, c, out):
    bad = malformation(T, c)
    if out[0] == "Err":
        if out[1] in ("Validation", "NotAnElement", "PydanticValidation"):
            return None
        return f"refused with {out[1]} instead of a validation error ({bad or 'input otherwise well-formed'})"
    if bad:
        return "malformed input accepted: " + bad
    r = out[1]
    g = c["geom"]
    nat = len(g) // 3
    if len(r["geom"]) != 3 * nat or [float(x) for x in r["geom"]] != [float(x) for x in g]:
        return "geometry is not the input geometry / not 3 per atom"
    for k in ("elea", "elez", "elem", "mass", "real", "elbl"):
        if len(r[k]) != nat:
            return f"{k} has {len(r[k])} entries for {nat} atoms"
    for k in range(nat):
        ao = ("Ok", (r["elea"][k], r["elez"][k], r["elem"][k], r["mass"][k], r["real"][k], r["elbl"][k]))
        b = c06.oracle(T, atom_case(c, k), ao)
        if b:
            return f"atom {k}: {b}"
    seps = c.get("seps") or []
    if r["seps"] != list(seps):
        return "fragment separators changed"
    pieces = py_pieces(nat, r["seps"])
    nfr = len(pieces)
    if nat and (any(len(p) == 0 for p in pieces) or sum(pieces, []) != list(range(nat))):
        return "fragments do not partition the atoms in order"
    if len(r["fchg"]) != nfr or len(r["fmult"]) != nfr:
        return "fragment charges/multiplicities are not one per fragment"
    zeff = [r["elez"][k] if r["real"][k] else 0 for k in range(nat)]
    felez = [[zeff[k] for k in p] for p in pieces]
    fc = c.get("fchg") or [None] * nfr
    fm = c.get("fmult") or [None] * nfr
    case5 = (felez, c.get("molecular_charge"), list(fc), c.get("molecular_multiplicity"), list(fm), c.get("zgf", False))
    b = c05.oracle(case5, ("Ok", (r["chg"], r["fchg"], r["mult"], r["fmult"])))
    if b:
        return "charge/multiplicity: " + b
    if r["units"] != c.get("units", "Angstrom").capitalize():
        return "units not the capitalised input units"
    if (c.get("iutau") is None) != (r["iutau"] is None) or (c.get("iutau") is not None and float(c["iutau"]) != float(r["iutau"])):
        return "input_units_to_au not kept"
    if r["fix_com"] != bool(c.get("fix_com")) or r["fix_orientation"] != bool(c.get("fix_orientation")):
        return "frame flags not as given (default False)"
    fs = c.get("fix_symmetry")
    if r["fix_symmetry"] != ((fs.lower() or None) if fs is not None else None):
        return "fix_symmetry not the lower-cased input"
    if c.get("conn") is None:
        if r["conn"] is not None:
            return "connectivity invented"
    else:
        want = sorted((min(a, b), max(a, b), float(o)) for a, b, o in c["conn"])
        got = [(a, b, float(o)) for a, b, o in r["conn"]]
        if got != want:
            return "connectivity is not the sorted (min, max, order) form of the input"
    return None


def oracle_fixed_point(T, c, out):
    """every accepted record fed back through from_arrays, from_schema(to_schema(.)) and Molecule(**.)"""
    if out[0] != "Ok":
        return None
    rec = out[1]
    again = impl_from_arrays(record_kwargs(c, rec))
    if again != out:
        return ("from_arrays", f"record fed back through from_arrays is not reproduced: {diff(out, again)}")
    return None


def diff(a, b):
    if a[0] != b[0] or a[0] != "Ok":
        return f"{a[0:1]} vs {b}"
    return {k: (a[1][k], b[1][k]) for k in a[1] if a[1][k] != b[1].get(k)}


def defaults_case(c):
    return c.get("tooclose", "0.1") == "0.1" and c.get("mtol", "0.001") == "0.001" and not c.get("zgf", False)


def close(a, b, tol=1e-9):
    return abs(float(a) - float(b)) <= tol * max(1.0, abs(float(a)))


def schema_checks(T, c, out):
    """to_schema -> from_schema and Molecule(validate=True) on an accepted record; None or (entry point, message)"""
    if out[0] != "Ok" or not defaults_case(c):
        return None
    from qcelemental.molparse import from_arrays, from_schema, to_schema
    from qcelemental.models import Molecule
    rec = out[1]
    nonphys = c.get("nonphysical", False)
    with contextlib.redirect_stdout(io.StringIO()):
        full = from_arrays(verbose=0, **arrays_kwargs(record_kwargs(c, rec)))
    nat = len(rec["elez"])
    if nat == 0:
        return None          # QCSchema cannot express an empty molecule (fragments of nothing)
    factor = 1.0
    if rec["units"] == "Angstrom":
        from qcelemental import constants
        factor = float(rec["iutau"]) if rec["iutau"] is not None else 1.0 / constants.bohr2angstroms
    for dtype in (2, 1):
        try:
            with contextlib.redirect_stdout(io.StringIO()):
                sch = to_schema(full, dtype=dtype)
                back = canon_record(from_schema(sch, nonphysical=nonphys, verbose=0))
        except Exception as e:
            return ("from_schema", f"to_schema/from_schema(dtype={dtype}) of an accepted record raised {ekind_of(e)}: {str(getattr(e, 'message', e))[:120]}")
        want = dict(rec, units="Bohr", iutau=None)
        # separators may come back normalised (e.g. [-1] -> [nat-1]): the partition is what must be kept
        back["seps"], want["seps"] = py_pieces(nat, back["seps"]), py_pieces(nat, want["seps"])
        bg, wg = back.pop("geom"), want.pop("geom")
        if back != want or len(bg) != len(wg) or not all(close(x, float(y) * factor) for x, y in zip(bg, wg)):
            return ("from_schema", f"from_schema(to_schema(record, {dtype})) differs: " + str({k: (want[k], back[k]) for k in want if want[k] != back.get(k)}))
    ms = sch["molecule"]
    kwargs = {k: v for k, v in ms.items() if k != "validated"}
    try:
        with contextlib.redirect_stdout(io.StringIO()):
            mol = Molecule(validate=True, nonphysical=nonphys, **kwargs)
    except Exception as e:
        return ("Molecule", f"Molecule(**schema) of an accepted record raised {ekind_of(e)}: {str(e)[:120]}")
    pieces = py_pieces(nat, rec["seps"])
    got = {
        "elem": [str(x) for x in mol.symbols], "elez": [int(x) for x in mol.atomic_numbers], "elea": [int(x) for x in mol.mass_numbers],
        "mass": [float(x) for x in mol.masses], "real": [bool(x) for x in mol.real], "elbl": [str(x) for x in mol.atom_labels],
        "frag": [[int(i) for i in f] for f in mol.fragments], "fchg": [float(x) for x in mol.fragment_charges],
        "fmult": [int(x) for x in mol.fragment_multiplicities], "chg": float(mol.molecular_charge), "mult": int(mol.molecular_multiplicity),
        "fix_com": mol.fix_com, "fix_orientation": mol.fix_orientation, "fix_symmetry": mol.fix_symmetry,
        "conn": None if mol.connectivity is None else [(int(a), int(b), repr(float(o))) for a, b, o in mol.connectivity],
    }
    want = {
        "elem": rec["elem"], "elez": rec["elez"], "elea": rec["elea"], "mass": [float(x) for x in rec["mass"]], "real": rec["real"],
        "elbl": rec["elbl"], "frag": pieces, "fchg": [float(x) for x in rec["fchg"]], "fmult": rec["fmult"], "chg": float(rec["chg"]),
        "mult": rec["mult"], "fix_com": rec["fix_com"], "fix_orientation": rec["fix_orientation"], "fix_symmetry": rec["fix_symmetry"],
        "conn": rec["conn"],
    }
    if got != want:
        return ("Molecule", "Molecule(**schema) attributes differ from the record: " + str({k: (want[k], got[k]) for k in want if want[k] != got[k]}))
    mg = [float(x) for x in mol.geometry.reshape(-1)]
    # np.around(x, 8) = rint(x * 1e8) / 1e8 carries two roundings of relative size 2^-53 each; 4e-16 |x| allows for both with
    # a margin of about 2 (it is 4e-13 at |x| = 1000 and only matters for the far stream)
    if len(mg) != 3 * nat or not all(abs(x - round(float(y) * factor, 8)) <= 2e-8 + 4e-16 * abs(x) for x, y in zip(mg, rec["geom"])):
        return ("Molecule", "Molecule geometry is not the record's geometry (in Bohr, 8 decimals)")
    return None


# ------------------------------------------------------------------------------------------------
# generators

POOL = ["H", "H", "He", "Li", "C", "C", "N", "O", "O", "F", "Ne", "Na", "Cl", "Ar", "Fe", "Co", "Br", "Kr", "I", "Xe", "U", "Og" if False else "Ts"]
OFFS = ["0.0001", "0.0003", "0.002", "0.01", "0.3", "1.2"]


def coord(rng, v):
    return format(Decimal(v) * Decimal("0.8") + Decimal(rng.randrange(-50, 51)) / Decimal(1000), "f")


def gen_case(ctx, T, schema_like=False, near=False):
    rng = ctx.rng
    nat = rng.choice([1, 1, 2, 2, 3, 3, 4, 4, 5, 6, 8, 10, 12])
    lattice = [(x, y, z) for x in range(-2, 3) for y in range(-2, 3) for z in range(-2, 3)]
    sites = rng.sample(lattice, nat)
    geom = [coord(rng, v) for s in sites for v in s]
    speclabel = (rng.random() < 0.6) and not schema_like
    c = {"geom": geom, "speclabel": speclabel, "units": rng.choice(["Angstrom", "Angstrom", "Bohr", "bohr", "ANGSTROM", "bOHR"]),
         "tooclose": rng.choice(["0.1"] * 6 + ["0.5", "0.01", "0.25", "0.05"]), "mtol": rng.choice(["0.001"] * 8 + ["0.0001", "0.01"]),
         "zgf": rng.random() < 0.2, "nonphysical": rng.random() < 0.1, "minimal": rng.random() < 0.1}
    if schema_like:
        c.update({"units": "Bohr", "tooclose": "0.1", "mtol": "0.001", "zgf": False, "minimal": False})
    els = [rng.choice(POOL) if rng.random() < 0.9 else rng.choice(T["E"][1:]) for _ in range(nat)]
    a_s, m_s, reals, parts, lbls = [], [], [], [], []
    for el in els:
        iso = T["iso"][el]
        a = T["ea2a"][el] if rng.random() < 0.7 else rng.choice(sorted(iso))
        t = Decimal(iso[a])
        m = t if rng.random() < 0.6 else abs(t + Decimal(rng.choice(OFFS)) * rng.choice([1, -1]))
        a_s.append(a)
        m_s.append(c06.fmt_mass(m))
        reals.append(rng.random() < 0.85)
    want = {k: rng.random() < p for k, p in (("elea", 0.3), ("elez", 0.55), ("elem", 0.6), ("mass", 0.3), ("real", 0.4), ("elbl", 0.4))}
    if schema_like:
        want["elem"] = True
    if not (want["elez"] or want["elem"] or (want["elbl"] and speclabel)) and rng.random() < 0.9:
        want[rng.choice(["elez", "elem"])] = True
    if want["elea"]:
        c["elea"] = [(-1 if rng.random() < 0.15 else a) for a in a_s]
    if want["elez"]:
        c["elez"] = [T["e2z"][e] for e in els]
    if want["elem"]:
        c["elem"] = [c06.rand_case_sym(rng, e) if not schema_like or rng.random() < 0.5 else e for e in els]
    if want["mass"]:
        c["mass"] = list(m_s)
    if want["real"]:
        c["real"] = list(reals)
    if want["elbl"]:
        if speclabel:
            for k, el in enumerate(els):
                p = {"ghost": (rng.choice(["@", "Gh(", "gh("]) if not reals[k] else None)}
                if rng.random() < 0.75:
                    p["E"] = c06.rand_case_sym(rng, el)
                    if rng.random() < 0.3:
                        p["A"] = a_s[k]
                    if rng.random() < 0.3:
                        p["user"] = rng.choice(c06.USER_TAGS)
                else:
                    p["Z"] = T["e2z"][el]
                    if rng.random() < 0.3:
                        p["user"] = rng.choice([u for u in c06.USER_TAGS if u.startswith("_")])
                if rng.random() < 0.25:
                    p["mass"] = m_s[k]
                parts.append(p)
                lbls.append(c06.build_label(rng, p))
            c["parts"] = parts
        else:
            lbls = [rng.choice(c06.USER_TAGS + ["", "", "H", "_Q"]) for _ in els]
        c["elbl"] = lbls
    # some entries of a column unknown
    if not schema_like:
        for k in ("elea", "elez", "elem", "mass", "real", "elbl"):
            if k in c and rng.random() < 0.2:
                col = list(c[k])
                for i in range(nat):
                    if rng.random() < 0.4:
                        col[i] = None
                        if k == "elbl" and "parts" in c:
                            c["parts"][i] = None
                c[k] = col
    # fragments
    r = rng.random()
    if r < 0.45 and nat >= 2:
        cuts = sorted(rng.sample(range(1, nat), min(nat - 1, rng.choice([1, 1, 2, 3]))))
        if rng.random() < 0.2 and not schema_like:
            cuts = [(x - nat if rng.random() < 0.5 else x) for x in cuts]
        c["seps"] = cuts
    elif r < 0.55:
        c["seps"] = []
    elif r < 0.65 and not schema_like:
        c["seps"] = [rng.randrange(-nat - 1, nat + 2) for _ in range(rng.choice([1, 2, 3]))]
    nfr = len(c["seps"]) + 1 if c.get("seps") is not None else 1
    if c.get("seps") is not None:
        if rng.random() < 0.3:
            c["fchg"] = [rng.choice([None, None, 0, 0, 1, -1]) for _ in range(nfr)]
        if rng.random() < 0.3:
            c["fmult"] = [rng.choice([None, None, 1, 2, 3]) for _ in range(nfr)]
    if rng.random() < 0.25:
        c["molecular_charge"] = rng.choice([0, 0, 1, -1, 2])
    if rng.random() < 0.2:
        c["molecular_multiplicity"] = rng.choice([1, 2, 3, 4])
    # units / frame / connectivity
    if not schema_like and rng.random() < 0.15:
        c["iutau"] = rng.choice(["1.8897", "1.9", "1.85", "1.8897261254578281"]) if c["units"].capitalize() == "Angstrom" else rng.choice(["1.0", "1.04", "0.96"])
    if rng.random() < 0.3:
        c["fix_com"] = rng.random() < 0.5
    if rng.random() < 0.3:
        c["fix_orientation"] = rng.random() < 0.5
    if rng.random() < 0.15:
        c["fix_symmetry"] = rng.choice(["c1", "C2v", "D2H", "cs"] + ([""] if not schema_like else []))
    if rng.random() < 0.2 and nat >= 2:
        c["conn"] = [(rng.randrange(nat), rng.randrange(nat), rng.choice(["1.0", "2.0", "1.5", "0.0", "5.0", "3.0"])) for _ in range(rng.choice([1, 2, 3, 5]))]
        if schema_like:
            c["conn"] = [t for t in c["conn"] if t[0] != t[1]] or None
            if c["conn"] is None:
                del c["conn"]
    # a conflicting nuclear clue
    if rng.random() < 0.12 and not schema_like:
        k = rng.randrange(nat)
        cols = [x for x in ("elea", "elez", "elem", "mass") if c.get(x) is not None and c[x][k] is not None]
        if cols:
            x = rng.choice(cols)
            col = list(c[x])
            other = rng.choice([e for e in POOL if e != els[k]])
            col[k] = {"elea": a_s[k] + rng.choice([1, 100]), "elez": T["e2z"][other], "elem": other,
                      "mass": c06.fmt_mass(Decimal(m_s[k]) + rng.choice([Decimal("0.5"), Decimal(40)]))}[x]
            c[x] = col
    if near or rng.random() < 0.12:
        add_near_pair(rng, c)
        return c
    # a structural malformation
    if rng.random() < (0.2 if not schema_like else 0.08):
        kind = rng.choice(["collen", "geomlen", "close", "units", "iutau", "seps", "fraglen", "fragnosep"])
        if kind == "collen":
            cols = [x for x in ("elea", "elez", "elem", "mass", "real", "elbl") if c.get(x) is not None]
            if cols:
                x = rng.choice(cols)
                c[x] = (list(c[x]) + [c[x][-1]]) if rng.random() < 0.5 else list(c[x])[:-1]
                if x == "elbl" and "parts" in c:
                    c["parts"] = (c["parts"] + [c["parts"][-1]])[:len(c[x])]
        elif kind == "geomlen" and not schema_like:
            c["geom"] = c["geom"][:-1] if rng.random() < 0.5 else c["geom"] + ["9.5"]
        elif kind == "close" and nat >= 2:
            i, j = rng.sample(range(nat), 2)
            g = list(c["geom"])
            g[3 * j:3 * j + 3] = [g[3 * i], g[3 * i + 1], format(Decimal(g[3 * i + 2]) + Decimal(rng.choice(["0.03", "0", "-0.07"])), "f")]
            c["geom"] = g
        elif kind == "units" and not schema_like:
            c["units"] = rng.choice(["nm", "", "au", "Angstroms", "pm"])
        elif kind == "iutau" and not schema_like:
            c["iutau"] = rng.choice(["1.8", "2.0", "0.5"]) if c["units"].capitalize() == "Angstrom" else rng.choice(["0.9", "1.1", "1.8897"])
        elif kind == "seps" and nat >= 2 and not schema_like:
            c["seps"] = rng.choice([[0], [nat], [1, 1], [nat + 3], [-nat], [nat - 1, 1] if nat > 2 else [1, 0]])
            c.pop("fchg", None)
            c.pop("fmult", None)
        elif kind == "fraglen" and c.get("seps") is not None:
            c["fchg"] = [0] * (nfr + rng.choice([1, -1]) or 1)
        elif kind == "fragnosep":
            c.pop("seps", None)
            c["fchg"] = [0]
    return c


NEAR_DIRS = [(1, 1, 1), (1, 1, 0), (0, 1, 1), (1, 0, 1), (3, 3, 1), (1, -1, 1), (-1, 2, 2), (3, -4, 8), (2, 1, 0), (1, 0, 0), (0, 0, 1), (0, -1, 0)]


def near_offset(rng, t):
    """a displacement of length f*t in a general direction (4-decimal components), f below / just below / just above / above 1"""
    while True:
        if rng.random() < 0.6:
            d = rng.choice(NEAR_DIRS)
            d = tuple(x * rng.choice([1, -1]) for x in d)
        else:
            d = (rng.uniform(-1, 1), rng.uniform(-1, 1), rng.uniform(-1, 1))
        n = sum(x * x for x in d) ** 0.5
        if n < 0.2:
            continue
        f = rng.choice([0.3, 0.6, 0.87, 0.95, 0.98, 1.02, 1.05, 1.2, 1.6])
        off = [Decimal(repr(round(x / n * f * float(t), 4))) for x in d]
        n2 = sum(x * x for x in off)
        t2 = Decimal(t) * Decimal(t)
        if n2 > 0 and abs(n2 - t2) > Decimal("0.002") * t2:
            return off


def add_near_pair(rng, c):
    nat = len(c["geom"]) // 3
    if nat < 2:
        return
    i, j = rng.sample(range(nat), 2)
    if rng.random() < 0.3:
        i, j = rng.choice([(0, nat - 1), (nat - 1, 0), (nat - 2, nat - 1), (0, 1)])
    off = near_offset(rng, c.get("tooclose", "0.1"))
    g = list(c["geom"])
    g[3 * j:3 * j + 3] = [format(Decimal(g[3 * i + k]) + off[k], "f") for k in range(3)]
    c["geom"] = g
    c["near_pair"] = [i, j]


# ------------------------------------------------------------------------------------------------
# stream "far": the same molecules far from the origin.  The rigid translation is (small odd integer) x 2^p per
# component, p = 12..34, and the molecule's own coordinates are snapped to a dyadic grid 2^-b with b chosen so that
# every translated coordinate has at most 15 significant decimal digits: it is then an exact binary64 number AND its
# shortest repr is its exact value, so the model (exact rationals read from the text) and the implementation see the
# same numbers.  A screen on coordinate DIFFERENCES is then exact, while any screen that forms |a|^2, a.b or other
# quantities of the size of the coordinates loses the 0.1-bohr separations.


def dyadic(x, bits):
    grid = 2 ** bits
    return Decimal(int((Decimal(x) * grid).to_integral_value(rounding="ROUND_HALF_EVEN"))) / Decimal(grid)


def far_shift(rng):
    p = rng.randrange(12, 35)
    while True:
        sh = []
        for _ in range(3):
            if rng.random() < 0.2:
                sh.append(0)
            else:
                sh.append(rng.choice([1, -1]) * rng.choice([1, 1, 3, 5, 7]) * 2 ** max(12, min(34, p + rng.randrange(-3, 4))))
        if any(sh):
            return sh


def gen_far_case(ctx, T, schema_like):
    rng = ctx.rng
    while True:
        c = gen_case(ctx, T, schema_like=schema_like)
        if len(c["geom"]) % 3 == 0 and len(c["geom"]) >= 6:
            break
    c.pop("near_pair", None)
    nat = len(c["geom"]) // 3
    sh = far_shift(rng)
    bits = max(4, min(12, 15 - len(str(max(abs(x) for x in sh) + 16))))      # integer digits + fractional digits <= 15
    pts = [[dyadic(x, bits) for x in c["geom"][3 * i:3 * i + 3]] for i in range(nat)]
    kind = rng.choice(["near", "near", "near", "near", "coincident", "plain"])
    if kind != "plain":
        i, j = rng.sample(range(nat), 2)
        if rng.random() < 0.3:
            i, j = rng.choice([(0, nat - 1), (nat - 1, 0), (nat - 2, nat - 1), (0, 1)])
        off = [Decimal(0)] * 3
        if kind == "near":
            t2 = Decimal(c.get("tooclose", "0.1")) ** 2
            for _ in range(60):
                cand = [dyadic(x, bits) for x in near_offset(rng, c.get("tooclose", "0.1"))]
                n2 = sum(x * x for x in cand)
                if n2 > 0 and abs(n2 - t2) > Decimal("0.002") * t2:
                    off = cand
                    break
            else:
                kind = "coincident"        # the grid is too coarse for this tooclose
        pts[j] = [pts[i][k] + off[k] for k in range(3)]
        c["near_pair"] = [i, j]
    c["geom"] = [format(p[k] + sh[k], "f") for p in pts for k in range(3)]
    for x in c["geom"]:
        if Decimal(repr(float(x))) != Decimal(x):
            raise AssertionError("far generator: %s is not an exact binary64 value with a short repr" % x)
    c["far"] = {"kind": kind, "shift": sh, "grid_bits": bits}
    if schema_like:
        c["schema_like"] = True
    return c


SWEEP_OFFS = [(0, 0, 0), (0, 0, 0), (1, 0, 0), (0, -1, 0), (1, 1, 0), (0, 1, -1), (-1, 0, 1), (1, 1, 1), (-1, 1, 1), (2, 0, 0), (1, -1, 2)]


def gen_far_sweep(ctx, T, n_bases):
    """small molecules (2-4 atoms on a 1/16 grid) with a coincident pair or a pair 0.0625 .. 0.15 apart, each translated to
    every magnitude 2^10 .. 2^36 (two directions per magnitude); implementation-only, judged by the exact oracle"""
    rng = ctx.rng
    lattice = [(x, y, z) for x in range(-1, 2) for y in range(-1, 2) for z in range(-1, 2)]
    out = []
    for b in range(n_bases):
        nat = rng.choice([2, 2, 3, 4])
        schema_like = b % 2 == 0
        els = [rng.choice(LIGHT) for _ in range(nat)]
        base = [[Decimal(v) + Decimal(rng.randrange(-3, 4)) / 16 for v in st] for st in rng.sample(lattice, nat)]
        i, j = rng.sample(range(nat), 2)
        o = rng.choice(SWEEP_OFFS)
        for p in range(10, 37):
            for _ in range(2):
                sh = [0 if rng.random() < 0.2 else rng.choice([1, -1]) * rng.choice([1, 3, 5, 7]) * 2 ** p for _ in range(3)]
                if not any(sh):
                    sh[rng.randrange(3)] = 2 ** p
                bits = max(3, min(4, 15 - len(str(max(abs(x) for x in sh) + 4))))
                pts = [[dyadic(x, bits) for x in pt] for pt in base]
                pts[j] = [pts[i][k] + Decimal(o[k]) / 2 ** bits for k in range(3)]
                c = {"geom": [format(pt[k] + sh[k], "f") for pt in pts for k in range(3)], "near_pair": [i, j],
                     "far": {"kind": "sweep", "shift": sh, "grid_bits": bits, "pair_offset": [x / 2 ** bits for x in o]}}
                if schema_like:
                    c.update({"elem": list(els), "units": "Bohr", "speclabel": False, "schema_like": True})
                else:
                    c.update({"elez": [T["e2z"][e] for e in els], "units": rng.choice(["Bohr", "Angstrom"])})
                for x in c["geom"]:
                    if Decimal(repr(float(x))) != Decimal(x):
                        raise AssertionError("far sweep: %s is not an exact binary64 value with a short repr" % x)
                out.append(c)
    return out


# ------------------------------------------------------------------------------------------------
# stream "spelling" (implementation only): the same molecule with its columns spelled as numpy arrays of narrow / unsigned /
# big-endian / Fortran-ordered / strided types must be judged exactly as the plain-list spelling; the arrays handed in are
# not aliased into the returned record, and asking again gives the same answer.

def gen_spelling_case(ctx, T):
    rng = ctx.rng
    nat = rng.choice([1, 2, 2, 3, 4, 5])
    integral = rng.random() < 0.3
    lattice = [(x, y, z) for x in range(0, 4) for y in range(0, 4) for z in range(0, 4)]
    pts = [[Decimal(v) if integral else Decimal(v) + Decimal(rng.randrange(-3, 4)) / 16 for v in st] for st in rng.sample(lattice, nat)]
    if nat >= 2 and rng.random() < 0.3:
        i, j = rng.sample(range(nat), 2)
        o = (0, 0, 0) if integral else rng.choice(SWEEP_OFFS)
        pts[j] = [pts[i][k] + Decimal(o[k]) / 16 for k in range(3)]
    els = [rng.choice(POOL) for _ in range(nat)]
    c = {"geom": [format(x, "f") for p in pts for x in p], "elez": [T["e2z"][e] for e in els], "units": rng.choice(["Bohr", "Angstrom"]),
         "integral": integral}
    if rng.random() < 0.5:
        c["elea"] = [T["ea2a"][e] if rng.random() < 0.7 else rng.choice(sorted(T["iso"][e])) for e in els]
    if rng.random() < 0.5:
        c["real"] = [rng.random() < 0.7 for _ in els]
    if rng.random() < 0.4:
        c["mass"] = [T["ea2massstr"][e] for e in els]
        c.pop("elea", None)
    if rng.random() < 0.4:
        c["elem"] = [c06.rand_case_sym(rng, e) for e in els]
    if nat >= 2 and rng.random() < 0.5:
        c["seps"] = sorted(rng.sample(range(1, nat), rng.choice([1, min(2, nat - 1)])))
        if rng.random() < 0.3:
            c["seps"] = [x - nat for x in c["seps"]]
    return c


def spellings_of(c):
    """(name, {from_arrays keyword: numpy spelling}) — one column at a time, then all together"""
    import numpy as np
    nat = len(c["geom"]) // 3
    g = np.array([float(x) for x in c["geom"]])
    out = [("geom C (nat,3)", {"geom": g.reshape(nat, 3).copy()}), ("geom F (nat,3)", {"geom": np.asfortranarray(g.reshape(nat, 3))}),
           ("geom >f8", {"geom": g.astype(">f8")}), ("geom f4", {"geom": g.astype("f4")}),
           ("geom strided", {"geom": np.repeat(g, 2)[::2]}), ("geom tuple", {"geom": tuple(g.tolist())})]
    if c.get("integral"):
        gi = [int(float(x)) for x in c["geom"]]
        out += [("geom int list", {"geom": gi}), ("geom int8", {"geom": np.array(gi, dtype=np.int8)}), ("geom uint8", {"geom": np.array(gi, dtype=np.uint8)}),
                ("geom >i4 (nat,3)", {"geom": np.array(gi, dtype=">i4").reshape(nat, 3)})]
    for k, name in (("elez", "elez"), ("elea", "elea")):
        if c.get(k) is not None:
            narrow = np.uint8 if all(0 <= x < 256 for x in c[k]) else np.uint16
            out += [(name + " uint8", {name: np.array(c[k], dtype=narrow)}), (name + " int16", {name: np.array(c[k], dtype=np.int16)}),
                    (name + " >i8", {name: np.array(c[k], dtype=">i8")}), (name + " float list", {name: [float(x) for x in c[k]]})]
    if c.get("real") is not None:
        out += [("real bool_", {"real": np.array(c["real"], dtype=bool)}), ("real 0/1 list", {"real": [int(x) for x in c["real"]]}),
                ("real uint8", {"real": np.array(c["real"], dtype=np.uint8)})]
    if c.get("mass") is not None:
        m = [float(x) for x in c["mass"]]
        out += [("mass >f8", {"mass": np.array(m, dtype=">f8")}), ("mass f8", {"mass": np.array(m)})]
    if c.get("elem") is not None:
        out += [("elem str_", {"elem": np.array(c["elem"])})]
    if c.get("seps") is not None:
        out += [("seps int8", {"fragment_separators": np.array(c["seps"], dtype=np.int8)}), ("seps >i8", {"fragment_separators": np.array(c["seps"], dtype=">i8")})]
        if all(x >= 0 for x in c["seps"]):
            out += [("seps uint8", {"fragment_separators": np.array(c["seps"], dtype=np.uint8)})]
    allkw = {}
    for name, kw in out:
        if name in ("geom F (nat,3)", "elez uint8", "elea int16", "real bool_", "mass >f8", "elem str_", "seps int8"):
            allkw.update(kw)
    out.append(("all numpy", allkw))
    return out


def spelled_call(c, over, alias=False):
    """from_arrays on case c with the keywords in `over` replaced; ("Ok", canonical record) / ("Err", kind); with alias=True
    also mutate every array handed in afterwards and report whether the returned record moved"""
    import numpy as np
    from qcelemental.molparse import from_arrays
    kw = arrays_kwargs(c)
    kw.update(over)
    try:
        with contextlib.redirect_stdout(io.StringIO()):
            r = from_arrays(verbose=0, **kw)
    except Exception as e:
        return ("Err", ekind_of(e)), None
    before = canon_record(r)
    moved = None
    if alias:
        for v in over.values():
            if isinstance(v, np.ndarray) and v.dtype.kind in "fiu" and v.flags.writeable:
                v += 1
            elif isinstance(v, np.ndarray) and v.dtype.kind == "b":
                np.logical_not(v, out=v)
        moved = canon_record(r) != before
    return ("Ok", before), moved


def spelling_judge(c, name):
    """None or a message: spelling `name` of case c against the plain-list spelling"""
    ref, _ = spelled_call(c, {})
    for nm, over in spellings_of(c):
        if nm != name:
            continue
        got, moved = spelled_call(c, over, alias=True)
        if got != ref:
            return f"spelling '{nm}' of the same molecule is judged differently from the plain-list spelling: {diff(ref, got) if got[0] == ref[0] == 'Ok' else (ref[0:2] if ref[0] == 'Err' else 'Ok', got[0:2] if got[0] == 'Err' else 'Ok')}"
        if moved:
            return f"the record returned for spelling '{nm}' changes when the caller's arrays are modified afterwards (input aliased into the answer)"
        again, _ = spelled_call(c, {k: v for k, v in spellings_of(c) if k == nm}[nm])
        if again != ref:
            return f"asking again with spelling '{nm}' gives a different answer: {again[0:2] if again[0] == 'Err' else 'Ok'}"
    return None


def spelling_stream(ctx, T, corr):
    n = 1500 if ctx.thorough else 120
    for _ in range(n):
        c = gen_spelling_case(ctx, T)
        if not geom_safe(c):
            continue
        hpos = hlog({"input": public(c)})
        out = impl_from_arrays(c)
        bad = oracle(T, c, out)
        if bad:
            corr.failures.append({"stream": "spelling", "case": {"input": public(c)}, "what": bad, "observed": out, "entry": "from_arrays",
                                  "_hpos": hpos})
            continue
        for nm, _ in spellings_of(c):
            corr.count("spelling")
            corr.hit("spelling_" + nm.split(" ")[0] + "_" + out[0])
            hpos = hlog({"input": public(c), "spelling": nm})
            bad = spelling_judge(c, nm)
            if bad and sum(1 for f in corr.failures if f["stream"] == "spelling") < 8:
                corr.failures.append({"stream": "spelling", "case": {"input": public(c), "spelling": nm}, "what": bad, "observed": out,
                                      "entry": "from_arrays", "_hpos": hpos})


def geom_safe(c):
    """no pair distance within a relative 1e-6 of tooclose (so the binary64 screen and the exact one agree)"""
    g = c["geom"]
    if len(g) % 3:
        return True
    nat = len(g) // 3
    t2 = Decimal(c.get("tooclose", "0.1")) ** 2
    pts = [tuple(Decimal(x) for x in g[3 * i:3 * i + 3]) for i in range(nat)]
    for i in range(nat):
        for j in range(i + 1, nat):
            d2 = sum((a - b) ** 2 for a, b in zip(pts[i], pts[j]))
            if d2 != 0 and abs(d2 - t2) <= Decimal("1e-6") * t2:
                return False
    return True


def safe_for_exact(T, c):
    """all supplied masses >= 1e-9 from every decision edge of reconcile_nucleus (binary64 vs exact agree)"""
    if not geom_safe(c):
        return False
    nat = len(c["geom"]) // 3
    for k in range(nat):
        try:
            ac = atom_case(c, k)
        except IndexError:
            continue
        if c06.min_edge_distance(T, ac) < SLACK:
            return False
    return True


def schema_kwargs(T, c):
    """the raw case as QCSchema keywords (only for schema_like cases with a valid partition)"""
    nat = len(c["geom"]) // 3
    kw = {"symbols": list(c["elem"]), "geometry": [float(x) for x in c["geom"]]}
    for k, name in (("elez", "atomic_numbers"), ("elea", "mass_numbers"), ("real", "real"), ("elbl", "atom_labels")):
        if c.get(k) is not None:
            kw[name] = list(c[k])
    if c.get("mass") is not None:
        kw["masses"] = [float(x) for x in c["mass"]]
    if c.get("seps") is not None:
        kw["fragments"] = py_pieces(nat, c["seps"])
        if c.get("fchg") is not None:
            kw["fragment_charges"] = list(c["fchg"])
        if c.get("fmult") is not None:
            kw["fragment_multiplicities"] = list(c["fmult"])
    for k in ("molecular_charge", "molecular_multiplicity", "fix_com", "fix_orientation", "fix_symmetry"):
        if c.get(k) is not None:
            kw[k] = c[k]
    if c.get("conn") is not None:
        kw["connectivity"] = [(a, b, float(o)) for a, b, o in c["conn"]]
    return kw


def entry_point_agreement(T, c, out):
    """raw schema-like input through from_schema and Molecule(**kwargs): same refusal / same record as from_arrays"""
    from qcelemental.molparse import from_schema
    from qcelemental.models import Molecule
    nat = len(c["geom"]) // 3
    if len(c["geom"]) % 3 and c.get("elem") is not None and all(x is not None for x in c["elem"]):
        # the other two entry points must refuse a geometry that is not 3 per atom with a validation error too
        kw0 = {"symbols": list(c["elem"]), "geometry": [float(x) for x in c["geom"]]}
        for name, call in (("from_schema", lambda: from_schema(dict(kw0, schema_name="qcschema_molecule", schema_version=2), verbose=0)),
                           ("Molecule", lambda: Molecule(**kw0))):
            try:
                with contextlib.redirect_stdout(io.StringIO()):
                    call()
                return (name, f"{name} accepts a geometry whose length is not a multiple of 3")
            except Exception as e:
                if ekind_of(e) not in ("Validation", "NotAnElement", "PydanticValidation"):
                    return (name, f"{name} refuses with {ekind_of(e)} instead of a validation error (geometry length is not a multiple of 3)")
        return None
    if c.get("seps") is not None and malformation(T, dict(c, fchg=None, fmult=None)) is not None:
        return None
    if len(c["geom"]) % 3 or nat == 0 or c.get("elem") is None or any(x is None for x in c["elem"]):
        return None
    if c.get("seps") is None and (c.get("fchg") is not None or c.get("fmult") is not None):
        return None          # QCSchema has no way to say "fragment charges without fragments"
    if any(c.get(k) is not None and (len(c[k]) != nat or any(x is None for x in c[k])) for k in ("elea", "elez", "mass", "real", "elbl")):
        # a wrong-length column: all three must refuse (checked below); partial columns are not expressible
        if any(c.get(k) is not None and any(x is None for x in c[k]) for k in ("elea", "elez", "mass", "real", "elbl")):
            return None
    kw = schema_kwargs(T, c)
    nonphys = c.get("nonphysical", False)
    try:
        with contextlib.redirect_stdout(io.StringIO()):
            r2 = ("Ok", canon_record(from_schema(dict(kw, schema_name="qcschema_molecule", schema_version=2), nonphysical=nonphys, verbose=0)))
    except Exception as e:
        r2 = ("Err", ekind_of(e))
    refusal = ("Validation", "NotAnElement", "PydanticValidation")
    if (r2[0] == "Err") != (out[0] == "Err"):
        return ("from_schema", f"from_arrays says {out[0]} but from_schema says {r2[0:2] if r2[0] == 'Err' else 'Ok'} on the same input")
    mal = malformation(T, c)
    if mal and r2[0] == "Ok":
        return ("from_schema", "from_schema accepts a malformed input: " + mal)
    if r2[0] == "Err" and r2[1] not in refusal:
        return ("from_schema", f"from_schema refuses with {r2[1]} instead of a validation error")
    if r2[0] == "Ok" and r2 != out:
        return ("from_schema", f"from_schema record differs from from_arrays record: {diff(out, r2)}")
    if any(x is None for k in ("fchg", "fmult") for x in (c.get(k) or [])):
        return None          # pydantic's List[float]/List[int] cannot carry None entries
    try:
        with contextlib.redirect_stdout(io.StringIO()):
            mol = Molecule(nonphysical=nonphys, **kw)
        r3 = "Ok"
    except Exception as e:
        r3 = ekind_of(e)
    if (r3 != "Ok") != (out[0] == "Err"):
        return ("Molecule", f"from_arrays says {out[0]} but Molecule(**kwargs) says {r3} on the same input")
    if mal and r3 == "Ok":
        return ("Molecule", "Molecule(**kwargs) accepts a malformed input: " + mal)
    if r3 != "Ok" and r3 not in refusal:
        return ("Molecule", f"Molecule(**kwargs) refuses with {r3} instead of a validation error")
    if r3 == "Ok":
        rec = out[1]
        given_a = c.get("elea") or [None] * nat
        # a mass number the caller left as -1 may stay -1 in the model object when the mass is the element default
        # (defaults are filtered and the caller's own keyword is kept); -1 means "not assigned"
        mnum = [(rec["elea"][k] if (given_a[k] == -1 and int(x) == -1) else int(x)) for k, x in enumerate(mol.mass_numbers)]
        got = ([str(x) for x in mol.symbols], [int(x) for x in mol.atomic_numbers], mnum,
               [float(x) for x in mol.masses], [bool(x) for x in mol.real], [str(x) for x in mol.atom_labels],
               [[int(i) for i in f] for f in mol.fragments], [float(x) for x in mol.fragment_charges],
               [int(x) for x in mol.fragment_multiplicities], float(mol.molecular_charge), int(mol.molecular_multiplicity))
        want = (rec["elem"], rec["elez"], rec["elea"], [float(x) for x in rec["mass"]], rec["real"], rec["elbl"],
                py_pieces(nat, rec["seps"]), [float(x) for x in rec["fchg"]], rec["fmult"], float(rec["chg"]), rec["mult"])
        if got != want:
            only_a = all(w == g for i, (w, g) in enumerate(zip(want, got)) if i != 2)
            if only_a and all(w == g or (w == -1 and g == T["ea2a"][rec["elem"][k]]
                                         and abs(float(rec["mass"][k]) - float(T["ea2massstr"][rec["elem"][k]])) > float(c.get("mtol", "0.001")))
                              for k, (w, g) in enumerate(zip(want[2], got[2]))):
                return ("Molecule", "Molecule(**kwargs).mass_numbers names the default isotope for a mass that validation does not assign to it "
                                    f"(masses within np.allclose of the default but beyond mtol): record {want[2]}, Molecule {got[2]}, masses {rec['mass']}")
            return ("Molecule", f"Molecule(**kwargs) attributes differ from the from_arrays record: {[(w, g) for w, g in zip(want, got) if w != g][:3]}")
    return None


# ------------------------------------------------------------------------------------------------
# fragments given as index lists (QCSchema): whatever reordering the implementation does, every atom must keep its
# symbol, coordinates, fragment, and the fragment its charge and multiplicity.  Independent of the Coq model.

LIGHT = ["H", "He", "Li", "Be", "B", "C", "N", "O", "F", "Ne", "Na", "Mg", "Al", "Si", "P", "S", "Cl", "Ar"]


def gen_fragpattern(ctx, T):
    rng = ctx.rng
    nfr = rng.choice([2, 2, 3, 3, 4])
    sizes = [rng.choice([1, 1, 2, 3]) for _ in range(nfr)]
    nat = sum(sizes)
    els = rng.sample(LIGHT, nat) if nat <= len(LIGHT) else [rng.choice(LIGHT) for _ in range(nat)]
    lattice = [(x, y, z) for x in range(-2, 3) for y in range(-2, 3) for z in range(-2, 3)]
    geom = [coord(rng, v) for s in rng.sample(lattice, nat) for v in s]
    runs, k = [], 0
    for sz in sizes:
        runs.append(list(range(k, k + sz)))
        k += sz
    kind = rng.choice(["identity", "permuted", "permuted", "permuted", "interleaved"])
    if kind == "interleaved" and all(sz == 1 for sz in sizes):
        kind = "permuted"           # singletons cannot interleave
    frags = [list(r) for r in runs]
    if kind == "permuted":
        while frags == runs:
            rng.shuffle(frags)
    elif kind == "interleaved":
        idx = list(range(nat))
        while True:
            rng.shuffle(idx)
            frags, k = [], 0
            for sz in sizes:
                frags.append(idx[k:k + sz])
                k += sz
            if any(f != list(range(f[0], f[0] + len(f))) for f in frags):
                break
    real = [rng.random() < 0.9 for _ in range(nat)]
    c = {"frag_pattern": frags, "kind": kind, "elem": els, "geom": geom}
    if rng.random() < 0.3:
        c["real"] = real
    else:
        real = [True] * nat
    if rng.random() < 0.8:
        fc, fm = [], []
        choices = [0, 1, -1, 2]
        rng.shuffle(choices)
        for n, f in enumerate(frags):
            z = sum(T["e2z"][els[i]] for i in f if real[i])
            q = choices[n % len(choices)]
            if z - q < 0:
                q = 0
            fc.append(q)
            fm.append(1 if (z - q) % 2 == 0 else 2)
        c["fchg"], c["fmult"] = fc, fm
        if rng.random() < 0.5:
            c["molecular_charge"] = sum(fc)
    return c


def fragpattern_kwargs(c):
    kw = {"symbols": list(c["elem"]), "geometry": [float(x) for x in c["geom"]], "fragments": [list(f) for f in c["frag_pattern"]]}
    if c.get("real") is not None:
        kw["real"] = list(c["real"])
    if c.get("fchg") is not None:
        kw["fragment_charges"] = [float(x) for x in c["fchg"]]
        kw["fragment_multiplicities"] = list(c["fmult"])
    if c.get("molecular_charge") is not None:
        kw["molecular_charge"] = float(c["molecular_charge"])
    return kw


def fragpattern_judge(T, c, symbols, coords, real, pieces, fchg, fmult, chg, who):
    """symbols/coords/real per output atom, pieces = output fragments as index lists"""
    frags = c["frag_pattern"]
    nat = len(c["elem"])
    if len(symbols) != nat or len(coords) != nat:
        return f"{who}: number of atoms changed"
    if sorted(i for p in pieces for i in p) != list(range(nat)):
        return f"{who}: output fragments do not partition the atoms"
    if len(pieces) != len(frags) or len(fchg) != len(frags) or len(fmult) != len(frags):
        return f"{who}: number of fragments / fragment charges / multiplicities changed"
    inreal = c.get("real") or [True] * nat

    def atom_in(i):
        return (c["elem"][i].capitalize(), tuple(round(float(x), 7) for x in c["geom"][3 * i:3 * i + 3]), bool(inreal[i]))

    def atom_out(i):
        return (str(symbols[i]), tuple(round(float(x), 7) for x in coords[i]), bool(real[i]))
    for k, (f, p) in enumerate(zip(frags, pieces)):
        if sorted(atom_in(i) for i in f) != sorted(atom_out(i) for i in p):
            return (f"{who}: fragment {k} does not hold the atoms the caller put in it (given atoms {sorted(atom_in(i) for i in f)}, "
                    f"got {sorted(atom_out(i) for i in p)}) — charges/multiplicities would sit on the wrong atoms")
        if c.get("fchg") is not None and (float(fchg[k]) != float(c["fchg"][k]) or int(fmult[k]) != int(c["fmult"][k])):
            return f"{who}: fragment {k} lost its charge/multiplicity"
        z = sum(T["e2z"][str(symbols[i])] for i in p if real[i])
        if int(fmult[k]) < 1 or int(fmult[k]) - 1 > z - fchg[k] or (int(fmult[k]) % 2) == ((z - int(fchg[k])) % 2 if float(fchg[k]).is_integer() else -1):
            return f"{who}: fragment {k} has an infeasible (electrons={z}, charge={fchg[k]}, multiplicity={fmult[k]})"
    if abs(float(chg) - sum(float(x) for x in fchg)) > 1e-9:
        return f"{who}: total charge is not the sum of the fragment charges"
    return None


def fragpattern_oracle(T, c):
    from qcelemental.molparse import from_schema
    from qcelemental.models import Molecule
    kw = fragpattern_kwargs(c)
    nat = len(c["elem"])
    refusal = ("Validation", "NotAnElement", "PydanticValidation")
    obs = {}
    try:
        with contextlib.redirect_stdout(io.StringIO()):
            r = from_schema(dict(kw, schema_name="qcschema_molecule", schema_version=2), verbose=0)
        obs["from_schema"] = "Ok"
        g = [float(x) for x in r["geom"]]
        bad = fragpattern_judge(T, c, [str(x) for x in r["elem"]], [g[3 * i:3 * i + 3] for i in range(nat)], [bool(x) for x in r["real"]],
                                py_pieces(nat, [int(x) for x in r["fragment_separators"]]), [float(x) for x in r["fragment_charges"]],
                                [int(x) for x in r["fragment_multiplicities"]], float(r["molecular_charge"]), "from_schema")
        if bad:
            return ("from_schema", bad, obs)
    except Exception as e:
        obs["from_schema"] = ekind_of(e)
        if ekind_of(e) not in refusal:
            return ("from_schema", f"from_schema refuses a fragment pattern with {ekind_of(e)} instead of a validation error", obs)
    try:
        with contextlib.redirect_stdout(io.StringIO()):
            mol = Molecule(**kw)
        obs["Molecule"] = "Ok"
        mg = mol.geometry.reshape(-1, 3)
        bad = fragpattern_judge(T, c, [str(x) for x in mol.symbols], [[float(x) for x in row] for row in mg], [bool(x) for x in mol.real],
                                [[int(i) for i in f] for f in mol.fragments], [float(x) for x in mol.fragment_charges],
                                [int(x) for x in mol.fragment_multiplicities], float(mol.molecular_charge), "Molecule")
        if bad:
            return ("Molecule", bad, obs)
    except Exception as e:
        obs["Molecule"] = ekind_of(e)
        if ekind_of(e) not in refusal:
            return ("Molecule", f"Molecule(**kwargs) refuses a fragment pattern with {ekind_of(e)} instead of a validation error", obs)
    if (obs["from_schema"] == "Ok") != (obs["Molecule"] == "Ok"):
        return ("Molecule", f"from_schema and Molecule disagree on accepting the fragment pattern: {obs}", obs)
    if c["kind"] == "identity" and obs["from_schema"] != "Ok" and c.get("fchg") is None:
        return ("from_schema", f"an ordered contiguous fragment pattern without charges is refused: {obs}", obs)
    return (None, None, obs)


# ------------------------------------------------------------------------------------------------
# stream "schema": QCSchema dictionaries through from_schema and Molecule(**kwargs), compared with Model/MolSchema.v
# (sniffing, contiguize incl. its fast path, hand-over to from_arrays, Molecule.fragments bookkeeping)

SREQ = REQ + ["QV.Model.MolSchema"]
NAMEVER = [("qcschema_molecule", 2)] * 14 + [(None, None), ("qcschema_input", 1), ("qc_schema_input", 1), ("qcschema_molecule", 1),
           ("qcschema_output", 1), ("qcschema", 2), ("qcschema_molecule_v2", 2), ("QCSchema_molecule", 2), ("qcschema_molecule", 3),
           ("qcschema_molecule", None), (None, 2), ("qc_schema", 2), ("", 1), ("qcschema_molecul", 2), ("qcschema_input", 2), ("xqcschema", 1)]


def mutate_pattern(rng, nat, pieces):
    """fragment index patterns around a valid one: what contiguize must accept untouched or refuse"""
    kind = rng.choice(["valid", "valid", "valid", "absent", "whole", "offset", "offset", "shifted_multi", "permuted", "interleaved",
                       "reversed_run", "duplicate", "skip", "empty_fragment", "empty_list", "negative", "gap_single", "short", "long"])
    if kind == "valid":
        return kind, [list(p) for p in pieces]
    if kind == "absent":
        return kind, None
    if kind == "whole":
        return kind, [list(range(nat))]
    if kind == "offset":           # a single ascending run that does not start at atom 0
        k = rng.choice([1, 1, 2, 5, -1, -nat, nat])
        return kind, [[i + k for i in range(nat)]]
    if kind == "shifted_multi":
        k = rng.choice([1, -1, 3])
        return kind, [[i + k for i in p] for p in pieces]
    if kind == "permuted":
        ps = [list(p) for p in pieces]
        if len(ps) > 1:
            while ps == [list(p) for p in pieces]:
                rng.shuffle(ps)
        else:
            ps = [list(reversed(ps[0]))]
        return kind, ps
    if kind == "interleaved":
        idx = list(range(nat))
        rng.shuffle(idx)
        out, k = [], 0
        for p in pieces:
            out.append(idx[k:k + len(p)])
            k += len(p)
        return kind, out
    if kind == "reversed_run":
        return kind, [list(reversed(range(nat)))]
    if kind == "duplicate":
        ps = [list(p) for p in pieces]
        i = rng.randrange(len(ps))
        ps[i] = ps[i] + [ps[i][-1]] if rng.random() < 0.5 else [ps[i][0]] * len(ps[i])
        return kind, ps
    if kind == "skip":
        ps = [list(p) for p in pieces]
        ps[-1] = ps[-1][:-1] + [ps[-1][-1] + 1]
        return kind, ps
    if kind == "empty_fragment":
        ps = [list(p) for p in pieces]
        ps.insert(rng.randrange(len(ps) + 1), [])
        return kind, ps
    if kind == "empty_list":
        return kind, []
    if kind == "negative":
        ps = [list(p) for p in pieces]
        ps[-1] = ps[-1][:-1] + [-1]
        return kind, ps
    if kind == "gap_single":
        return kind, [[2 * i for i in range(nat)]]
    if kind == "short":
        return kind, [list(range(max(nat - 1, 0)))] if rng.random() < 0.5 else [list(p) for p in pieces[:-1]]
    return kind, [list(range(nat + 1))]


def gen_schema_case(ctx, T):
    rng = ctx.rng
    c = gen_case(ctx, T, schema_like=True, near=(rng.random() < 0.08))
    nat = len(c["geom"]) // 3
    pieces = py_pieces(nat, c["seps"]) if c.get("seps") is not None else [list(range(nat))]
    if len(c["geom"]) % 3 or any(len(p) == 0 for p in pieces) or nat == 0:
        pieces = [list(range(max(nat, 1)))]
    kind, frags = mutate_pattern(rng, max(nat, 1), pieces)
    sname, sver = rng.choice(NAMEVER)
    sc = {"sname": sname, "sver": sver, "symbols": list(c.get("elem") or []), "geom": list(c["geom"]), "frags": frags, "fkind": kind,
          "nonphysical": c.get("nonphysical", False)}
    for k in ("elea", "elez", "mass", "real", "elbl", "fchg", "fmult", "molecular_charge", "molecular_multiplicity",
              "fix_com", "fix_orientation", "fix_symmetry", "conn"):
        if c.get(k) is not None:
            sc[k] = c[k]
    if frags is None or len(frags) != len(pieces):
        nfr = 1 if frags is None else len(frags)
        if rng.random() < 0.7:
            sc.pop("fchg", None)
            sc.pop("fmult", None)
        else:
            for k in ("fchg", "fmult"):
                if k in sc:
                    sc[k] = (list(sc[k]) + [sc[k][-1]] * nfr)[:nfr] if nfr else []
    if any(x is None for x in sc["symbols"]):
        sc["symbols"] = [x or "H" for x in sc["symbols"]]
    if rng.random() < 0.14:
        damage_column_length(rng, T, sc, nat)
    return sc


COLLEN_FILL = {"elea": lambda T, e: T["ea2a"].get(e, 1), "elez": lambda T, e: T["e2z"].get(e, 1), "mass": lambda T, e: T["ea2massstr"].get(e, "1.0"),
               "real": lambda T, e: True, "elbl": lambda T, e: "", "symbols": lambda T, e: e}


def damage_column_length(rng, T, sc, nat):
    """one per-atom array (symbols or an optional descriptor, supplied here if the case has none) with more or fewer entries than
    there are atoms -- mostly on a schema whose fragment list is a valid partition into >= 2 fragments (contiguize's slow path
    handles the per-atom arrays itself there), otherwise on whatever pattern the case already has.  No record exists: refusal."""
    if nat >= 2 and rng.random() < 0.75:
        cuts = sorted(rng.sample(range(1, nat), min(nat - 1, rng.choice([1, 1, 2, 3]))))
        sc["frags"] = py_pieces(nat, cuts)
        sc["fkind"] = "valid"
        for k in ("fchg", "fmult"):
            if k in sc and len(sc[k]) != len(cuts) + 1:
                del sc[k]
    cols = [k for k in ("elea", "elez", "mass", "real", "elbl") if sc.get(k) is not None and len(sc[k]) == nat]
    r = rng.random()
    if r < 0.12:
        x = "symbols"
    elif cols and r < 0.6:
        x = rng.choice(cols)
    else:
        x = rng.choice(["elea", "elez", "mass", "real", "elbl"])
        if sc.get(x) is None or len(sc[x]) != nat:
            sc[x] = [COLLEN_FILL[x](T, str(e).capitalize() if str(e).capitalize() in T["e2z"] else "H") for e in sc["symbols"][:nat]]
            sc[x] += [sc[x][-1]] * (nat - len(sc[x]))
    col = list(sc[x])
    if not col:
        return
    if rng.random() < 0.6:
        extra = rng.choice([1, 1, 1, 2, nat])
        sc[x] = col + [rng.choice(col) if rng.random() < 0.5 else col[-1] for _ in range(extra)]
        sc["fkind"] += "+long_" + x
    else:
        sc[x] = col[:-1] if len(col) > 1 and rng.random() < 0.8 else col[:len(col) // 2]
        sc["fkind"] += "+short_" + x


def schema_as_arrays(sc):
    """the from_arrays case a schema dictionary amounts to when its fragment pattern is (or is taken as) contiguous"""
    nat = len(sc["geom"]) // 3
    c = {"geom": sc["geom"], "elem": sc["symbols"], "units": "Bohr", "speclabel": False, "nonphysical": sc.get("nonphysical", False)}
    for k in ("elea", "elez", "mass", "real", "elbl", "fchg", "fmult", "molecular_charge", "molecular_multiplicity",
              "fix_com", "fix_orientation", "fix_symmetry", "conn"):
        if sc.get(k) is not None:
            c[k] = sc[k]
    fr = sc.get("frags")
    if fr is None:
        c["seps"] = []
    else:
        cs, acc = [], 0
        for f in fr:
            acc += len(f)
            cs.append(acc)
        c["seps"] = cs[:-1]
    return c


def schema_dict(sc):
    body = {"symbols": list(sc["symbols"]), "geometry": [float(x) for x in sc["geom"]]}
    for k, name in (("elez", "atomic_numbers"), ("elea", "mass_numbers"), ("real", "real"), ("elbl", "atom_labels")):
        if sc.get(k) is not None:
            body[name] = list(sc[k])
    if sc.get("mass") is not None:
        body["masses"] = [fl(x) for x in sc["mass"]]
    if sc.get("frags") is not None:
        body["fragments"] = [list(f) for f in sc["frags"]]
    for k, name in (("fchg", "fragment_charges"), ("fmult", "fragment_multiplicities"), ("molecular_charge", "molecular_charge"),
                    ("molecular_multiplicity", "molecular_multiplicity"), ("fix_com", "fix_com"), ("fix_orientation", "fix_orientation"),
                    ("fix_symmetry", "fix_symmetry")):
        if sc.get(k) is not None:
            body[name] = sc[k] if not isinstance(sc[k], list) else list(sc[k])
    if sc.get("conn") is not None:
        body["connectivity"] = [(a, b, float(o)) for a, b, o in sc["conn"]]
    return body


def schema_impl(sc):
    """(from_schema outcome, Molecule(**kwargs).fragments or an error kind or None when Molecule is not comparable)"""
    from qcelemental.molparse import from_schema
    from qcelemental.models import Molecule
    body = schema_dict(sc)
    if sc.get("sver") == 1:
        d = {"molecule": body}
    else:
        d = dict(body)
    if sc.get("sname") is not None:
        d["schema_name"] = sc["sname"]
    if sc.get("sver") is not None:
        d["schema_version"] = sc["sver"]
    try:
        with contextlib.redirect_stdout(io.StringIO()):
            out = ("Ok", canon_record(from_schema(d, nonphysical=sc.get("nonphysical", False), verbose=0)))
    except Exception as e:
        out = ("Err", ekind_of(e))
    mol = None
    plain = (sc.get("sname"), sc.get("sver")) in (("qcschema_molecule", 2), (None, None))
    if plain and not any(x is None for k in ("fchg", "fmult", "elea", "elez", "mass", "real", "elbl") for x in (sc.get(k) or [])):
        kw = dict(body)
        if sc.get("sname") is not None:
            kw.update(schema_name=sc["sname"], schema_version=sc["sver"])
        try:
            with contextlib.redirect_stdout(io.StringIO()):
                m = Molecule(nonphysical=sc.get("nonphysical", False), **kw)
            mol = ("Ok", [[int(i) for i in f] for f in m.fragments])
        except Exception as e:
            mol = ("Err", ekind_of(e))
    return out, mol


def schema_term(sc):
    conn = "None" if sc.get("conn") is None else "(Some " + clist(sc["conn"], lambda t: f"({cz(t[0])}, {cz(t[1])}, {qdec(t[2])})") + ")"
    frags = "None" if sc.get("frags") is None else "(Some " + clist(sc["frags"], lambda f: clist(f, cz)) + ")"
    return "(Build_schema %s %s %s %s %s %s %s %s %s %s %s %s %s %s %s %s %s %s)" % (
        copt(sc.get("sname"), cstr), copt(sc.get("sver"), cz), clist(sc["symbols"], cstr), clist(sc["geom"], qdec),
        ccol(sc.get("elea"), cz), ccol(sc.get("elez"), cz), ccol(sc.get("mass"), qdec), ccol(sc.get("real"), cbool), ccol(sc.get("elbl"), cstr),
        frags, ccol(sc.get("fchg"), cz), ccol(sc.get("fmult"), cz), copt(sc.get("molecular_charge"), cz),
        copt(sc.get("molecular_multiplicity"), cz), copt(sc.get("fix_com"), cbool), copt(sc.get("fix_orientation"), cbool),
        copt(sc.get("fix_symmetry"), cstr), conn)


REFUSAL = ("Validation", "NotAnElement", "PydanticValidation")


def schema_oracle(T, sc, out, mol):
    """the property on what from_schema / Molecule did with a schema dictionary; (entry point, message) or None"""
    nat = len(sc["geom"]) // 3
    fr = sc.get("frags")
    contiguous = fr is None or [i for f in fr for i in f] == list(range(nat))
    for who, o in (("from_schema", out), ("Molecule", mol)):
        if o is None:
            continue
        if o[0] == "Err":
            if o[1] not in REFUSAL:
                return (who, f"{who} refuses with {o[1]} instead of a validation error (fragments={fr})")
        elif not contiguous:
            return (who, f"{who} accepts a fragment pattern that does not partition the atoms 0..{nat - 1} in order: {fr} (silently taken as one all-atom fragment)")
    if out[0] == "Ok":
        bad = oracle(T, schema_as_arrays(sc), out)
        if bad:
            return ("from_schema", bad)
        if sc.get("fchg") is not None and fr is not None and any(len(f) == 0 for f in fr):
            return ("from_schema", "accepted a pattern with an empty fragment")
    if mol is not None and mol[0] == "Ok":
        if [i for f in mol[1] for i in f] != list(range(nat)) or any(len(f) == 0 for f in mol[1]):
            return ("Molecule", f"Molecule(**kwargs).fragments = {mol[1]} does not partition the atoms 0..{nat - 1} in order")
    if mol is not None and sc.get("sname") is not None and (mol[0] == "Ok") != (out[0] == "Ok"):
        return ("Molecule", f"from_schema says {out[0:2] if out[0] == 'Err' else 'Ok'} but Molecule(**kwargs) says {mol[0:2] if mol[0] == 'Err' else 'Ok'}")
    return None


SCHEMA_CORPUS = [
    {"sname": "qcschema_molecule", "sver": 2, "symbols": ["H", "He"], "geom": ["0", "0", "0", "0", "0", "1.0"], "frags": [[0, 1]], "fkind": "whole"},
    {"sname": "qcschema_molecule", "sver": 2, "symbols": ["H", "He"], "geom": ["0", "0", "0", "0", "0", "1.0"], "frags": [[0], [1]], "fkind": "valid"},
    # fixed finding C04-single-fragment-offset (2b49794): the fast path of contiguize never looked where the run starts
    {"sname": "qcschema_molecule", "sver": 2, "symbols": ["H", "He"], "geom": ["0", "0", "0", "0", "0", "1.0"], "frags": [[5, 6]], "fkind": "offset"},
    {"sname": None, "sver": None, "symbols": ["H", "He"], "geom": ["0", "0", "0", "0", "0", "1.0"], "frags": [[-1, 0]], "fkind": "offset"},
    {"sname": "qcschema_molecule", "sver": 2, "symbols": ["H", "He"], "geom": ["0", "0", "0", "0", "0", "1.0"], "frags": [[1, 2]], "fkind": "offset"},
    {"sname": None, "sver": None, "symbols": ["H", "He"], "geom": ["0", "0", "0", "0", "0", "1.0"], "frags": [], "fkind": "empty_list"},
    # fixed finding C04-empty-fragment-list-indexerror (361a5b1): must be refused with a validation error
    {"sname": "qcschema_molecule", "sver": 2, "symbols": ["H", "He"], "geom": ["0", "0", "0", "0", "0", "1.0"], "frags": [], "fkind": "empty_list"},
    {"sname": "qcschema_molecule", "sver": 2, "symbols": ["H", "He"], "geom": ["0", "0", "0", "0", "0", "1.0"], "frags": [[1], [0]], "fkind": "permuted",
     "fchg": [1, 0], "fmult": [1, 2]},
    {"sname": "qcschema_molecule", "sver": 2, "symbols": ["H", "He"], "geom": ["0", "0", "0", "0", "0", "1.0"], "frags": [[1, 0]], "fkind": "reversed_run"},
    {"sname": "qcschema_molecule", "sver": 2, "symbols": ["H", "He"], "geom": ["0", "0", "0", "0", "0", "1.0"], "frags": [[0, 1], []], "fkind": "empty_fragment"},
    {"sname": "qcschema_molecule", "sver": 2, "symbols": ["H", "He"], "geom": ["0", "0", "0", "0", "0", "1.0"], "frags": [[]], "fkind": "short"},
    {"sname": "qcschema_molecule", "sver": 2, "symbols": ["H", "He"], "geom": ["0", "0", "0", "0", "0", "1.0"], "frags": [[0], [0]], "fkind": "duplicate"},
    {"sname": "qcschema_input", "sver": 1, "symbols": ["H", "He"], "geom": ["0", "0", "0", "0", "0", "1.0"], "frags": None, "fkind": "absent"},
    {"sname": "qcschema", "sver": 2, "symbols": ["H", "He"], "geom": ["0", "0", "0", "0", "0", "1.0"], "frags": None, "fkind": "absent"},
    {"sname": "qcschema_molecule", "sver": 2, "symbols": ["H", "He"], "geom": ["0", "0", "0", "0", "0", "1.0"], "frags": [[0], [1]], "fkind": "valid",
     "mass": ["1.0"]},
    {"sname": "qcschema_molecule", "sver": 2, "symbols": ["H", "He"], "geom": ["0", "0", "0", "0", "0", "1.0", "2.0"], "frags": [[0], [1]], "fkind": "valid"},
    {"sname": "qcschema_molecule", "sver": 2, "symbols": ["H", "He", "Li"], "geom": ["0", "0", "0", "0", "0", "1.0", "0", "0", "2.5"],
     "frags": [[0], [1, 2]], "fkind": "valid", "fchg": [0, 1], "fmult": [2, 1], "molecular_charge": 1, "real": [True, False, True],
     "elbl": ["_A", "", "x1"], "fix_symmetry": "C2V", "conn": [(2, 1, "1.0")]},
]


def schema_stream(ctx, T, corr):
    n_s = 12000 if ctx.thorough else 1200
    sterms, smeta, mterms, mmeta = [], [], [], []
    k = 0
    tries = 0
    while k < len(SCHEMA_CORPUS) + n_s and tries < 20 * (len(SCHEMA_CORPUS) + n_s):
        tries += 1
        sc = dict(SCHEMA_CORPUS[k]) if k < len(SCHEMA_CORPUS) else gen_schema_case(ctx, T)
        try:
            if not safe_for_exact(T, schema_as_arrays(sc)):
                continue
        except Exception:
            pass
        k += 1
        hpos = hlog({"schema": public(sc)})
        out, mol = schema_impl(sc)
        corr.count("schema")
        corr.hit("schema_%s_%s" % (sc["fkind"], out[0] if out[0] == "Ok" else "Err_" + out[1]))
        if out[0] == "Ok":
            corr.nontriv(public(sc))
        bad = schema_oracle(T, sc, out, mol)
        if bad:
            corr.failures.append({"stream": "schema", "case": {"schema": public(sc)}, "what": bad[1], "observed": [out, mol], "entry": bad[0],
                                  "fkind": sc["fkind"], "_hpos": hpos})
        sterms.append(f"(({schema_term(sc)}, {cbool(sc.get('nonphysical', False))}), {out_term(out)})")
        smeta.append((sc, out))
        if mol is not None and (mol[0] == "Ok" or mol[1] in REFUSAL):
            corr.count("schema_molecule")
            obs = "None" if mol[0] != "Ok" else "(Some " + clist(mol[1], lambda f: clist(f, cz)) + ")"
            msc = dict(sc, sname="qcschema_molecule", sver=2)     # Molecule.__init__ fills these in before calling from_schema
            mterms.append(f"(({schema_term(msc)}, {cbool(sc.get('nonphysical', False))}), {obs})")
            mmeta.append((msc, mol))
    bad, errors = coqrun.eval_bad_indices("C04S", SREQ, "", "check_schema", sterms, shard=300, ty="(schema * bool) * outcome molrec")
    corr.errors.extend(f"schema shard {k}: {e}" for k, e in errors)
    for b in bad[:8]:
        sc, out = smeta[b]
        got, _ = coqrun.eval_terms("C04S", SREQ, "", [f"from_schema {schema_term(sc)} {cbool(sc.get('nonphysical', False))}"])
        corr.disagreements.append({"stream": "schema", "case": {"schema": public(sc)}, "impl": out, "model": got})
    bad, errors = coqrun.eval_bad_indices("C04M", SREQ, "", "check_molfrags", mterms, shard=300, ty="(schema * bool) * option (list (list Z))")
    corr.errors.extend(f"schema/Molecule shard {k}: {e}" for k, e in errors)
    for b in bad[:8]:
        sc, mol = mmeta[b]
        got, _ = coqrun.eval_terms("C04M", SREQ, "", [f"match from_schema {schema_term(sc)} {cbool(sc.get('nonphysical', False))} with Ok m => Some (molecule_fragments {schema_term(sc)} m) | Err _ => None end"])
        corr.disagreements.append({"stream": "schema_molecule", "case": {"schema": public(sc)}, "impl": mol, "model": got})


def roundtrip_terms(c, out):
    """(dtype, record) -> from_schema(to_schema(record, dtype)) on the implementation, for Bohr records under default settings"""
    if out[0] != "Ok" or not defaults_case(c) or c.get("nonphysical", False):
        return []
    rec = out[1]
    if rec["units"] != "Bohr" or rec["iutau"] is not None or len(rec["elez"]) == 0:
        return []
    from qcelemental.molparse import from_arrays, from_schema, to_schema
    res = []
    try:
        with contextlib.redirect_stdout(io.StringIO()):
            full = from_arrays(verbose=0, **arrays_kwargs(record_kwargs(c, rec)))
            for dtype in (1, 2):
                back = ("Ok", canon_record(from_schema(to_schema(full, dtype=dtype), verbose=0)))
                res.append(f"(({cz(dtype)}, {rec_term(rec)}), {out_term(back)})")
    except Exception:
        return []      # reported by schema_checks
    return res


# ------------------------------------------------------------------------------------------------
# stream "massedge": user masses at a nuclide mass +- (mtol + d), d from -1e-5 to +2e-5 — where offering a mass number
# from a mass (offer_mass_value) and checking a mass against a mass number (offer_mass_number) must use the same window,
# or an accepted record is refused when it is fed back

EDGE_D = ["-0.00001", "-0.000001", "-0.000000001", "0", "0.000000001", "0.000001", "0.000005", "0.00001", "0.00002"]
EDGE_NUCLIDES = [("H", 1), ("H", 2), ("C", 12), ("C", 13), ("O", 16), ("Cl", 37), ("Co", 59), ("Hg", 202), ("U", 238), ("He", 4), ("Li", 7), ("Br", 81)]


def gen_massedge(ctx, T):
    rng = ctx.rng
    nat = rng.choice([1, 2, 2, 3])
    schema_like = rng.random() < 0.5
    mtol = "0.001" if schema_like or rng.random() < 0.6 else rng.choice(["0.0001", "0.01", "0.002"])
    sites = rng.sample([(x, y, z) for x in range(-1, 2) for y in range(-1, 2) for z in range(-1, 2)], nat)
    c = {"geom": [coord(rng, v) for st in sites for v in st], "speclabel": False if schema_like else rng.random() < 0.5,
         "units": "Bohr" if schema_like else rng.choice(["Angstrom", "Bohr"]), "mtol": mtol, "tooclose": "0.1"}
    els, masses, As, safe = [], [], [], True
    for _ in range(nat):
        if rng.random() < 0.8:
            el, a = rng.choice(EDGE_NUCLIDES)
        else:
            el = rng.choice(T["E"][1:])
            a = rng.choice(sorted(T["iso"][el]))
        t = Decimal(T["iso"][el][a])
        if rng.random() < 0.85:
            d = Decimal(rng.choice(EDGE_D))
            m = t + rng.choice([1, -1]) * (Decimal(mtol) + d)
            if abs(d) < Decimal("0.000001"):
                safe = False          # within 1e-9 of the window edge: exact and binary64 arithmetic may differ
        else:
            m = t
        if m <= 0:
            m = t
        els.append(el)
        masses.append(c06.fmt_mass(m))
        As.append(a)
    if schema_like or rng.random() < 0.6:
        c["elem"] = [c06.rand_case_sym(rng, e) for e in els]
    else:
        c["elez"] = [T["e2z"][e] for e in els]
    c["mass"] = masses
    if rng.random() < 0.35:
        c["elea"] = list(As)
    if nat >= 2 and rng.random() < 0.3:
        c["seps"] = [1]
    return c, safe, schema_like


CORPUS = [
    {"geom": ["0", "0", "0", "0", "0", "1.0"], "elez": [1, 8], "molecular_charge": 1},
    {"geom": ["0", "0", "0", "0", "0", "1.0"], "elez": [1, 1], "elem": ["H", "He"]},
    {"geom": ["0", "0", "0", "0", "0", "0.05"], "elez": [1, 1]},
    {"geom": ["0", "0", "0", "1.0"], "elez": [1]},
    # fixed findings C04-geom-not-3n-valueerror (7b49268, from_arrays) and C04-schema-geom-not-3n-valueerror (c3134b8,
    # from_schema / Molecule): all three entry points must refuse with a validation error
    {"geom": ["0", "0", "0", "1.0"], "elem": ["H"], "units": "Bohr", "speclabel": False, "schema_like": True},
    {"geom": ["0", "0", "0", "0", "0", "1.0", "2.0"], "elem": ["H", "H"], "units": "Bohr", "speclabel": False, "schema_like": True},
    # seeded-change regressions: off-axis overlap (distance 0.0866 < 0.1) anywhere in the list
    {"geom": ["0", "0", "0", "0.05", "0.05", "0.05"], "elez": [1, 1]},
    {"geom": ["0", "0", "0", "0.05", "0.05", "0.05"], "elem": ["H", "He"], "units": "Bohr", "speclabel": False, "schema_like": True},
    {"geom": ["1.5", "0", "0", "0", "3.0", "0", "1.56", "0.06", "0.02"], "elez": [1, 8, 1]},
    # far from the origin (exact binary64 coordinates): a pair 0.0625 apart, a coincident pair, and a pair 0.125 apart (accepted)
    {"geom": ["33554432", "-16777216", "0", "33554432.0625", "-16777216", "0"], "elem": ["H", "He"], "units": "Bohr", "speclabel": False,
     "schema_like": True},
    {"geom": ["-3145728.5", "1048576.25", "5242880", "0", "0", "0", "-3145728.5", "1048576.25", "5242880"], "elez": [8, 1, 1]},
    {"geom": ["33554432", "-16777216", "0", "33554432.125", "-16777216", "0"], "elem": ["H", "He"], "units": "Bohr", "speclabel": False,
     "schema_like": True},
    {"geom": [], "elez": []},
    {"geom": [], "elez": [], "minimal": True},
    {"geom": ["0", "0", "0", "0", "0", "1.0", "0", "0", "2.0", "0", "0", "3.0"], "elez": [1, 1, 1, 1], "seps": [-2]},
    {"geom": ["0", "0", "0", "0", "0", "1.0", "0", "0", "2.0", "0", "0", "3.0"], "elez": [1, 1, 1, 1], "seps": [2, -1]},
    {"geom": ["0", "0", "0", "0", "0", "1.0", "0", "0", "2.0", "0", "0", "3.0"], "elez": [1, 1, 1, 1], "seps": [3, 1]},
    {"geom": ["0", "0", "0", "0", "0", "1.0", "0", "0", "2.0", "0", "0", "3.0"], "elez": [1, 1, 1, 1], "seps": [7]},
    {"geom": ["0", "0", "0", "0", "0", "1.0"], "elez": [1, 1], "units": "nm"},
    {"geom": ["0", "0", "0", "0", "0", "1.0"], "elez": [1, 1], "units": "Angstrom", "iutau": "1.8"},
    {"geom": ["0", "0", "0", "0", "0", "1.0"], "elez": [1, 1], "fchg": [0]},
    {"geom": ["0", "0", "0", "0", "0", "1.0"], "elez": [1, 1], "conn": [(1, 0, "1.0"), (0, 5, "2.5"), (1, 0, "0.5")], "fix_symmetry": "C2V"},
    {"geom": ["0", "0", "0", "0", "0", "1.0", "0", "0", "2.0"], "elem": ["He", "ne", "AR"], "real": [True, False, True], "seps": [1, 2],
     "zgf": True, "molecular_charge": 0, "speclabel": False, "elbl": ["_a", "B", ""]},
    {"geom": ["0", "0", "0", "0", "0", "1.0"], "elbl": ["@13C_tag@13.003", "Gh(he4)"], "speclabel": True,
     "parts": [{"ghost": "@", "A": 13, "E": "C", "user": "_tag", "mass": "13.003"}, {"ghost": "Gh(", "E": "he", "user": "4"}]},
]


FRAG_CORPUS = [
    {"frag_pattern": [[1], [0]], "kind": "permuted", "elem": ["He", "Li"], "geom": ["0", "0", "0", "0", "0", "3.0"], "fchg": [1, 0], "fmult": [1, 1],
     "molecular_charge": 1},
    {"frag_pattern": [[2, 3], [0, 1]], "kind": "permuted", "elem": ["H", "F", "Li", "Cl"],
     "geom": ["0", "0", "0", "0", "0", "1.7", "4.0", "0", "0", "4.0", "0", "2.0"], "fchg": [0, 0], "fmult": [1, 1]},
    {"frag_pattern": [[2, 0], [1]], "kind": "interleaved", "elem": ["He", "Li", "H"],
     "geom": ["0", "0", "0", "0", "0", "3.0", "0", "0", "6.0"], "fchg": [0, 1], "fmult": [2, 1]},
    {"frag_pattern": [[0], [1]], "kind": "identity", "elem": ["He", "Li"], "geom": ["0", "0", "0", "0", "0", "3.0"], "fchg": [0, 1], "fmult": [1, 1]},
]


def public(c):
    return {k: v for k, v in c.items()}


# ------------------------------------------------------------------------------------------------
# failures that depend on earlier calls of the same process (a memo keyed too coarsely, a mutated module-level table):
# every case that goes through the implementation is logged in order; a failure whose case alone does NOT fail in a fresh
# interpreter is recorded as the shortest suffix of the log that does (harness/histseq.py), so that the replay is self-contained.

HLOG = []


def hlog(step):
    HLOG.append(step)
    return len(HLOG)


def run_step(T, step):
    """one logged step through the implementation and the oracle; the complaint or None"""
    if "schema" in step:
        return judge_schema(T, dict(step["schema"]))[1]
    c = dict(step["input"])
    if c.get("conn") is not None:
        c["conn"] = [tuple(t) for t in c["conn"]]
    if c.get("frag_pattern") is None and c.get("parts") is not None:
        c["parts"] = list(c["parts"])
    if "spelling" in step:
        return spelling_judge(c, step["spelling"])
    return judge(T, c)[1]


def run_history(steps):
    """histseq interface: the steps one after the other in this interpreter; complaints about the LAST one"""
    T = c06.table(None)
    bad = None
    for k, st in enumerate(steps):
        try:
            bad = run_step(T, st)
        except Exception as e:        # an earlier step may crash on a changed tree; only the last one is judged
            bad = f"crashed: {type(e).__name__}: {e}"[:300] if k == len(steps) - 1 else None
    return [str(bad)] if bad else []


def localise_histories(ctx, corr):
    from .. import histshrink
    import json
    done, tries = set(), {}
    for f in list(corr.failures):
        st = f.get("stream")
        if st in done or "_hpos" not in f or tries.get(st, 0) >= 3:
            continue
        try:
            if any(m(f) for m in KNOWN.values()):
                continue
        except Exception:
            pass
        tries[st] = tries.get(st, 0) + 1
        steps = json.loads(json.dumps(HLOG[:f["_hpos"]]))
        hist, complaints, ok = histshrink.shrink("c04", steps, budget=16)     # shortest failing suffix, then chunks of it removed
        if ok and len(hist) == 1:
            done.add(st)                 # the case alone fails in a fresh interpreter: an ordinary failing input
            continue
        corr.failures.remove(f)
        if ok:
            ctx.log(f"failure in stream {st} depends on earlier calls: shortest failing history has {len(hist)} steps")
            f["case"] = {"history": hist}
            f["what"] = "the last call of this history is judged wrongly only after the earlier ones (state kept between calls): " + complaints[0]
            corr.failures.insert(0, f)
            done.add(st)
        else:
            f["not_reproduced_in_fresh_interpreter"] = True
            corr.failures.append(f)      # not reproducible from the log: let another failure of the stream speak first


GEOM_SPELLING_CORPUS = [
    # (symbols, flat coordinates); Molecule(symbols=['He','He'], geometry=((0,0,0),(0,0,1.5))) raised a bare AttributeError
    # before /repo c48482c (finding C04-tuple-geometry-attributeerror): a regression is reported by this stream
    (["He", "He"], [0.0, 0.0, 0.0, 0.0, 0.0, 1.5]),
    (["O", "H", "H"], [0.0, 0.0, -0.125, 0.0, -1.5, 1.0, 0.0, 1.5, 1.0]),
    (["Ne"], [0.25, -0.5, 4.0]),
]


def geometry_spellings(flat):
    import numpy as np
    nat = len(flat) // 3
    rows = [flat[3 * i:3 * i + 3] for i in range(nat)]
    a = np.array(flat, dtype=float)
    return [("flat list", list(flat)), ("nested lists", [list(r) for r in rows]), ("flat tuple", tuple(flat)),
            ("nested tuples", tuple(tuple(r) for r in rows)), ("list of tuples", [tuple(r) for r in rows]),
            ("ndarray flat", a.copy()), ("ndarray (nat,3)", a.reshape(nat, 3).copy()), ("ndarray Fortran", np.asfortranarray(a.reshape(nat, 3))),
            ("ndarray strided", np.repeat(a, 2)[::2]), ("ndarray >f8", a.astype(">f8"))]


def molecule_geometry_spellings(ctx, corr):
    """Every legal spelling of the coordinates (lists, tuples, nested, arrays of any layout) must build the same validated
    molecule through Molecule(...) and through from_schema (implementation only; judged against the flat-list spelling)."""
    import numpy as np
    from qcelemental.models import Molecule
    from qcelemental.molparse import from_schema
    for syms, flat in GEOM_SPELLING_CORPUS:
        ref = None
        for name, g in geometry_spellings(flat):
            corr.count("geometry_spelling")
            corr.hit("geometry_spelling: " + name)
            case = {"input": {"symbols": syms, "geometry": flat, "spelling": name}}
            for route in ("Molecule", "from_schema"):
                try:
                    with contextlib.redirect_stdout(io.StringIO()):
                        if route == "Molecule":
                            m = Molecule(symbols=syms, geometry=g)
                            got = (m.get_hash(), np.asarray(m.geometry, dtype=float).reshape(-1).tolist(), [np.asarray(f).tolist() for f in m.fragments])
                        else:
                            r = from_schema({"schema_name": "qcschema_molecule", "schema_version": 2, "symbols": syms, "geometry": g}, verbose=0)
                            got = (None, np.asarray(r["geom"], dtype=float).reshape(-1).tolist(), [int(x) for x in r["fragment_separators"]])
                except Exception as e:
                    corr.failures.append({"stream": "geometry_spelling", "case": dict(case, route=route),
                                          "what": f"{route} raised {type(e).__name__} for a legal spelling of the coordinates ({name}): {e}"[:300],
                                          "observed": repr(e)[:200]})
                    continue
                key = (route,)
                if ref is None:
                    ref = {}
                if key not in ref:
                    ref[key] = got
                elif got != ref[key]:
                    corr.failures.append({"stream": "geometry_spelling", "case": dict(case, route=route),
                                          "what": f"{route} builds a different molecule from the {name} spelling than from the flat list",
                                          "observed": str(got)[:300]})


def correspond(ctx):
    T = c06.table(ctx)
    corr = Corr()
    del HLOG[:]
    corr.rule = ("molecules of 0-12 atoms on a jittered lattice (3-decimal coordinates) x random subsets of per-atom descriptors (full, "
                 "partially None, consistent or with one conflicting clue) x fragment separators (valid, negative-equivalent, random, "
                 "empty/duplicate/out-of-range) x partial charges/multiplicities x units/input_units_to_au/frame/connectivity x "
                 "speclabel/tooclose/mtol/zero_ghost_fragments/nonphysical, plus structural malformations; schema-like inputs also "
                 "through from_schema and Molecule(**kwargs); every accepted record fed back through from_arrays, to_schema->from_schema "
                 "(dtype 1 and 2) and Molecule; near-overlap pairs in general directions at 0.3..1.6 x tooclose at any list position; "
                 "the same far from the origin (translations (odd) x 2^p, p = 12..34, exact binary64 coordinates; sweep 2^10..2^36); "
                 "numpy spellings of the columns (implementation only); "
                 "fragment index patterns (ordered, wholesale-permuted, interleaved; distinct elements and fragment charges) through "
                 "from_schema / Molecule with an atom -> (symbol, coordinates, fragment charge, multiplicity) association check; "
                 "non-trivial = accepted by the implementation; distinct = distinct inputs")
    n_main = 36000 if ctx.thorough else 3600
    n_sch = 10000 if ctx.thorough else 1200
    cases = [("corpus", dict(c)) for c in CORPUS]
    while len(cases) < len(CORPUS) + n_main:
        c = gen_case(ctx, T)
        if safe_for_exact(T, c):
            cases.append(("main", c))
    n_near = 12000 if ctx.thorough else 700
    k = 0
    while k < n_near:
        c = gen_case(ctx, T, schema_like=(k % 4 == 0), near=True)
        if safe_for_exact(T, c):
            cases.append(("schema_like" if k % 4 == 0 else "overlap", c))
            k += 1
    k = 0
    while k < n_sch:
        c = gen_case(ctx, T, schema_like=True)
        if safe_for_exact(T, c):
            cases.append(("schema_like", c))
            k += 1
    n_far = 5000 if ctx.thorough else 450
    k = 0
    while k < n_far:
        c = gen_far_case(ctx, T, schema_like=(k % 2 == 0))
        if safe_for_exact(T, c):
            cases.append(("far", c))
            k += 1
    n_edge = 6000 if ctx.thorough else 600
    unsafe = set()
    for k in range(n_edge):
        c, safe, sl = gen_massedge(ctx, T)
        if not geom_safe(c):
            continue
        cases.append(("schema_like" if sl else "massedge", c))
        if safe:
            safe = all(c06.min_edge_distance(T, atom_case(c, k)) >= SLACK for k in range(len(c["geom"]) // 3))
        if not safe:
            unsafe.add(id(c))
    terms, meta, rterms, rmeta = [], [], [], []
    for stream, c in cases:
        hpos = hlog({"input": public(c)})
        out = impl_from_arrays(c)
        corr.count(stream)
        corr.hit("impl_" + (out[0] if out[0] == "Ok" else "Err_" + out[1]))
        mal = malformation(T, c)
        if mal:
            corr.hit("malformed: column/fragment length" if " has " in mal else
                     ("malformed: pair closer than tooclose" if mal.startswith("atoms ") else "malformed: " + mal[:60]))
        if out[0] == "Ok":
            corr.nontriv(public(c))
            if stream != "corpus" and ctx.rng.random() < 0.001:
                corr.sample({"input": public(c), "output": out})
        bad = oracle(T, c, out)
        where = "from_arrays"
        if not bad:
            fp = oracle_fixed_point(T, c, out) or schema_checks(T, c, out)
            if not fp and (stream == "schema_like" or (stream in ("corpus", "far") and c.get("schema_like"))):
                fp = entry_point_agreement(T, c, out)
            if fp:
                where, bad = fp
        if out[0] == "Ok":
            corr.count("fed_back")
        if bad:
            corr.failures.append({"stream": "oracle", "case": {"input": public(c)}, "what": bad, "observed": out, "entry": where, "_hpos": hpos})
        if id(c) not in unsafe:
            terms.append(f"({raw_term(c)}, {out_term(out)})")
            meta.append((stream, c, out))
        else:
            corr.count("massedge_exact_edge_oracle_only")
        if not bad and id(c) not in unsafe and len(rterms) < (6000 if ctx.thorough else 700):
            rt = roundtrip_terms(c, out)
            if rt:
                corr.count("schema_roundtrip", len(rt))
                rterms.extend(rt)
                rmeta.extend([(c, out)] * len(rt))
    # far-from-origin sweep (implementation only; the exact oracle says which inputs hold an overlapping pair)
    for c in gen_far_sweep(ctx, T, 160 if ctx.thorough else 24):
        if not geom_safe(c):
            continue
        hpos = hlog({"input": public(c)})
        out, bad, where = judge(T, c)
        corr.count("far_sweep")
        mal = malformation(T, c)
        corr.hit("far_sweep_" + ("overlap" if mal else "clear") + "_" + (out[0] if out[0] == "Ok" else "Err_" + out[1]))
        if bad and sum(1 for f in corr.failures if f["stream"] == "far_sweep") < 12:
            corr.failures.append({"stream": "far_sweep", "case": {"input": public(c)}, "what": bad, "observed": out, "entry": where, "_hpos": hpos})
    spelling_stream(ctx, T, corr)
    # fragment patterns through from_schema / Molecule (implementation only)
    n_fp = 12000 if ctx.thorough else 1200
    for k in range(len(FRAG_CORPUS) + n_fp):
        c = dict(FRAG_CORPUS[k]) if k < len(FRAG_CORPUS) else gen_fragpattern(ctx, T)
        hpos = hlog({"input": public(c)})
        where, bad, obs = fragpattern_oracle(T, c)
        corr.count("fragpattern")
        corr.hit("fragpattern_%s_%s" % (c["kind"], obs.get("from_schema")))
        if obs.get("from_schema") == "Ok":
            corr.nontriv(public(c))
        if bad:
            corr.failures.append({"stream": "fragpattern", "case": {"input": public(c)}, "what": bad, "observed": obs, "entry": where, "_hpos": hpos})
    corr.sample({"input": public(cases[0][1]), "output": impl_from_arrays(cases[0][1])})
    schema_stream(ctx, T, corr)
    bad, errors = coqrun.eval_bad_indices("C04R", SREQ, "", "check_roundtrip", rterms, shard=300, ty="(Z * molrec) * outcome molrec")
    corr.errors.extend(f"roundtrip shard {k}: {e}" for k, e in errors)
    for b in bad[:8]:
        c, out = rmeta[b]
        corr.disagreements.append({"stream": "schema_roundtrip", "case": {"input": public(c)}, "impl": "from_schema(to_schema(record)) on the implementation",
                                   "model": "Model/MolSchema.v from_schema (to_schema dtype record) differs"})
    ctx.log(f"{len(terms)} cases through the implementation; evaluating the model")
    bad, errors = coqrun.eval_bad_indices("C04", REQ, "", "check_case", terms, shard=350, ty="raw * outcome molrec")
    corr.errors.extend(f"shard {k}: {e}" for k, e in errors)
    for b in bad[:8]:
        stream, c, out = meta[b]
        got, _ = coqrun.eval_terms("C04", REQ, "", [f"from_arrays {raw_term(c)}"])
        corr.disagreements.append({"stream": stream, "case": {"input": public(c)}, "impl": out, "model": got})
    molecule_geometry_spellings(ctx, corr)
    if corr.failures:
        localise_histories(ctx, corr)
    corr.exhaustive = False
    return corr


def judge_schema(T, sc):
    if sc.get("conn") is not None:
        sc["conn"] = [tuple(t) for t in sc["conn"]]
    out, mol = schema_impl(sc)
    bad = schema_oracle(T, sc, out, mol)
    return [out, mol], (bad[1] if bad else None), (bad[0] if bad else "from_schema")


def judge(T, c):
    if "frag_pattern" in c:
        where, bad, obs = fragpattern_oracle(T, c)
        return obs, bad, where
    out = impl_from_arrays(c)
    bad = oracle(T, c, out)
    where = "from_arrays"
    if not bad:
        fp = oracle_fixed_point(T, c, out) or schema_checks(T, c, out) or entry_point_agreement(T, c, out) if c.get("units") == "Bohr" and not c.get("speclabel", True) and defaults_case(c) and not c.get("minimal") and c.get("iutau") is None else (oracle_fixed_point(T, c, out) or schema_checks(T, c, out))
        if fp:
            where, bad = fp
    return out, bad, where


def search(ctx, corr, reasons):
    T = c06.table(ctx)
    found = []
    seen = {repr(f.get("case")) for f in corr.failures}
    for d in corr.disagreements:
        if repr(d["case"]) in seen:
            continue
        if "schema" in d["case"]:
            out, bad, where = judge_schema(T, dict(d["case"]["schema"]))
            if bad:
                found.append({"stream": "search", "case": d["case"], "what": bad, "observed": out, "entry": where,
                              "fkind": d["case"]["schema"].get("fkind")})
            continue
        out, bad, where = judge(T, d["case"]["input"])
        if bad:
            found.append({"stream": "search", "case": d["case"], "what": bad, "observed": out, "entry": where})
    return found


def replay(ctx, rp):
    T = c06.table(ctx)
    if "history" in rp["case"]:
        from .. import histseq
        got = histseq.fresh_run("c04", list(rp["case"]["history"]))      # a fresh interpreter on the same implementation tree
        return {"history_steps": len(rp["case"]["history"]), "last_step": rp["case"]["history"][-1], "oracle": got,
                "fails": bool(got), "note": None if got is not None else "the history could not be run"}
    if "schema" in rp["case"]:
        sc = dict(rp["case"]["schema"])
        out, bad, where = judge_schema(T, sc)
        return {"schema": sc, "implementation": out, "oracle": bad, "entry_point": where, "fails": bool(bad)}
    c = rp["case"]["input"]
    if rp.get("stream") == "geometry_spelling" or (isinstance(c, dict) and "spelling" in c and "symbols" in c):
        sub = Corr()
        saved = list(GEOM_SPELLING_CORPUS)
        try:
            GEOM_SPELLING_CORPUS[:] = [(list(c["symbols"]), [float(x) for x in c["geometry"]])]
            molecule_geometry_spellings(ctx, sub)
        finally:
            GEOM_SPELLING_CORPUS[:] = saved
        mine = [f for f in sub.failures if f["case"]["input"].get("spelling") == c["spelling"]] or sub.failures
        return {"input": c, "oracle": mine[0]["what"] if mine else None, "fails": bool(mine)}
    if c.get("conn") is not None:
        c["conn"] = [tuple(t) for t in c["conn"]]
    if "spelling" in rp["case"]:
        bad = spelling_judge(c, rp["case"]["spelling"])
        return {"input": c, "spelling": rp["case"]["spelling"], "oracle": bad, "entry_point": "from_arrays", "fails": bool(bad)}
    out, bad, where = judge(T, c)
    return {"input": c, "implementation": out, "oracle": bad, "entry_point": where, "fails": bool(bad)}


KNOWN = {
    # narrow: only the mass_numbers default leak through _filter_defaults (np.allclose) of the Molecule entry point
    "C04-molecule-allclose-mass-number": lambda f: f.get("entry") == "Molecule" and str(f.get("what", "")).startswith(
        "Molecule(**kwargs).mass_numbers names the default isotope for a mass that validation does not assign to it"),
}

TRUSTED = [
    "hand-written model coq/Model/MolRec.v of molparse.from_arrays (domain 'qm'), built on Model/Nucleus.v (C06) and Model/ChgMult.v (C05), tied by differential execution (this file)",
    "coq/Gen/PTable.v (periodic table) and coq/Gen/MolConsts.v (bohr2angstroms, the 0.05 units window, bond-order bound) regenerated from /repo on every run; from_arrays keyword defaults pinned by the translator",
    "hand-written model coq/Model/MolSchema.v of from_schema (sniffing, contiguize_from_fragment_pattern incl. fast path and reorder, hand-over to from_arrays), to_schema (Bohr records) and the fragment bookkeeping of Molecule.__init__, tied by differential execution (streams schema, schema_molecule, schema_roundtrip); the other Molecule attributes (masses / mass_numbers / real / labels after _filter_defaults, title-casing, rounding) are exercised on the implementation only",
    "harness/props/c04.py translators: from_schema.py's sniffed prefixes/versions and the fixed keywords it passes on are read from the AST (fail-closed) into coq/Gen/MolConsts.v",
    "numpy (asarray/reshape/split/einsum), pydantic.v1 coercion, CPython float arithmetic: modelled or exercised, not verified; coordinates are 3-decimal values (far streams: exact binary64 values with a short repr) so exact and binary64 screens agree",
]
ASSUMPTIONS = [
    "typed inputs: per-atom columns are flat lists (entries possibly None), separators a list of ints, integer charges/multiplicities, boolean flags; domain 'qm' only (EFP and qmvz are outside the model)",
    "name/comment/provenance are carried through unexamined and are not part of the modelled record",
]
TECHNIQUE = "Coq proof over hand-written Gallina models of from_arrays and from_schema (composition of the C05/C06 theorems; induction over atom, separator and fragment-pattern lists; constants generated from the source) + differential correspondence + Python mirror of the invariants on all three entry points"
DESIGN_REF = "DESIGN.md §6 C04"
LEVEL_TEXT = (
    "Machine-checked (Coq 8.16.1) theorems about Model/MolRec.v (from_arrays, domain 'qm', composed from the C05 and C06 models), "
    "for any number of atoms/fragments and any mix of supplied/omitted descriptors: C04_accepted_invariants (every accepted record: "
    "3 coordinates per atom, every per-atom column one entry per atom, each atom the sound reconciliation of its clues hence "
    "table-consistent with A = -1 or a nuclide within mtol and mass in the physical window, no pair closer than tooclose, separators "
    "cut the atoms into non-empty consecutive pieces that concatenate to 0..nat-1, one charge/multiplicity per fragment with "
    "c = sum fc and every (z,c,m) feasible), C04_split_partition (np.split with Python slice semantics incl. negative / unsorted / "
    "out-of-range indices), C04_idempotent (an accepted record fed back is reproduced, 0 <= mtol <= 1/4; by composition of the C05 and "
    "C06 fixed-point theorems with unit / frame / connectivity-sort idempotence), ten C04_rejects_* lemmas (no geometry, length not "
    "3n, pair too close, column length, unknown units, units factor, bad split, fragment list lengths, fragment data without "
    "separators, conflicting nuclear data), C04_refusal_classes (from_arrays raises only ValidationError / NotAnElementError; full "
    "since the repair 7b49268 of fixed finding C04-geom-not-3n-valueerror, whose failing input stays in the corpus and as a Coq "
    "Example); about Model/MolSchema.v (from_schema): C04_contiguize_accepts and C04_contiguize_partition (for every fragment pattern and "
    "arrays: an accepted pattern lists 0..nat-1 in order; arrays are never reordered; separators are the cumulative sizes), C04_from_schema_is_from_arrays and C04_from_schema_accepted_invariants (an accepted dictionary is from_arrays "
    "on its own arrays, so the record invariants hold), C04_from_schema_rejects_unknown_schema, C04_from_schema_refusal_classes "
    "(only ValidationError / NotAnElementError), C04_molecule_fragments_partition (Molecule.fragments after _filter_defaults and the "
    "keyword merge list the atoms in order) — the last three are the full statements since the repairs 2b49794 / 361a5b1 of the fixed "
    "findings C04-single-fragment-offset (fragments [[5,6]] on two atoms was accepted) and C04-empty-fragment-list-indexerror "
    "(fragments [] raised IndexError), whose failing inputs stay in the schema corpus and as the Coq Example "
    "C04_ex_old_failing_inputs_refused; C04_contiguize_complete (conversely contiguize accepts every in-order pattern whose arrays have "
    "the right lengths and hands everything through), C04_schema_fixed_point (a Bohr record with non-negative separators accepted under "
    "from_schema's settings is accepted and reproduced by from_schema(to_schema(.)), dtype 1 and 2) and "
    "C04_schema_fixed_point_fragments (the Molecule built from that dictionary has the record's fragments); "
    "C04_translation_invariant (decision, error class and record of the model commute with rigid translation of the geometry) and "
    "C04_too_close_refused_anywhere (a pair closer than tooclose is refused at any distance from the origin). "
    "The models are tied to from_arrays.py on every run by exact differential execution on generated "
    "molecules (incl. malformed ones); the Python mirror of the invariants, the fixed point and the refusal classes runs on the "
    "implementation through from_arrays, to_schema->from_schema (dtype 1, 2) and Molecule(**kwargs), which are also checked to agree "
    "on schema-expressible raw inputs; QCSchema dictionaries (name/version variants x 19 kinds of fragment pattern x columns) run "
    "through from_schema and Molecule against Model/MolSchema.v (exact records and Molecule.fragments), accepted Bohr records through "
    "from_schema(to_schema(.)) against the model, user masses at nuclide mass +- (mtol + d), d in -1e-5..2e-5, fed back; the same "
    "molecules (near-threshold, coincident and clear pairs) translated by (odd integer) x 2^p, p = 12..34, with coordinates that are "
    "exact binary64 numbers of at most 15 digits, through the model and all three entry points (stream far), a sweep of small "
    "molecules over every magnitude 2^10..2^36 judged by the exact oracle (far_sweep), and numpy spellings of the columns (narrow, "
    "unsigned, big-endian, Fortran-ordered, strided, float32) against the plain-list spelling incl. an aliasing check (spelling).")
LEVEL_NOTE = (
    "Clause map (full text at the top of coq/Props/C04.v): invariants of an accepted record -> C04_accepted_invariants, "
    "C04_split_partition (from_arrays), C04_from_schema_is_from_arrays + C04_from_schema_accepted_invariants + C04_contiguize_accepts "
    "(QCSchema), C04_molecule_fragments_partition (Molecule: fragments only; other attributes by oracle on the implementation); "
    "no pair closer than the threshold anywhere in space -> C04_translation_invariant, C04_too_close_refused_anywhere + streams far / "
    "far_sweep; fixed point -> C04_idempotent for from_arrays, C04_schema_fixed_point (+ C04_contiguize_complete) through "
    "from_schema(to_schema), C04_schema_fixed_point_fragments for the re-built Molecule's fragments (its other attributes ONLY "
    "differential/oracle); "
    "refusals -> eleven C04_rejects_* / C04_from_schema_rejects_unknown_schema, classes -> C04_refusal_classes, "
    "C04_from_schema_refusal_classes; 'every accepted fragment pattern partitions the atoms in order' -> "
    "C04_contiguize_partition (full since 2b49794). "
    "Trusted: Coq kernel + vm_compute; the hand-written models (typed inputs; domain 'qm' only: EFP and qmvz dispatch, name/comment/"
    "provenance, update_with_error's conflict detection are not modelled; integer charges/multiplicities; exact rationals instead of "
    "binary64 — generators keep coordinates at 3 decimals (far streams: exact binary64 values of at most 15 digits, pair distances "
    ">= 0.2% from the threshold) and masses >= 1e-9 from every decision edge); the translators (PTable, "
    "MolConsts: bohr2angstroms read from qcelemental.constants at run time, 0.05 window / bond-order bound / keyword defaults parsed "
    "from from_arrays.py, schema prefixes/versions and pass-through keywords parsed from from_schema.py, fail-closed); of "
    "Molecule.__init__ only the fragment bookkeeping is modelled, to_schema only for Bohr records; the remaining Molecule glue is "
    "covered by the oracle on the implementation only (agreement with from_arrays, fixed point); numpy/pydantic/CPython behaviour is modelled or exercised, not verified. The idempotence theorem excludes "
    "mtol > 1/4 (see C06-wide-mtol-feedback). No axioms (all theorems closed under the global context).")
