"""Self-contained replays for C16 / C18 failures (shared by harness/props/c16.py and c18.py; uses harness/histseq.py, histshrink.py).

Both modules record every case their `judge` runs in this interpreter (`_EXECUTED`).  A failure is kept as the FIRST one of its stream
only after it has been reproduced in a fresh interpreter from recorded inputs alone: by the failing case on its own, or - when it
depends on state left behind by earlier calls (a memo keyed too coarsely, a mutated module-level table) - by the shortest history
found (suffix of the executed cases, then greedy removal) that still makes it fail; the earlier calls are stored in case["history"].
A replay re-runs history + case in a fresh interpreter and judges the outcome with the oracle alone (nothing recorded from the
implementation is used as an expected value)."""
from .. import histseq, histshrink


def attach(module, failures, executed, is_known, log=None, per_stream=3, budget=8):
    """reorder `failures` so that every stream starts with a failure that reproduces from its recorded input (plus history)"""
    order, by_stream = [], {}
    for f in failures:
        s = f.get("stream", "")
        if s not in by_stream:
            by_stream[s] = []
            order.append(s)
        by_stream[s].append(f)
    out = []
    for s in order:
        fs, good, tried = by_stream[s], None, 0
        for f in fs:
            pos = f.get("_pos")
            if pos is None or tried >= per_stream:
                continue
            try:
                if is_known(f):
                    continue
            except Exception:
                pass
            tried += 1
            hist, got, ok = histshrink.shrink(module, list(executed[:pos + 1]), budget=budget)
            if log:
                log(f"replay fidelity ({s}): {pos + 1} executed case(s) -> " + (f"history of {len(hist)}" if ok else "not reproduced in a fresh interpreter"))
            if ok:
                if len(hist) > 1:
                    f["case"] = dict(f["case"], history=hist[:-1])
                    f["what"] = str(f.get("what")) + f"  [after {len(hist) - 1} earlier call(s) in the same interpreter, recorded in case.history]"
                good = f
                break
            f["what"] = str(f.get("what")) + "  [seen once in this run; not reproduced by re-running the recorded calls in a fresh interpreter]"
        out.extend(([good] if good is not None else []) + [f for f in fs if f is not good])
    for f in out:
        f.pop("_pos", None)
    return out


def replay_history(module, case):
    """case with a "history": all of it, then the case, in ONE fresh interpreter; the oracle's complaints about the case"""
    last = {k: v for k, v in case.items() if k != "history"}
    got = histseq.fresh_run(module, list(case["history"]) + [last])
    return {"case": case, "oracle": got, "fails": bool(got),
            "note": "history replay: the recorded earlier calls are re-run in a fresh interpreter before the case"}
