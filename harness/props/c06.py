"""C06 — nucleus reconciliation: correspondence of Model/Nucleus.v with qcelemental.molparse.nucleus
(reconcile_nucleus, parse_nucleus_label), the property oracle on the implementation, the window-edge
stream and the call-history (lru_cache) stream."""
import contextlib
import io
import itertools
import os
import re
import string
from decimal import Decimal
from fractions import Fraction

from .. import coqrun
from ..core import Corr, TranslateError
from ..coqrun import cz, cstr, copt, cbool, cq
from ..translate import ptable

PID = "C06"
ALLOWED_AXIOMS = set()
EXTRA_TARGETS = ["Model/Nucleus.vo"]
REQ = ["QV.Common.Outcome", "QV.Model.Nucleus"]

# the NUCLEUS pattern the recogniser in Model/Nucleus.v was written against (comments/whitespace removed as
# re.VERBOSE does).  A different text is not an error by itself (the differential label stream decides), but
# it is recorded and the label stream is enlarged.
NUCLEUS_NORMALISED = (r"(?:(?P<gh1>@)|(?P<gh2>Gh\())?((?P<label1>(?P<A>\d+)?(?P<E>[A-Z]{1,3})(?P<user1>(_\w+)|(\d+))?)|"
                      r"(?P<label2>(?P<Z>\d{1,3})(?P<user2>(_\w+))?))(?:@(?P<mass>\d+\.\d+))?(?(gh2)\))")

_T = {}   # table cache: filled by table()


def translate(ctx):
    d = ptable.generate(ctx.repo)
    _T.clear()
    _T.update(_index(d))
    return None


def _index(d):
    t = {"E": list(d["E"]), "Z": list(d["Z"]), "name": list(d["name"])}
    t["z2e"] = dict(zip(d["Z"], d["E"]))
    t["e2z"] = dict(zip(d["E"], d["Z"]))
    t["name2e"] = dict(zip(d["name"], d["E"]))
    t["ea2mass"] = {ea: Decimal(m) for ea, m in zip(d["EA"], d["mass"])}
    t["ea2massstr"] = dict(zip(d["EA"], d["mass"]))
    t["ea2a"] = dict(zip(d["EA"], d["A"]))
    iso = {}
    for ee, a, m in zip(d["_EE"], d["A"], d["mass"]):
        iso.setdefault(ee, {})[a] = m
    t["iso"] = iso          # element -> {A: mass string}
    # table sanity the oracle relies on (otherwise the oracle itself would be wrong, not the code)
    for ee, ea, a in zip(d["_EE"], d["EA"], d["A"]):
        if not (ea == ee + str(a) or ea == ee or ea in ("D", "T")):
            raise TranslateError(f"nuclide key {ea!r} is not element+mass number ({ee}, {a})")
    for m in d["mass"]:
        if Decimal(repr(float(m))) != Decimal(m):
            raise TranslateError(f"table mass {m} does not survive float round trip; decimal comparison unsound")
    return t


def table(ctx=None):
    if not _T:
        _T.update(_index(ptable.load_table(ctx.repo if ctx else os.environ.get("VERIF_REPO", "/repo"))))
    return _T


def normalised_pattern(repo):
    import importlib.util
    spec = importlib.util.spec_from_file_location("_c06_regex", os.path.join(repo, "qcelemental", "molparse", "regex.py"))
    mod = importlib.util.module_from_spec(spec)
    spec.loader.exec_module(mod)
    out = []
    for ln in mod.NUCLEUS.splitlines():
        # VERBOSE: '#' starts a comment unless escaped or in a class (the pattern has neither case)
        ln = ln.split("#", 1)[0]
        out.append(re.sub(r"\s+", "", ln))
    return "".join(out)


# ------------------------------------------------------------------------------------------------
# implementation side

KW = ("A", "Z", "E", "mass", "real", "label", "speclabel", "nonphysical", "mtol")


def ekind_of(e):
    n = type(e).__name__
    return {"ValidationError": "Validation", "NotAnElementError": "NotAnElement"}.get(n, n)


def impl_call(case, verbose=-1, raw=False):
    """case: dict over KW; mass/mtol are decimal strings (or None)."""
    from qcelemental.molparse import reconcile_nucleus
    kw = {k: case.get(k) for k in ("A", "Z", "E", "real", "label")}
    kw["mass"] = None if case.get("mass") is None else float(case["mass"])
    kw["speclabel"] = case.get("speclabel", True)
    kw["nonphysical"] = case.get("nonphysical", False)
    kw["mtol"] = float(case.get("mtol", "0.001"))
    try:
        with contextlib.redirect_stdout(io.StringIO()):
            r = reconcile_nucleus(verbose=verbose, **kw)
    except Exception as e:
        return ("Err", ekind_of(e))
    if raw:
        return ("Ok", r)
    A, Z, E, m, real, user = r
    return ("Ok", (int(A), int(Z), str(E), repr(float(m)), bool(real), str(user)))


def label_spec(s):
    """Independent statement of the label grammar (mirror of the inductive relation Label in
    coq/Proofs/NucleusLabel.v), without re: returns (A, Z, E, mass_text, real, user) or None."""
    def digits(t):
        return t != "" and all(c in "0123456789" for c in t)

    def word(t):
        return t != "" and all(c in "0123456789_" or c in string.ascii_letters for c in t)

    ghost, closing = False, ""
    if s.startswith("@"):
        bodies = [(s[1:], True, "")]
    elif len(s) >= 3 and s[0] in "Gg" and s[1] in "Hh" and s[2] == "(":
        bodies = [(s[3:], True, ")")]
    else:
        bodies = []
    bodies.append((s, False, ""))
    for body, gh, close in bodies:
        if close:
            if not body.endswith(close):
                continue
            body = body[:-1]
        mass = None
        core = body
        if "@" in body:
            core, _, mt = body.partition("@")
            d1, dot, d2 = mt.partition(".")
            if not (dot and digits(d1) and digits(d2)):
                continue
            mass = mt
        # core = digits? letters{1,3} (_word+ | digits)?   |   digits{1,3} (_word+)?
        i = 0
        while i < len(core) and core[i] in "0123456789":
            i += 1
        lead, rest = core[:i], core[i:]
        j = 0
        while j < len(rest) and rest[j] in string.ascii_letters:
            j += 1
        sym, user = rest[:j], rest[j:]
        if 1 <= len(sym) <= 3 and (user == "" or digits(user) or (user[0] == "_" and word(user[1:]))):
            return (int(lead) if lead else None, None, sym, mass, not gh, user or None)
        if sym == "" and 1 <= len(lead) <= 3 and (user == "" or (user[0] == "_" and word(user[1:]))):
            return (None, int(lead), None, mass, not gh, user or None)
    return None


def label_oracle(s, out):
    spec = label_spec(s)
    if out[0] == "Err":
        if out[1] != "Validation":
            return f"parse_nucleus_label raised {out[1]}"
        return "a string of the label grammar is refused" if spec is not None else None
    if spec is None:
        return "parse_nucleus_label accepts a string outside the label grammar"
    A, Z, E, m, real, user = out[1]
    sm = None if spec[3] is None else repr(float(spec[3]))
    if (A, Z, E, m, real, user) != (spec[0], spec[1], spec[2], sm, spec[4], spec[5]):
        return f"parse_nucleus_label returns fields other than the grammar's: expected {spec}"
    return None


def impl_parse(label):
    from qcelemental.molparse import parse_nucleus_label
    try:
        A, Z, E, m, real, user = parse_nucleus_label(label)
    except Exception as e:
        return ("Err", ekind_of(e))
    return ("Ok", (A, Z, E, None if m is None else repr(float(m)), bool(real), user))


# ------------------------------------------------------------------------------------------------
# Gallina rendering

def qdec(s):
    return cq(Fraction(Decimal(s)))


EK = {"Validation": "Validation", "NotAnElement": "NotAnElement", "ValueError": "PyValueError",
      "KeyError": "PyKeyError", "IndexError": "PyIndexError", "TypeError": "PyTypeError",
      "AttributeError": "PyAttributeError"}


def in_term(c):
    return "(Build_nuc_in %s %s %s %s %s %s %s %s %s)" % (
        copt(c.get("A"), cz), copt(c.get("Z"), cz), copt(c.get("E"), cstr), copt(c.get("mass"), qdec),
        copt(c.get("real"), cbool), copt(c.get("label"), cstr), cbool(c.get("speclabel", True)),
        cbool(c.get("nonphysical", False)), qdec(c.get("mtol", "0.001")))


def out_term(out):
    if out[0] == "Ok":
        A, Z, E, m, real, user = out[1]
        return "(Ok (Build_nuc_out %s %s %s %s %s %s))" % (cz(A), cz(Z), cstr(E), qdec(m), cbool(real), cstr(user))
    return f"(Err {EK.get(out[1], 'PyAssertion')})"


def label_out_term(out):
    if out[0] == "Ok":
        A, Z, E, m, real, user = out[1]
        return "(Ok {| lA := %s; lZ := %s; lE := %s; lmass := %s; lreal := %s; luser := %s |})" % (
            copt(A, cz), copt(Z, cz), copt(E, cstr), copt(m, qdec), cbool(real), copt(user, cstr))
    return f"(Err {EK.get(out[1], 'PyAssertion')})"


# ------------------------------------------------------------------------------------------------
# the property, evaluated on the implementation's answer (independent of the model: written against the
# table arrays and the statement of the property)

def el_of_clue(T, e):
    """which element a symbol clue denotes (symbol in any case, element name, or atomic-number text)"""
    s = e.capitalize()
    if s in T["e2z"]:
        return s
    if e.isascii() and e.isdigit() and int(e) in T["z2e"]:
        return T["z2e"][int(e)]
    return T["name2e"].get(s)


def clue_view(T, case):
    """All clues of a case, with label components taken from the generator's record of how the label was
    assembled (case['parts']) — never from the implementation's parser."""
    v = {"els": [], "As": [], "masses": [], "reals": [], "users": []}
    if case.get("Z") is not None:
        v["els"].append(("Z", T["z2e"].get(case["Z"])))
    if case.get("E") is not None:
        v["els"].append(("E", el_of_clue(T, case["E"])))
    if case.get("A") is not None:
        v["As"].append(("A", case["A"]))
    if case.get("mass") is not None:
        v["masses"].append(("mass", case["mass"]))
    if case.get("real") is not None:
        v["reals"].append(("real", case["real"]))
    if case.get("label") is not None:
        if case.get("speclabel", True):
            p = case.get("parts")
            if p is None:
                return None       # a label whose structure the oracle does not know: clue checks are skipped
            if p.get("Z") is not None:
                v["els"].append(("label Z", T["z2e"].get(p["Z"])))
            if p.get("E") is not None:
                v["els"].append(("label E", el_of_clue(T, p["E"])))
            if p.get("A") is not None:
                v["As"].append(("label A", p["A"]))
            if p.get("mass") is not None:
                v["masses"].append(("label mass", p["mass"]))
            v["reals"].append(("label ghost", not p.get("ghost")))
            if p.get("user") is not None:
                v["users"].append(("label user", p["user"].lower()))
        else:
            v["users"].append(("label", case["label"].lower()))
    return v


SLACK = Decimal("1e-9")


def oracle(T, case, out):
    if out[0] == "Err":
        if out[1] not in ("Validation", "NotAnElement"):
            return f"raised {out[1]} (neither ValidationError nor NotAnElementError)"
        return None
    A, Z, E, mrepr, real, user = out[1]
    m = Decimal(mrepr)
    mtol = Decimal(case.get("mtol", "0.001"))
    if T["z2e"].get(Z) != E:
        return "returned symbol and atomic number are not a row of the periodic table"
    v = clue_view(T, case)
    if v is not None:
        for what, el in v["els"]:
            if el != E:
                return f"returned element {E} contradicts the {what} clue"
        for what, a in v["As"]:
            if a != A:
                return f"returned mass number {A} contradicts the {what} clue"
        for what, ms in v["masses"]:
            if float(ms) != float(mrepr):
                return f"returned mass {mrepr} contradicts the {what} clue"
        for what, r in v["reals"]:
            if r != real:
                return f"returned real/ghost flag contradicts the {what} clue"
        for what, u in v["users"]:
            if u != user:
                return f"returned user label {user!r} contradicts the {what} clue"
        if not v["users"] and user != "":
            return "user label invented"
        if not v["reals"] and real is not True:
            return "ghost flag invented"
    if A != -1:
        key = E + str(A)
        if key not in T["ea2mass"] or T["ea2a"][key] != A:
            return f"returned mass number {A} is not a tabulated nuclide of {E}"
        if abs(T["ea2mass"][key] - m) > max(mtol, 0) + SLACK:
            return f"tabulated mass of {key} is not within mtol of the returned mass"
    if not case.get("nonphysical", False):
        ms = [Decimal(x) for x in T["iso"][E].values()]
        if not (min(ms) - Decimal("0.5") - SLACK <= m <= max(ms) + Decimal("0.5") + SLACK):
            return "returned mass outside the element's physical range although nonphysical=False"
    if v is not None and not v["As"] and not v["masses"]:
        if A != T["ea2a"][E] or m != T["ea2mass"][E]:
            return "no isotope information given but the result is not the most abundant isotope"
    return None


def feedback_case(case, out):
    A, Z, E, mrepr, real, user = out[1]
    return {"A": None if A == -1 else A, "Z": Z, "E": E, "mass": mrepr, "real": real, "label": user,
            "speclabel": False, "nonphysical": case.get("nonphysical", False), "mtol": case.get("mtol", "0.001")}


def oracle_feedback(case, out):
    if out[0] != "Ok":
        return None
    again = impl_call(feedback_case(case, out))
    if again != out:
        return f"output fed back is not reproduced: {again}"
    return None


def is_mtol_boundary(T, case, out):
    """the returned mass is exactly mtol (binary64) away from the tabulated mass of the returned nuclide"""
    try:
        A, Z, E, mrepr, real, user = out[1]
        key = E + str(A)
        return A != -1 and abs(float(T["ea2massstr"][key]) - float(mrepr)) == float(case.get("mtol", "0.001"))
    except Exception:
        return False


# ------------------------------------------------------------------------------------------------
# generators

def edges_near(T, els, ms, mtol):
    """distance from the decimal mass ms to the nearest decision edge for the given elements"""
    m = Decimal(ms)
    best = Decimal(10)
    cands = [Decimal("0.5")]
    fl = m.to_integral_value(rounding="ROUND_FLOOR")
    cands.append(fl + Decimal("0.5"))
    for el in els:
        iso = T["iso"].get(el)
        if not iso:
            continue
        vals = [Decimal(x) for x in iso.values()]
        cands += [min(vals) - Decimal("0.5"), max(vals) + Decimal("0.5")]
        for a in (int(fl) - 1, int(fl), int(fl) + 1, int(fl) + 2):
            if a in iso:
                t = Decimal(iso[a])
                cands += [t - mtol, t + mtol]
                if t != m:
                    cands.append(t)        # nearly-equal-but-different masses could collide in binary64
    for c in cands:
        best = min(best, abs(m - c))
    return best


def rand_case_sym(rng, s):
    k = rng.random()
    if k < 0.4:
        return s
    if k < 0.6:
        return s.lower()
    if k < 0.8:
        return s.upper()
    return "".join(ch.upper() if rng.random() < 0.5 else ch.lower() for ch in s)


USER_TAGS = ["_mine", "_MiNe", "_a1", "_3", "__", "_x_y", "4", "12", "007", "_H", "_0"]


def fmt_mass(d):
    s = format(d, "f")
    if "." not in s:
        s += ".0"
    return s


def build_label(rng, parts):
    """parts: ghost in {None,'@','Gh('...}, A, E or Z, user, mass (decimal string with a '.')"""
    core = ""
    if parts.get("A") is not None:
        core += str(parts["A"])
    if parts.get("E") is not None:
        core += parts["E"]
    else:
        core += str(parts["Z"])
    if parts.get("user") is not None:
        core += parts["user"]
    if parts.get("mass") is not None:
        core += "@" + parts["mass"]
    g = parts.get("ghost")
    if g == "@":
        return "@" + core
    if g:
        return g + core + ")"
    return core


def gen_main(ctx, T, n):
    rng = ctx.rng
    els = [e for e in T["E"]]
    mtols = ["0.001"] * 6 + ["0.0001", "0.01", "0.1", "0.25"]
    offs = ["0.0001", "0.0003", "0.0005", "0.002", "0.01", "0.3", "0.7", "1.2", "2"]
    cases = []
    per_el = max(1, n // len(els))
    for el in els:
        iso = T["iso"][el]
        As = sorted(iso)
        for _ in range(per_el):
            a = rng.choice(As) if rng.random() < 0.7 else T["ea2a"][el]
            t = iso[a]
            mtol = rng.choice(mtols)
            # the mass clue: the tabulated value, or displaced
            k = rng.random()
            if k < 0.5:
                mval = Decimal(t)
            else:
                mval = Decimal(t) + (Decimal(rng.choice(offs)) * rng.choice([1, -1]))
            if mval < 0 and rng.random() < 0.8:
                mval = -mval
            mstr = fmt_mass(mval)
            subset = [rng.random() < 0.5 for _ in range(6)]
            c = {"speclabel": True, "nonphysical": rng.random() < 0.2, "mtol": mtol}
            if subset[0]:
                c["A"] = a
            if subset[1]:
                c["Z"] = T["e2z"][el]
            if subset[2]:
                r = rng.random()
                c["E"] = rand_case_sym(rng, el) if r < 0.85 else (rand_case_sym(rng, T["name"][T["e2z"][el]]) if r < 0.93 else str(T["e2z"][el]))
            if subset[3]:
                c["mass"] = mstr
            if subset[4]:
                c["real"] = rng.random() < 0.6
            if subset[5]:
                if rng.random() < 0.8:
                    parts = {}
                    g = rng.random()
                    ghost_want = (c.get("real") is False) if "real" in c else (rng.random() < 0.3)
                    parts["ghost"] = (rng.choice(["@", "Gh(", "gh(", "GH(", "gH("]) if ghost_want else None)
                    if rng.random() < 0.7:
                        parts["E"] = rand_case_sym(rng, el)
                        if rng.random() < 0.4:
                            parts["A"] = a
                        if rng.random() < 0.4:
                            parts["user"] = rng.choice(USER_TAGS)
                    else:
                        parts["Z"] = T["e2z"][el]
                        if rng.random() < 0.4:
                            parts["user"] = rng.choice([u for u in USER_TAGS if u.startswith("_")])
                    if rng.random() < 0.4:
                        parts["mass"] = mstr if not mstr.startswith("-") else mstr[1:]
                    c["parts"] = parts
                    c["label"] = build_label(rng, parts)
                else:
                    c["speclabel"] = False
                    c["label"] = rng.choice(USER_TAGS + ["", "H", "@He", "Gh(x)", "_Q9", "Foo Bar", "a@b.c"])
            # one conflicting clue
            if rng.random() < 0.45:
                kinds = [k for k in ("A", "Z", "E", "mass", "real", "label") if k in c and c[k] is not None]
                if kinds:
                    k = rng.choice(kinds)
                    other = rng.choice(els)
                    if k == "Z":
                        c["Z"] = rng.choice([T["e2z"][other], T["e2z"][other], 118, 200, -1, -27])
                    elif k == "E":
                        c["E"] = rng.choice([rand_case_sym(rng, other), other + str(a), "D", "T", "Xx", "Q", "", "1000", "Hydrogen1"])
                    elif k == "A":
                        c["A"] = rng.choice([a + 1, a - 1, a + 100, 0, -1, 500, max(As) + 1, min(As) - 1])
                    elif k == "mass":
                        c["mass"] = fmt_mass(abs(Decimal(t) + Decimal(rng.choice(offs + ["30", "100"])) * rng.choice([1, -1])))
                    elif k == "real":
                        c["real"] = not c["real"]
                    elif k == "label" and c.get("speclabel") and "parts" in c:
                        p = dict(c["parts"])
                        r = rng.random()
                        if r < 0.3:
                            if p.get("E") is not None:
                                p["E"] = rand_case_sym(rng, other)
                            else:
                                p["Z"] = T["e2z"][other]
                        elif r < 0.5 and p.get("E") is not None:
                            p["A"] = rng.choice([a + 1, a + 100, 0, a - 1])
                        elif r < 0.7:
                            p["mass"] = fmt_mass(abs(Decimal(t) + Decimal(rng.choice(offs)) * rng.choice([1, -1])))
                        elif r < 0.85:
                            p["ghost"] = None if p.get("ghost") else "@"
                        else:
                            # unparseable spellings
                            c["label"] = rng.choice(["@" + build_label(rng, dict(p, ghost="@")), build_label(rng, dict(p, ghost=None)) + ")",
                                                     "Gh(" + build_label(rng, dict(p, ghost=None)), build_label(rng, p) + "_",
                                                     "1234", "Abcd", build_label(rng, dict(p, ghost=None)) + "@1.", ""])
                            c.pop("parts")
                            p = None
                        if p is not None:
                            c["parts"] = p
                            c["label"] = build_label(rng, p)
            cases.append(c)
    return cases


def involved_elements(T, c):
    els = set()
    if c.get("Z") is not None and c["Z"] in T["z2e"]:
        els.add(T["z2e"][c["Z"]])
    if c.get("E") is not None:
        e = el_of_clue(T, c["E"])
        if e:
            els.add(e)
    p = c.get("parts") or {}
    if p.get("Z") is not None and p["Z"] in T["z2e"]:
        els.add(T["z2e"][p["Z"]])
    if p.get("E") is not None:
        e = el_of_clue(T, p["E"])
        if e:
            els.add(e)
    return els


def min_edge_distance(T, c):
    els = involved_elements(T, c)
    mtol = Decimal(c.get("mtol", "0.001"))
    d = Decimal(10)
    ms = [c.get("mass"), (c.get("parts") or {}).get("mass")]
    for m in ms:
        if m is not None:
            d = min(d, edges_near(T, els, m, mtol))
    return d


ALPHABET = "@Gh()_.0123456789" + "gHeE" + string.ascii_letters + "0123456789__@@..()"


def squeeze_digits(s, k=7):
    return re.sub(r"\d{%d,}" % (k + 1), lambda m: m.group(0)[:k], s)


def gen_labels(ctx, T, n):
    rng = ctx.rng
    out = ["", "H", "h", "1H", "1_foo", "1", "12", "123", "1234", "@H", "@1", "Gh(H)", "gh(he)", "Gh(H", "GhH)", "H)", "@H)",
           "Gh", "gh", "Gh_1", "Gh1", "@Gh(H)", "Gh(@H)", "Gh(Gh(H))", "Gh()", "@", "()", "H_", "H__", "H_1", "H1", "H12@1.5",
           "H@1.5", "H@1.", "H@.5", "H@1", "H@1.5.5", "H@1.5)", "Gh(H@1.5)", "Gh(H@1.5", "He4@4.01", "@13C_tag@13.003",
           "444lu333@4.0", "@444lu333@4.4", "8i", "53_mI4", "@5_MINEs3@4.4", "Gh(555_mines3@0.1)", "Abc", "Abcd", "abcD_1",
           "12Abc34", "12Abc_34", "12Abc_", "0H", "00H", "0", "000", "007_x", "1_", "1__", "H_a@b", "H_a@1.5", "H 1", " H", "H ",
           "H\n", "H\t", "1e", "1e5", "1E_5", "h1e5", "H_é"[:2], "_H", "_1", "H-1", "H+1", "1.5", "H1.5", "H1@1.5", "H_1.5"]
    syms = T["E"]
    while len(out) < n:
        k = rng.random()
        if k < 0.35:
            p = {"ghost": rng.choice([None, None, "@", "Gh(", "gh(", "GH("])}
            if rng.random() < 0.7:
                p["E"] = rand_case_sym(rng, rng.choice(syms + ["Gh", "Abc", "Zzz", "D", "T"]))
                if rng.random() < 0.4:
                    p["A"] = rng.choice([0, 1, 2, 13, 59, 238, 444, 1000, 12345])
                if rng.random() < 0.5:
                    p["user"] = rng.choice(USER_TAGS + ["_", "_é"[:1], "_Gh", "_a_b_c", "99999"])
            else:
                p["Z"] = rng.choice([0, 1, 5, 27, 92, 117, 118, 555, 999, 1000, 12])
                if rng.random() < 0.5:
                    p["user"] = rng.choice(USER_TAGS + ["_"])
            if rng.random() < 0.4:
                p["mass"] = rng.choice(["1.07", "4.0", "58.933195048", "0.1", "00.100", "238.05078826", "12.", ".5", "1.5.2", "13"])
            s = build_label(rng, p)
            # near-valid: one random edit
            if rng.random() < 0.4 and s:
                i = rng.randrange(len(s) + 1)
                r = rng.random()
                if r < 0.4:
                    s = s[:i] + rng.choice(ALPHABET) + s[i:]
                elif r < 0.7 and i < len(s):
                    s = s[:i] + s[i + 1:]
                elif i < len(s):
                    s = s[:i] + rng.choice(ALPHABET) + s[i + 1:]
        else:
            ln = rng.choice([1, 2, 2, 3, 3, 4, 5, 6, 8, 10])
            s = "".join(rng.choice(ALPHABET) for _ in range(ln))
        out.append(squeeze_digits(s))
    return out


def gen_edges(ctx, T, n):
    """masses exactly on, or within 1e-12 of, a decision edge; dyadic tolerances included"""
    rng = ctx.rng
    els = T["E"][1:]
    cases = []
    # on the edge, a few ulps off it, and 1e-9 .. 2e-5 either side (a window widened or narrowed by a "round-off allowance"
    # in only one of offer_mass_value / offer_mass_number shows as a model disagreement and as a failed feedback)
    tiny = [Decimal(0), Decimal("1e-12"), Decimal("-1e-12"), Decimal("1e-10"), Decimal("-1e-10"), Decimal("1e-9"), Decimal("-1e-9"),
            Decimal("1e-6"), Decimal("-1e-6"), Decimal("5e-6"), Decimal("1e-5"), Decimal("-1e-5"), Decimal("2e-5")]
    while len(cases) < n:
        el = rng.choice(els)
        iso = T["iso"][el]
        a = rng.choice(sorted(iso))
        t = Decimal(iso[a])
        mtol = rng.choice(["0.001", "0.001", "0.0001", "0.01", "0.125", "0.25", "0.5"])
        vals = [Decimal(x) for x in iso.values()]
        kind = rng.choice(["near+", "near-", "lo", "hi", "half", "table"])
        base = {"near+": t + Decimal(mtol), "near-": t - Decimal(mtol), "lo": min(vals) - Decimal("0.5"),
                "hi": max(vals) + Decimal("0.5"), "half": Decimal(a) + Decimal("0.5"), "table": t}[kind]
        m = base + rng.choice(tiny)
        if m <= 0:
            continue
        c = {"Z": T["e2z"][el], "mass": fmt_mass(m), "mtol": mtol, "speclabel": True,
             "nonphysical": rng.random() < 0.15, "edge": kind}
        if rng.random() < 0.4:
            c["A"] = a
        if rng.random() < 0.3:
            c["E"] = el
        cases.append(c)
    return cases


def gen_wide(ctx, T, n):
    """tolerances at and beyond the isotope spacing (outside the fixed-point theorem's 0 < mtol <= 1/4)"""
    rng = ctx.rng
    els = T["E"][1:]
    cases = []
    while len(cases) < n:
        el = rng.choice(els)
        iso = T["iso"][el]
        a = rng.choice(sorted(iso))
        c = {"Z": T["e2z"][el], "mtol": rng.choice(["0.4", "0.7", "1.5", "2.0"]), "speclabel": True, "nonphysical": False, "wide": True}
        k = rng.random()
        if k < 0.5:
            c["A"] = a
        if k > 0.3:
            c["mass"] = fmt_mass(Decimal(iso[a]) + Decimal(rng.choice(["0", "0.013", "-0.21", "0.33", "0.61"])))
        if min_edge_distance(T, c) >= SLACK:
            cases.append(c)
    return cases


def is_wide_mismatch(T, case, out):
    """mtol beyond the isotope spacing and the returned mass does not round to the returned mass number"""
    try:
        A, Z, E, mrepr, real, user = out[1]
        return float(case.get("mtol", "0.001")) > 1.0 and A != -1 and round(float(mrepr)) != A
    except Exception:
        return False


def perturbed(c, delta):
    d = dict(c)
    d["mass"] = fmt_mass(Decimal(c["mass"]) + delta)
    return d


# ------------------------------------------------------------------------------------------------

def _run_kw(kw):
    """one call.  kw: keywords of reconcile_nucleus; '_pos' (optional) = leading arguments passed positionally;
    '_via': 'from_arrays' = the same clues as the columns of a one-atom from_arrays call (answer = the atom's fields)"""
    from qcelemental.molparse import reconcile_nucleus
    kw = dict(kw)
    pos = tuple(kw.pop("_pos", ()))
    via = kw.pop("_via", None)
    kw.setdefault("verbose", -1)
    try:
        with contextlib.redirect_stdout(io.StringIO()):
            if via == "from_arrays":
                from qcelemental.molparse import from_arrays
                col = {"A": "elea", "Z": "elez", "E": "elem", "mass": "mass", "real": "real", "label": "elbl"}
                fkw = {col[k]: [v] for k, v in kw.items() if k in col}
                fkw.update({k: v for k, v in kw.items() if k not in col})
                rec = from_arrays(geom=[0.0, 0.0, 0.0], units="Bohr", fix_com=True, fix_orientation=True, **fkw)
                r = (int(rec["elea"][0]), int(rec["elez"][0]), str(rec["elem"][0]), float(rec["mass"][0]), bool(rec["real"][0]),
                     str(rec["elbl"][0]))
            else:
                r = reconcile_nucleus(*pos, **kw)
        return ("Ok", tuple(r))
    except Exception as e:
        return ("Err", ekind_of(e))


def arrays_call(c):
    """the clues of case c as the columns of a ONE-atom from_arrays call carrying c's options (speclabel, nonphysical, mtol);
    answer in the shape impl_call gives: the atom's elea/elez/elem/mass/real/elbl"""
    kw = {k: c[k] for k in ("A", "Z", "E", "real", "label") if c.get(k) is not None}
    if c.get("mass") is not None:
        kw["mass"] = float(c["mass"])
    kw.update(speclabel=c.get("speclabel", True), nonphysical=c.get("nonphysical", False), mtol=float(c.get("mtol", "0.001")),
              _via="from_arrays")
    r = _run_kw(kw)
    if r[0] != "Ok":
        return r
    A, Z, E, m, real, user = r[1]
    return ("Ok", (A, Z, E, repr(m), real, user))


def arrays_judge(T, c):
    """from_arrays documents a mass number of -1 as 'not given'; otherwise its per-atom answer is reconcile_nucleus's answer
    for the same clues and options: judged by the property's oracle (window of the REQUESTED mtol, clue agreement) and
    against the direct call.  Returns (complaint or None, direct answer, from_arrays answer)."""
    cd = dict(c, A=None) if c.get("A") == -1 else c
    got = arrays_call(c)
    ref = impl_call(cd)
    bad = oracle(T, cd, got)
    if bad:
        bad = "per-atom fields of from_arrays output: " + bad
    elif got != ref:
        bad = ("from_arrays (one atom, same clues as columns, same speclabel/nonphysical/mtol) does not give the atom "
               "reconcile_nucleus gives when called directly")
    return bad, ref, got


def cache_clear():
    """empty the result cache, whatever it is (a memo without cache_clear cannot be emptied: then histories simply
    continue — every answer is still compared with the pristine-process answer)"""
    from qcelemental.molparse import reconcile_nucleus
    f = getattr(reconcile_nucleus, "cache_clear", None)
    if callable(f):
        f()


def cache_hits():
    from qcelemental.molparse import reconcile_nucleus
    f = getattr(reconcile_nucleus, "cache_info", None)
    try:
        return int(f().hits) if callable(f) else 0
    except Exception:
        return 0


def _read_all(fd):
    buf = b""
    while True:
        chunk = os.read(fd, 65536)
        if not chunk:
            break
        buf += chunk
    os.close(fd)
    return buf


def fresh_seq(seq, clear_first=False):
    """run a sequence of queries in a forked child of this process and return the LAST answer: nothing the child does
    is seen by later queries of this process, and nothing this process did after the fork point is seen by the child"""
    r, w = os.pipe()
    pid = os.fork()
    if pid == 0:
        try:
            os.close(r)
            if clear_first:
                cache_clear()
            ans = None
            for kw in seq:
                ans = _run_kw(kw)
            os.write(w, repr(ans).encode())
        finally:
            os._exit(0)
    os.close(w)
    buf = _read_all(r)
    os.waitpid(pid, 0)
    return eval(buf.decode())   # a tuple literal written by the child above


def fresh_eval(kw):
    """evaluate one query in a forked child of this process (see fresh_seq)"""
    return fresh_seq([kw])


def fresh_eval_many(kws, jobs=None):
    """[fresh_eval(kw) for kw in kws], spread over a few forked workers: each worker (a pristine copy of this process
    that never calls reconcile_nucleus itself) forks one grandchild per query"""
    kws = list(kws)
    if not kws:
        return []
    jobs = jobs or max(1, min(8, int(os.environ.get("VERIF_JOBS", "6") or 6)))
    chunks = [kws[i::jobs] for i in range(jobs)]
    procs = []
    for ch in chunks:
        r, w = os.pipe()
        pid = os.fork()
        if pid == 0:
            try:
                os.close(r)
                os.write(w, repr([fresh_eval(kw) for kw in ch]).encode())
            finally:
                os._exit(0)
        os.close(w)
        procs.append((pid, r))
    outs = []
    for pid, r in procs:
        buf = _read_all(r)
        os.waitpid(pid, 0)
        try:
            outs.append(eval(buf.decode()))
        except Exception:
            outs.append(None)
    res = [None] * len(kws)
    for i, out in enumerate(outs):
        if out is None or len(out) != len(chunks[i]):
            # a worker died (memory pressure on a shared machine): this process is still pristine, do its share here
            out = [fresh_eval(kw) for kw in chunks[i]]
        res[i::jobs] = out
    return res


def gen_clue_pairs(ctx, T):
    """Pairs of calls (q, q2, kind) that differ ONLY in one clue / option being unspecified in q and explicit in q2 —
    the explicit value agreeing with q's answer, or contradicting it — for every clue kind (A, Z, E, mass, real,
    label and the parts of a label) and every option (speclabel, nonphysical, mtol, verbose), plus an explicit None,
    a positional spelling and the same through one-atom from_arrays columns.  A result cache whose key identifies
    'unspecified' with some explicit value answers q2 with q's result (or the reverse)."""
    rng = ctx.rng
    zs = [1, 2, 6, 17, 27, 92] + [rng.randrange(3, 118) for _ in range(5 if not ctx.thorough else 40)]
    full_for = set([1, 27, 92] + zs[6:8]) if not ctx.thorough else set(zs)      # all 15 base calls; the others: 6 of them
    pairs = []
    seen = set()

    def add(q, q2, kind):
        key = (repr(q), repr(q2))
        if q != q2 and key not in seen:
            seen.add(key)
            pairs.append((q, q2, kind))

    for z in dict.fromkeys(zs):
        el = T["z2e"][z]
        iso = T["iso"][el]
        a = T["ea2a"][el]
        m = float(T["ea2massstr"][el])
        oz = rng.choice([x for x in (1, 2, 6, 8, 26, 79) if x != z])
        oel = T["z2e"][oz]
        a_bad = next(x for x in (a + 1, a + 2, a + 3, a + 50, a + 300) if x not in iso)
        a_alt = next((x for x in sorted(iso) if x != a), None)
        tag = rng.choice(["_x", "_Tag", "4", "_1"])
        values = {      # clue kind -> explicit values: agreeing first, then contradicting / answer-changing
            "A": [a, a_bad] + ([a_alt] if a_alt is not None else []) + [0],
            "Z": [z, oz, 0],
            "E": [el, el.lower(), oel, ""],
            "mass": [m, m + 0.4, m + 30.0, 0.0],
            "real": [True, False],
            "label": [el, "@" + el, "Gh(%s)" % el.lower(), "%d%s" % (a, el.upper()), el + tag, oel, "@" + oel, ""],
        }       # the explicit zeros / empty strings: "falsy" is not "unspecified" either
        options = {"speclabel": [True, False], "nonphysical": [False, True], "mtol": [1.0e-3, 0.5], "verbose": [-1, 0, 2]}
        bases = [dict(Z=z), dict(E=el), dict(label=el), dict(label="@" + el), dict(label="Gh(%s%s)" % (el, tag)),
                 dict(Z=z, A=a), dict(E=el, mass=m), dict(Z=z, real=False), dict(E=el, real=True), dict(label="%d%s" % (a, el)),
                 dict(A=a, Z=z, E=el, mass=m), dict(Z=z, label=tag, speclabel=False), dict(label="@%s@%s" % (el, T["ea2massstr"][el])),
                 dict(Z=z, mass=m + 0.4), dict(Z=z, mass=float(round(m)) + 0.6, nonphysical=True)]
        if z not in full_for:
            bases = bases[:4] + bases[7:8] + bases[10:11]
        for q in bases:
            for k, vs in values.items():
                if k in q:
                    continue
                if k == "label" and q.get("speclabel") is False:
                    continue
                for v in vs:
                    add(q, dict(q, **{k: v}), "clue " + k)
                add(q, dict(q, **{k: None}), "explicit None " + k)
            for k, vs in options.items():
                if k in q:
                    continue
                for v in vs:
                    add(q, dict(q, **{k: v}), "option " + k)
            if "label" in q and q.get("speclabel", True):
                lb = q["label"]
                core = lb[1:] if lb.startswith("@") else (lb[3:-1] if lb[:3].lower() == "gh(" else lb)
                ghost = core != lb
                core_nomass = core.split("@")[0]
                alts = [core if ghost else "@" + core, core if ghost else "Gh(" + core + ")", lb.swapcase(), lb.lower()]
                if core_nomass == core:
                    alts += [lb.replace(core, core + "@" + T["ea2massstr"][el]), lb.replace(core, core + "@%.1f" % (m + 30))]
                if core_nomass[0].isalpha():
                    alts += [lb.replace(core, "%d%s" % (a, core)), lb.replace(core, "%d%s" % (a_bad, core))]
                if core_nomass.isalpha():
                    alts += [lb.replace(core, core + "_q"), lb.replace(core, core + "7")]
                for l2 in alts:
                    add(q, dict(q, label=l2), "label part")
            # the same clue set, A (and Z) positional
            if "A" in q:
                rest = {k: v for k, v in q.items() if k != "A"}
                add(q, dict(rest, _pos=(q["A"],)), "positional")
        # through from_arrays (per-atom columns None vs explicit); verbose is not a column
        for q in (dict(label="@" + el + "_x"), dict(label=el), dict(E=el), dict(Z=z, A=a)):
            fq = dict(q, _via="from_arrays")
            for k, vs in values.items():
                if k in q or (k == "label" and "E" not in q and "Z" not in q):
                    continue
                for v in vs[:2] + vs[-1:]:
                    add(fq, dict(fq, **{k: v}), "from_arrays column " + k)
            add(q, fq, "direct vs from_arrays")
    return pairs


def clue_pair_rounds(ctx, corr, pairs, ref, clear):
    """every pair in both orders on a warm cache (nothing is cleared between pairs); each answer must be the answer
    the same call gets in a pristine process"""
    nfail = 0
    for order in (0, 1):
        clear()
        prefix = ["cache_clear"]
        for q, q2, kind in pairs:
            seq = (q, q2) if order == 0 else (q2, q)
            for n, kw in enumerate(seq):
                got = _run_kw(kw)
                corr.count("history_cluepairs")
                want = ref[repr(kw)]
                if got != want:
                    # smallest history that shows it: the sibling call alone, on an emptied cache
                    small = ["cache_clear"] + [repr(x) for x in seq[:n]]
                    if fresh_seq(list(seq[:n + 1]), clear_first=True) != want:
                        pre = small
                    else:
                        pre = list(prefix)
                    corr.failures.append({"stream": "history",
                                          "case": {"call": repr(kw), "canonical": repr(kw), "round": "cluepairs/%d" % order,
                                                   "pair_kind": kind, "prefix": pre},
                                          "what": "answer depends on an earlier call that differs only in one clue/option being "
                                                  "unspecified vs explicit (" + kind + ")",
                                          "observed": [repr(want), repr(got)]})
                    nfail += 1
                    if nfail > 5:
                        return
                prefix.append(repr(kw))
            if ref[repr(q)] != ref[repr(q2)]:
                corr.hit("cluepair_answers_differ")
            corr.hit("cluepair_" + kind.split(" ")[0])


def history_stream(ctx, T, corr):
    """Run before anything else in this process has called reconcile_nucleus.  The same queries in permuted
    orders, with int/float/bool/numpy-scalar spellings of equal keys (1 == 1.0 == True collide in the lru_cache key), with and
    without cache_clear(); every answer must equal the answer the canonical spelling gets in a pristine
    process state (forked child)."""
    from qcelemental.molparse import reconcile_nucleus
    rng = ctx.rng
    base = []
    for z in [0, 1, 2, 6, 27, 92] + [rng.randrange(1, 118) for _ in range(10 if not ctx.thorough else 60)]:
        el = T["z2e"][z]
        a = T["ea2a"][el]
        m = float(T["ea2massstr"][el])
        base += [dict(Z=z), dict(Z=z, A=a), dict(Z=z, mass=m), dict(Z=z, real=True), dict(Z=z, real=False),
                 dict(E=el, A=a, mass=m, real=True), dict(label=el), dict(label="@" + el), dict(Z=z, A=a + 1),
                 dict(A=a, Z=z, E=el, mass=m, real=True, label="", speclabel=False), dict(Z=z, E="He"),
                 dict(Z=z, mass=float(round(m))), dict(Z=z, mass=float(round(m)), nonphysical=True)]

    def spellings(kw):
        out = [kw]
        alt = {}
        import numpy as np
        for k, v in kw.items():
            if k in ("Z", "A") and isinstance(v, int):
                alt[k] = [float(v)] + ([True] if v == 1 else []) + ([False] if v == 0 else []) + [np.int64(v), np.int16(v)] + \
                         ([np.uint8(v)] if 0 <= v < 256 else [])
            elif k == "real":
                alt[k] = [int(v), float(v), np.bool_(v)]
            elif k == "mass" and float(v).is_integer():
                alt[k] = [int(v)] + ([True] if v == 1 else [])
            elif k == "mass":
                alt[k] = [np.float64(v)]
            elif k in ("E", "label") and isinstance(v, str):
                alt[k] = [np.str_(v)]
        for k, vs in alt.items():
            for v in vs:
                out.append(dict(kw, **{k: v}))
        if "Z" in kw and "A" in kw:
            out.append({"A": kw["A"], "Z": kw["Z"], **{k: v for k, v in kw.items() if k not in ("A", "Z")}})
        return out

    hits = [0]

    def clear():
        hits[0] += cache_hits()
        cache_clear()

    pairs = gen_clue_pairs(ctx, T)
    pair_queries = {}
    for q, q2, _ in pairs:
        pair_queries.setdefault(repr(q), q)
        pair_queries.setdefault(repr(q2), q2)
    fresh = fresh_eval_many(base + list(pair_queries.values()))      # before this process makes its first call
    reference = {i: fresh[i] for i in range(len(base))}
    pair_ref = dict(zip(pair_queries.keys(), fresh[len(base):]))
    calls = [(i, sp) for i, kw in enumerate(base) for sp in spellings(kw)]
    prefix = []
    for rnd in range(3 if not ctx.thorough else 10):
        rng.shuffle(calls)
        if rnd % 2 == 0:
            clear()
            prefix.append("cache_clear")
        for j, (i, sp) in enumerate(calls):
            if rnd == 2 and j % 7 == 0:
                clear()
                prefix.append("cache_clear")
            got = _run_kw(sp)
            corr.count("history")
            if got != reference[i]:
                corr.failures.append({"stream": "history",
                                      "case": {"call": repr(sp), "canonical": repr(base[i]), "round": rnd, "prefix": list(prefix[-4000:])},
                                      "what": "answer depends on earlier calls / on the spelling of an equal argument",
                                      "observed": [repr(reference[i]), repr(got)]})
                if sum(1 for f in corr.failures if f["stream"] == "history") > 5:
                    clear()
                    return
            prefix.append(repr(sp))
    clear()
    corr.hit("history_cache_hits", hits[0])
    # eviction: more distinct keys than maxsize, then the evicted and the surviving queries again
    probe = rng.sample(list(range(len(base))), min(40, len(base)))
    prefix_ev = ["cache_clear"]
    for i in probe:
        _run_kw(base[i])
        prefix_ev.append(repr(base[i]))
    filler = 0
    for z in range(1, 118):
        for dm in (0.0, 0.25, 0.5, 0.75, 1.0, 1.25):
            kw = dict(Z=z, mass=float(T["ea2massstr"][T["z2e"][z]]) + dm, nonphysical=True)
            _run_kw(kw)
            prefix_ev.append(repr(kw))
            filler += 1
    for i in probe + probe[:10]:
        got = _run_kw(base[i])
        corr.count("history")
        prefix_ev.append(repr(base[i]))
        if got != reference[i]:
            corr.failures.append({"stream": "history", "case": {"call": repr(base[i]), "canonical": repr(base[i]), "round": "eviction", "prefix": list(prefix_ev)},
                                  "what": "answer changes after the entry was evicted from / refreshed in the result cache",
                                  "observed": [repr(reference[i]), repr(got)]})
    corr.hit("history_eviction_filler_calls", filler)
    clear()
    clue_pair_rounds(ctx, corr, pairs, pair_ref, clear)
    clear()
    corr.hit("history_cache_hits_total", hits[0])


def verbose_stream(ctx, T, corr, cases):
    """verbose must not change the answer"""
    for c in cases:
        ref = impl_call(c, verbose=-1)
        for v in (0, 1, 2):
            cache_clear()
            got = impl_call(c, verbose=v)
            corr.count("verbose")
            if got != ref:
                corr.failures.append({"stream": "verbose", "case": {"input": public(c), "verbose": v},
                                      "what": "verbose level changes the answer", "observed": [ref, got]})


def public(c):
    return {k: v for k, v in c.items()}


# failures of the oracle streams that depend on earlier calls of the same process (a result cache keyed too coarsely): every
# call of the main / edge / verbose streams is logged in order; a failure whose case alone does NOT fail in a fresh interpreter
# is recorded as the shortest history found that does (harness/histseq.py, histshrink.py), so that the replay is self-contained.
HLOG = []


def hlog(step):
    HLOG.append(step)
    return len(HLOG)


def run_step(T, step):
    c = dict(step["input"])
    if "verbose" in step:
        ref = impl_call(c, verbose=-1)
        got = impl_call(c, verbose=step["verbose"])
        return None if got == ref else f"verbose level changes the answer: {ref} vs {got}"
    out = impl_call(c)
    return oracle(T, c, out) or oracle_feedback(c, out)


def run_history(steps):
    """histseq interface: the steps one after the other in this interpreter (no cache_clear in between); complaints about the LAST"""
    T = table(None)
    bad = None
    for st in steps:
        bad = run_step(T, st)
    return [str(bad)] if bad else []


def localise_histories(ctx, corr):
    from .. import histshrink
    import json
    done, tries = set(), {}
    for f in list(corr.failures):
        st = f.get("stream")
        if st in done or "_hpos" not in f or tries.get(st, 0) >= 3:
            continue
        try:
            if any(m(f) for m in KNOWN.values()):
                continue
        except Exception:
            pass
        tries[st] = tries.get(st, 0) + 1
        steps = json.loads(json.dumps(HLOG[:f["_hpos"]]))
        hist, complaints, ok = histshrink.shrink("c06", steps, budget=16)
        if ok and len(hist) == 1:
            done.add(st)
            continue
        corr.failures.remove(f)
        if ok:
            ctx.log(f"failure in stream {st} depends on earlier calls: shortest failing history found has {len(hist)} steps")
            f["case"] = {"history": hist}
            f["what"] = "the last call of this history is judged wrongly only after the earlier ones (state kept between calls): " + complaints[0]
            corr.failures.insert(0, f)
            done.add(st)
        else:
            f["not_reproduced_in_fresh_interpreter"] = True
            corr.failures.append(f)


CORPUS = [
    {"E": "co"}, {"Z": 27}, {"A": 59, "Z": 27}, {"E": "cO", "mass": "58.933195048"}, {"A": 59, "Z": 27, "E": "CO"},
    {"label": "co", "parts": {"E": "co"}}, {"label": "59co", "parts": {"A": 59, "E": "co"}},
    {"label": "co@58.933195048", "parts": {"E": "co", "mass": "58.933195048"}},
    {"A": 59, "Z": 27, "E": "cO", "mass": "58.933195048", "label": "27@58.933195048", "parts": {"Z": 27, "mass": "58.933195048"}},
    {"label": "co_miNe", "parts": {"E": "co", "user": "_miNe"}}, {"E": "cO", "mass": "58.933"},
    {"E": "cO", "mass": "58.933", "mtol": "0.0001"}, {"E": "Co", "A": 60}, {"Z": 27, "mass": "59.933817059"},
    {"label": "@60Co", "parts": {"ghost": "@", "A": 60, "E": "Co"}}, {"A": 60, "label": "Gh(Co)", "parts": {"ghost": "Gh(", "E": "Co"}},
    {"Z": 27, "mass": "200.0", "nonphysical": True}, {"mass": "60.6", "Z": 27}, {"mass": "60.6", "Z": 27, "A": 61},
    {"A": 80, "Z": 27}, {"Z": 27, "mass": "200.0"}, {"Z": -27, "mass": "200.0", "nonphysical": True},
    {"Z": 1, "label": "he", "parts": {"E": "he"}}, {"A": 4, "label": "3he", "parts": {"A": 3, "E": "he"}},
    {"label": "@U", "real": True, "parts": {"ghost": "@", "E": "U"}}, {"label": "U", "real": False, "parts": {"E": "U"}},
    {"label": "1U@1.007", "nonphysical": True, "parts": {"A": 1, "E": "U", "mass": "1.007"}},
    {"Z": 0}, {"Z": 0, "nonphysical": True}, {"E": "x", "A": 0, "mass": "0.0"}, {"Z": 1, "A": 2}, {"E": "D"}, {"E": "27"},
    {"E": "cobalt"}, {}, {"A": 1}, {"mass": "1.0"}, {"label": "_x", "speclabel": False},
    {"Z": 1, "label": "_X1", "speclabel": False}, {"Z": 1, "label": "H_X1", "parts": {"E": "H", "user": "_X1"}},
    # fixed finding C06-mtol-boundary-feedback (af456dc): mass exactly mtol from m(Co-59); its output must feed back
    {"Z": 27, "mass": "59.43319429", "mtol": "0.5"}, {"Z": 27, "mass": "59.18319429", "mtol": "0.25"},
    {"Z": 27, "mass": "58.80819429", "mtol": "0.125", "A": 59},
]


def correspond(ctx):
    T = table(ctx)
    corr = Corr()
    corr.rule = ("main: every element, random isotope x random subset of the 6 clue kinds x consistent / one conflicting clue x label "
                 "spellings x speclabel/nonphysical/mtol, supplied masses >= 1e-9 from every decision edge; labels: valid, near-valid "
                 "and random strings through parse_nucleus_label; arrays: every main/edge case again as the columns of a one-atom from_arrays call "
                 "with the case's options (mtol included), judged by the oracle and against the direct call; edges: masses on/near window edges (three-point comparison); "
                 "non-trivial = the implementation returned a nucleus (main) or fields (labels); distinct = distinct inputs")
    pat = normalised_pattern(ctx.repo)
    pattern_changed = pat != NUCLEUS_NORMALISED
    if pattern_changed:
        corr.notes.append("regex.NUCLEUS differs textually from the pattern the recogniser was written against; label stream enlarged")
    n_main = 150000 if ctx.thorough else 16000
    n_lab = (200000 if ctx.thorough else 9000) * (3 if pattern_changed else 1)
    n_edge = 20000 if ctx.thorough else 2000
    n_wide = 4000 if ctx.thorough else 600
    history_stream(ctx, T, corr)     # first: nothing in this process has called reconcile_nucleus yet

    # ---- main stream
    raw_cases = [dict(c, mtol=c.get("mtol", "0.001"), speclabel=c.get("speclabel", True), nonphysical=c.get("nonphysical", False))
                 for c in CORPUS] + gen_main(ctx, T, n_main) + gen_wide(ctx, T, n_wide)
    edge_cases = gen_edges(ctx, T, n_edge)
    main_cases, drifted = [], []
    for c in raw_cases:
        if min_edge_distance(T, c) < SLACK:
            drifted.append(dict(c, edge="drifted"))
        else:
            main_cases.append(c)
    edge_cases = drifted + edge_cases          # corpus cases that sit on an edge come first
    terms, meta = [], []
    fb_known = 0
    del HLOG[:]
    for k, c in enumerate(main_cases):
        hpos = hlog({"input": public(c)})
        out = impl_call(c)
        stream = "corpus" if k < len(CORPUS) else ("wide" if c.get("wide") else "main")
        corr.count(stream)
        corr.hit("impl_" + (out[0] if out[0] == "Ok" else "Err_" + out[1]))
        if out[0] == "Ok":
            corr.nontriv(public(c))
            if out[1][0] == -1:
                corr.hit("A_unassigned")
            if ctx.rng.random() < 0.0004:
                corr.sample({"input": public(c), "output": out})
        bad = oracle(T, c, out) or oracle_feedback(c, out)
        if bad:
            corr.failures.append({"stream": "oracle", "case": {"input": public(c)}, "what": bad, "observed": out,
                                  "mtol_boundary": is_mtol_boundary(T, c, out), "wide_mismatch": is_wide_mismatch(T, c, out), "_hpos": hpos})
        terms.append(f"({in_term(c)}, {out_term(out)})")
        meta.append((stream, c, out))
    corr.sample({"input": public(main_cases[0]), "output": impl_call(main_cases[0])})
    ctx.log(f"{len(terms)} main cases through the implementation; evaluating the model")
    bad, errors = coqrun.eval_bad_indices("C06", REQ, "", "check_case", terms, shard=1500, ty="nuc_in * outcome nuc_out")
    corr.errors.extend(f"main shard {k}: {e}" for k, e in errors)
    for b in bad[:8]:
        stream, c, out = meta[b]
        got, _ = coqrun.eval_terms("C06", REQ, "", [f"reconcile {in_term(c)}"])
        corr.disagreements.append({"stream": stream, "case": {"input": public(c)}, "impl": out, "model": got})

    # ---- arrays stream: the same cases (all options, every mtol) as the columns of a one-atom from_arrays call
    narr = 0
    for c in main_cases + edge_cases:
        badv, ref, got = arrays_judge(T, c)
        corr.count("arrays")
        if c.get("mtol", "0.001") != "0.001" and (c.get("mass") is not None or (c.get("parts") or {}).get("mass") is not None):
            corr.hit("arrays_mass_clue_nondefault_mtol")
        if badv and narr < 6:
            narr += 1
            corr.failures.append({"stream": "arrays", "case": {"input": public(c), "via": "from_arrays"}, "what": badv,
                                  "observed": [ref, got], "mtol_boundary": is_mtol_boundary(T, c, got),
                                  "wide_mismatch": is_wide_mismatch(T, c, got)})

    # ---- label stream
    labels = gen_labels(ctx, T, n_lab)
    lterms, lmeta = [], []
    for s in labels:
        if not all(ord(ch) < 128 for ch in s):
            continue
        out = impl_parse(s)
        corr.count("labels")
        corr.hit("label_" + (out[0] if out[0] == "Ok" else "Err_" + out[1]))
        if out[0] == "Ok":
            corr.nontriv({"label": s})
        badl = label_oracle(s, out)
        if badl:
            corr.failures.append({"stream": "labels", "case": {"label": s}, "what": badl, "observed": out})
        lterms.append(f"({cstr(s)}, {label_out_term(out)})")
        lmeta.append((s, out))
    bad, errors = coqrun.eval_bad_indices("C06L", REQ, "", "check_label", lterms, shard=3000, ty="string * outcome label_fields")
    corr.errors.extend(f"label shard {k}: {e}" for k, e in errors)
    for b in bad[:8]:
        s, out = lmeta[b]
        got, _ = coqrun.eval_terms("C06L", REQ, "", [f"parse_label {cstr(s)}"])
        corr.disagreements.append({"stream": "labels", "case": {"label": s}, "impl": out, "model": got})

    # ---- edge stream: the implementation's answer must be the model's answer at m, m-1e-9 or m+1e-9
    eterms, emeta = [], []
    d = Decimal("1e-9")
    for c in edge_cases:
        hpos = hlog({"input": public(c)})
        out = impl_call(c)
        corr.count("edges")
        corr.hit("edge_" + str(c.get("edge")))
        badw = oracle(T, c, out) or oracle_feedback(c, out)
        if badw:
            corr.failures.append({"stream": "edges", "case": {"input": public(c)}, "what": badw, "observed": out,
                                  "mtol_boundary": is_mtol_boundary(T, c, out), "wide_mismatch": is_wide_mismatch(T, c, out), "_hpos": hpos})
        if c.get("mass") is None or ("parts" in c and c["parts"].get("mass") is not None):
            continue   # drifted label masses: judged by the oracle only
        lo, hi = perturbed(c, -d), perturbed(c, d)
        eterms.append(f"(({in_term(c)}, {in_term(lo)}), ({in_term(hi)}, {out_term(out)}))")
        emeta.append((c, out))
    bad, errors = coqrun.eval_bad_indices("C06E", REQ, EDGE_PRELUDE, "check_edge", eterms, shard=500,
                                          ty="(nuc_in * nuc_in) * (nuc_in * outcome nuc_out)")
    corr.errors.extend(f"edge shard {k}: {e}" for k, e in errors)
    for b in bad[:8]:
        c, out = emeta[b]
        got, _ = coqrun.eval_terms("C06E", REQ, "", [f"reconcile {in_term(c)}"])
        corr.disagreements.append({"stream": "edges", "case": {"input": public(c)}, "impl": out, "model": got})

    # ---- verbose stream (implementation only)
    verbose_stream(ctx, T, corr, [c for c in main_cases[:len(CORPUS)]] + ctx.rng.sample(main_cases, 60))
    if corr.failures:
        localise_histories(ctx, corr)
    corr.exhaustive = False
    return corr


EDGE_PRELUDE = """
Definition same_modulo_mass (a b : outcome nuc_out) : bool :=
  match a, b with
  | Ok x, Ok y => (oA x =? oA y)%Z && (oZ x =? oZ y)%Z && String.eqb (oE x) (oE y) && Bool.eqb (oreal x) (oreal y)
                  && String.eqb (ouser x) (ouser y)
  | Err j, Err k => ekind_eqb j k
  | _, _ => false
  end.
Definition check_edge (p : (nuc_in * nuc_in) * (nuc_in * outcome nuc_out)) : bool :=
  let '((c, lo), (hi, out)) := p in
  outcome_eqb out_eqb (reconcile c) out || same_modulo_mass (reconcile lo) out || same_modulo_mass (reconcile hi) out.
"""


def search(ctx, corr, reasons):
    T = table(ctx)
    found = []
    seen = {repr(f.get("case")) for f in corr.failures}
    for d in corr.disagreements:
        if "input" in d["case"] and repr(d["case"]) not in seen:
            c = d["case"]["input"]
            out = impl_call(c)
            bad = oracle(T, c, out) or oracle_feedback(c, out)
            if bad:
                found.append({"stream": "search", "case": {"input": c}, "what": bad, "observed": out,
                              "mtol_boundary": is_mtol_boundary(T, c, out), "wide_mismatch": is_wide_mismatch(T, c, out)})
    return found


def replay(ctx, rp):
    T = table(ctx)
    case = rp["case"]
    if "history" in case:
        from .. import histseq
        got = histseq.fresh_run("c06", list(case["history"]))       # a fresh interpreter on the same implementation tree
        return {"history_steps": len(case["history"]), "last_step": case["history"][-1], "oracle": got, "fails": bool(got),
                "note": None if got is not None else "the history could not be run"}
    if "input" in case and case.get("via") == "from_arrays":
        c = case["input"]
        cache_clear()
        bad, ref, got = arrays_judge(T, c)
        return {"input": c, "via": "from_arrays", "reconcile_nucleus": ref, "from_arrays": got, "oracle": bad, "fails": bool(bad)}
    if "input" in case:
        c = case["input"]
        cache_clear()
        out = impl_call(c, verbose=case.get("verbose", -1))
        if "verbose" in case:
            ref = impl_call(c, verbose=-1)
            return {"input": c, "implementation": out, "reference": ref, "fails": out != ref}
        bad = oracle(T, c, out) or oracle_feedback(c, out)
        return {"input": c, "implementation": out, "oracle": bad, "fails": bool(bad)}
    if "label" in case:
        out = impl_parse(case["label"])
        bad = label_oracle(case["label"], out)
        return {"label": case["label"], "implementation": out, "oracle": bad, "fails": bool(bad)}
    if "call" in case:
        from qcelemental.molparse import reconcile_nucleus
        import numpy as np
        ns = {"np": np, "numpy": np}                               # the literals may spell values as numpy scalars
        kw, canon = eval(case["call"], dict(ns)), eval(case["canonical"], dict(ns))   # dict literals written by this module
        ref = fresh_eval(canon)
        for step in case.get("prefix", []):
            if step == "cache_clear":
                cache_clear()
            else:
                _run_kw(eval(step, dict(ns)))
        got = _run_kw(kw)
        return {"call": case["call"], "reference": repr(ref), "implementation": repr(got), "fails": ref != got}
    return {"fails": False, "note": "unrecognised replay"}


KNOWN = {
    # narrow: only the feedback failure, only for mtol > 1 u and a returned mass that rounds to another mass number
    "C06-wide-mtol-feedback": lambda f: bool(f.get("wide_mismatch")) and str(f.get("what", "")).startswith("output fed back is not reproduced")
    and "Validation" in str(f.get("what", "")),
}

TRUSTED = [
    "hand-written model coq/Model/Nucleus.v of nucleus.reconcile_nucleus / parse_nucleus_label and of the PeriodicTable lookups it uses, tied by differential execution (this file)",
    "coq/Gen/PTable.v generated from qcelemental/data/nist_2011_atomic_weights.py by harness/translate/ptable.py (fail-closed)",
    "masses are exact rationals in the model; binary64 evaluation in the implementation is compared only on inputs >= 1e-9 from every decision edge (main stream) or by three-point comparison (edge stream)",
    "CPython re (IGNORECASE|VERBOSE), int(), float(), round(), str methods on ASCII, functools.lru_cache: modelled or exercised, not verified",
]
ASSUMPTIONS = [
    "text arguments are ASCII; the E argument consists of letters and digits; A and Z are integers; mass/mtol are finite; real/speclabel/nonphysical are booleans",
    "integer fields of a label have fewer than 4300 digits (CPython int() limit, see C07-int-digit-limit)",
]
TECHNIQUE = "Coq proof over a hand-written Gallina model (induction over clue lists, finite table facts by vm_compute) + differential correspondence against the implementation"
DESIGN_REF = "DESIGN.md §6 C06"
LEVEL_TEXT = (
    "Machine-checked (Coq 8.16.1) theorems about Model/Nucleus.v over the shipped periodic table (regenerated from the data module "
    "on every run), for every combination of clues, every label text and every speclabel/nonphysical/mtol setting: C06_sound "
    "((Z,E) is a table row; every supplied clue incl. each label component agrees; A is -1 or a tabulated nuclide whose mass is the "
    "returned mass or within mtol of it; mass within the element's isotope-mass window +-0.5 unless nonphysical; ghost flag and "
    "lower-cased user tag as given, defaults otherwise), C06_nuclide_key_is_table_row and C06_mass_range_meaning (what 'tabulated "
    "nuclide' and 'physical range' mean in terms of the shipped arrays), C06_default_isotope, C06_fails_closed (only ValidationError / "
    "NotAnElementError), C06_contradiction_rejected (nine contradiction forms), C06_feedback_fixed_point (for every 0 <= mtol <= 1/4, "
    "window edges included since the repair af456dc of the fixed finding C06-mtol-boundary-feedback, whose failing input stays in the "
    "corpus and as a Coq Example), C06_parse_label_spec (parse_label s = Ok f <-> "
    "Label s f: exactly the strings of an inductive label grammar, exactly its fields), C06_label_unambiguous, C06_parse_label_refuses, "
    "C06_parse_label_sound / _complete (the two halves), C06_not_an_element_only_for_unknown_names and "
    "C06_contradiction_is_validation_error (error class: NotAnElementError only when a clue names an element or nuclide that is not "
    "tabulated; contradictions among tabulated names raise ValidationError), C06_history_independent (a Coq model of the lru_cache "
    "wrapper, maxsize 512, exceptions uncached, LRU eviction, cache_clear: every answer in every history equals the uncached answer), "
    "C06_cache_key_must_separate (conversely, for any memo of that shape: history independence forces a call to be identified only "
    "with stored calls of the same answer), C06_every_argument_is_significant (for each of the nine arguments two calls differing in "
    "it only — clue unspecified vs explicit, option flipped — with different outcomes) and C06_cache_key_must_distinguish (so a "
    "history-independent memo keys on all nine arguments). The model is tied to nucleus.py, "
    "regex.py and periodic_table.py on every run by differential execution: every element x random isotope x random clue subsets x "
    "consistent / one conflicting clue x label spellings x settings (exact comparison, masses as decimals), label strings (valid, "
    "near-valid, random over the grammar's alphabet) through parse_nucleus_label vs re, window-edge masses by three-point comparison, "
    "(on the edge, a few ulps and 1e-9..2e-5 either side), and on the implementation alone: the property oracle incl. feedback, a "
    "call-history stream (permuted orders, 1/1.0/True key collisions in the lru_cache, cache_clear on/off, eviction beyond maxsize; "
    "pairs of calls that differ only in one clue (A, Z, E, mass, real, label, parts of a label) or option (speclabel, nonphysical, "
    "mtol, verbose) being unspecified vs explicit — agreeing or contradicting —, an explicit None, a positional spelling, and the same "
    "clues as one-atom from_arrays columns, each pair in both orders on a warm cache, every answer compared with the answer of a "
    "pristine forked process) and a verbose-level stream.")
LEVEL_NOTE = (
    "Clause map (full text at the top of coq/Props/C06.v): table/clue agreement, nuclide-or--1, physical range, ghost/user tag -> "
    "C06_sound (+ _nuclide_key_is_table_row, _mass_range_meaning); default isotope -> C06_default_isotope; contradictions refused -> "
    "C06_contradiction_rejected, class -> C06_contradiction_is_validation_error / C06_not_an_element_only_for_unknown_names / "
    "C06_fails_closed; history independence -> C06_history_independent (model of the cache; its key hypothesis is necessary and "
    "forces all nine arguments into the key: C06_cache_key_must_separate / _every_argument_is_significant / "
    "_cache_key_must_distinguish) + history stream on the implementation (incl. unspecified-vs-explicit pairs); "
    "feedback -> C06_feedback_fixed_point (mtol <= 1/4); label grammar -> C06_parse_label_spec / _label_unambiguous / _refuses. "
    "The cache theorem assumes equal keys denote the same typed call (1 == 1.0 == True collisions are exercised on the "
    "implementation only). "
    "Trusted: Coq kernel + vm_compute; the hand-written model (ASCII text; E argument over letters and digits; integer A/Z; finite "
    "masses as exact rationals — binary64 rounding in the implementation is not modelled, so inputs within 1e-9 of a decision edge are "
    "compared three-point only); harness/translate/ptable.py; CPython re/int/float/round/str and functools.lru_cache are modelled or "
    "exercised, not verified; the correspondence harness harness/props/c06.py. The recogniser is hand-written against the NUCLEUS "
    "pattern (a textual change of the pattern enlarges the label stream; equivalence is by differential testing plus the grammar "
    "theorems, not by translation of the regex). The fixed-point theorem excludes mtol > 1/4 (for such tolerances neighbouring isotopes "
    "overlap and A/mass can be accepted inconsistently, e.g. A=60, Z=27, mtol=2 returns Co-59's mass: known finding "
    "C06-wide-mtol-feedback). No axioms (all theorems closed under the global context).")
