"""C13 — an alignment recipe (AlignmentMill) acts covariantly on coordinates, per-atom arrays, gradients,
Hessians, molecule-attached vectors and their nuclear derivatives; 3x3 blocking of a Hessian is lossless.

* correspondence: Model/Mill.v (run at K = Q by vm_compute) vs qcelemental.models.AlignmentMill and
  qcelemental.util.blockwise_expand/contract on the same inputs.  Stream "exact": the 24 proper rotations
  with dyadic entries (the cube group) and data in multiples of 1/8, so every binary64 operation of the
  implementation is exact and results are compared with tolerance 0.  Stream "rational": proper rotations
  built from integer quaternions (entries k/N: the model is given the exact rationals, the implementation their
  nearest doubles) compared with absolute tolerance 1e-10.  Index-error behaviour of ill-formed atom maps
  is compared as well.
* property oracle on the implementation: analytic pair energies (Coulomb-like c/r, harmonic k (r-r0)^2)
  with random couplings plus, from 3 atoms on, three-body terms c r_ij r_jk (their off-diagonal 3x3 Hessian
  blocks are not symmetric, unlike those of pair potentials), closed-form gradients and Hessians; the couplings are carried along the atom
  map; energy, gradient and Hessian at the aligned geometry must equal the aligned quantities; a
  translation-invariant, rotation-covariant vector field with closed-form Jacobian for align_vector /
  align_vector_gradient (recipes without mirror); per-atom arrays; inverse recipe; blocking round trip.
  Discipline "retain, then judge": per case everything is first sent through the recipes (first geometry, a second
  geometry and a second set of couplings through the same live recipe object, the first geometry through the inverse
  recipe = another recipe object for the same number of atoms) and the arrays are kept exactly as returned; only then
  are they compared - a result that a later call overwrote (shared work array) is seen.  Arrays are handed over
  C-ordered, Fortran-ordered or as strided windows (not the Hessian: blockwise_expand asserts contiguity); in half of
  the cases the caller's buffers are overwritten after each call (a result must not be a live view of its argument).
  Coupling strengths are spread over the decades 1, 1e-3, 1e-6, 1e-9, 1e-12 (per case) and gradient, Hessian, vector and
  vector derivatives are judged with a RELATIVE tolerance (1e-9 of the largest entry; the transforms are linear in what they
  are given, the unchanged code stays below 1e-13): an absolute threshold inside a transform is seen on the weak fields.
  Stream "oracle-forms": every align_* method is handed its argument as an ndarray, as nested lists, as nested tuples and as a
  list of per-row arrays; align_atoms gets per-atom arrays of rank 1, 2 and 3 (float / int / str).  The ndarray must be transformed
  as stated (row k of an aligned per-atom array is row atommap[k]); a plain sequence may be refused (any exception) but, if it is
  accepted, must give the answer for the array it spells; no argument may be modified.
"""
import math
from fractions import Fraction

import numpy as np

from .. import coqrun
from ..core import Corr
from ..coqrun import cz, cnat, clist, cbool, cq
from ..translate import millgen as millgen_tr

PID = "C13"
ALLOWED_AXIOMS = {
    "ClassicalDedekindReals.sig_forall_dec",
    "ClassicalDedekindReals.sig_not_dec",
    "FunctionalExtensionality.functional_extensionality_dep",
}
TRUSTED = [
    "translator harness/translate/millgen.py (Python ast -> let-chains over the array combinators of Model/MillOps.v and the loop / "
    "slice-store combinators of Model/MillLoop.v, fail-closed) for the bodies of AlignmentMill.align_coordinates/align_atoms/"
    "align_vector/align_gradient/align_hessian and the whole of align_vector_gradient (per-atom block and atom loop); the generated "
    "functions are PROVED equal to the hand-written model (C13_translated_*)",
    "hand-written model coq/Model/Mill.v (AlignmentMill) and coq/Model/Blockwise.v (util/np_blockwise.py, any 2-d block shape), "
    "tied by differential execution at K = Q (this file); np_blockwise is tied by differential execution only",
    "numpy semantics used by the code and transcribed into the model: ndarray.dot, fancy indexing arr[idx] / np.ix_, "
    "in-place column scaling, as_strided with the stated strides, reshape/swapaxes in C order (modelled, not verified)",
    "binary64 arithmetic of the implementation is compared with the exact rational model: exactly on dyadic inputs "
    "(cube-group rotations), within 1e-10 absolute on rational rotations",
    "the closed-form gradients/Hessians/Jacobians of the test energies and vector field in this file (oracle side)",
]
ASSUMPTIONS = [
    "atommap entries are non-negative (numpy's negative-index wrap-around is outside the model and the generators)",
    "Hessians are square (3n,3n) C-contiguous float arrays; vector-derivative input is three rows of length 3n",
    "theorems about covariance assume a well-formed recipe: atommap a permutation of 0..n-1; orthogonality of the "
    "rotation is assumed only where stated (L_orthogonal, inverse recipe, invariant-energy theorems)",
]
EXTRA_TARGETS = ["Model/Mill.vo", "Model/Blockwise.vo"]
REQ = ["QV.Common.Outcome", "QV.Common.AlignAlg", "QV.Model.Mill"]
REQB = REQ + ["QV.Model.Blockwise"]


def translate(ctx):
    millgen_tr.generate(ctx.repo)


# ---------------------------------------------------------------------------------------------
# generators

CUBE_Q = None


def cube_quaternions():
    """integer quaternions whose norm is 1, 2 or 4: the 24 proper rotations with entries in {0,+-1}"""
    global CUBE_Q
    if CUBE_Q is None:
        out, seen = [], set()
        import itertools
        for q in itertools.product((-1, 0, 1), repeat=4):
            n = sum(c * c for c in q)
            if n in (1, 2, 4):
                R = quat_to_rot_fr(q)
                key = tuple(map(tuple, R))
                if key not in seen:
                    seen.add(key)
                    out.append(q)
        assert len(out) == 24
        CUBE_Q = out
    return CUBE_Q


def quat_to_rot_fr(q):
    """exact rational proper rotation of an integer quaternion (independent of the implementation's formula
    conventions: this is just *a* proper rotation used as input data)"""
    a, b, c, d = q
    n = a * a + b * b + c * c + d * d
    M = [[a * a + b * b - c * c - d * d, 2 * (b * c - a * d), 2 * (b * d + a * c)],
         [2 * (b * c + a * d), a * a - b * b + c * c - d * d, 2 * (c * d - a * b)],
         [2 * (b * d - a * c), 2 * (c * d + a * b), a * a - b * b - c * c + d * d]]
    return [[Fraction(x, n) for x in row] for row in M]


def rand_perm(rng, n):
    p = list(range(n))
    rng.shuffle(p)
    return p


def eighth(rng, lo=-8, hi=8):
    return rng.randint(lo * 8, hi * 8) / 8.0


def gen_mill(rng, n, exact, illformed=False):
    if exact:
        q = rng.choice(cube_quaternions())
    else:
        for _ in range(1000):
            q = tuple(rng.randint(-4, 4) for _ in range(4))
            if any(q):
                break
        else:
            q = (1, 0, 0, 0)
    rot_fr = quat_to_rot_fr(q)
    rot = [[float(x) for x in row] for row in rot_fr]
    shift = [eighth(rng, -10, 10) for _ in range(3)]
    p = rand_perm(rng, n)
    if illformed:
        k = rng.choice(["short", "long", "oob", "dup"])
        if k == "short" and n > 1:
            p = p[:-1]
        elif k == "long":
            p = p + [rng.randrange(n + 1)]
        elif k == "oob":
            p[rng.randrange(n)] = n + rng.randrange(3)
        else:
            p[rng.randrange(n)] = rng.randrange(n)
    return {"shift": shift, "rotation": rot, "atommap": p, "mirror": rng.random() < 0.5,
            "rotation_exact": [[[x.numerator, x.denominator] for x in row] for row in rot_fr]}


def mk_mill(md):
    from qcelemental.models import AlignmentMill
    return AlignmentMill(shift=np.array(md["shift"], dtype=float), rotation=np.array(md["rotation"], dtype=float),
                         atommap=np.array(md["atommap"], dtype=int), mirror=bool(md["mirror"]))


# ---------------------------------------------------------------------------------------------
# rendering to Gallina

def fq(x):
    return cq(Fraction(float(x)))


def cvec(v):
    return "(" + ", ".join(fq(x) for x in v) + ")"


def cmill(md):
    # the model is given the exact rational rotation k/N; the implementation its nearest doubles
    r = [["%s" % cq(Fraction(a, b)) for a, b in row] for row in md["rotation_exact"]]
    cv = lambda row: "(" + ", ".join(row) + ")"
    return "(Build_mill Q %s (%s, %s, %s) %s %s)" % (cvec(md["shift"]), cv(r[0]), cv(r[1]), cv(r[2]),
                                                     clist(md["atommap"], cnat), cbool(md["mirror"]))


EK = {"IndexError": "PyIndexError", "ValueError": "PyValueError"}


def cout(res, render):
    if res[0] == "Ok":
        return "(Ok %s)" % render(res[1])
    return "(Err %s)" % EK.get(res[1], "PyAssertion")


def call(f, *a, **k):
    try:
        return ("Ok", f(*a, **k))
    except Exception as e:  # the class is compared with the model's
        return ("Err", type(e).__name__)


def arr2(a):
    return [[float(x) for x in row] for row in np.asarray(a)]


def build_case(rng, kind, exact):
    """returns (case_dict, gallina_term)"""
    tol = 0.0 if exact else 1e-10
    ctol = cq(Fraction(0) if exact else Fraction(1, 10 ** 10))
    n = rng.choice([1, 2, 2, 3, 3, 4, 5, 6, 7, 8, 9, 10])
    ill = rng.random() < 0.12
    case = {"kind": kind, "exact": exact, "tol": tol}
    if kind in ("coords_f", "coords_r", "grad"):
        md = gen_mill(rng, n, exact, ill)
        x = [[eighth(rng) for _ in range(3)] for _ in range(n)]
        m = mk_mill(md)
        if kind == "grad":
            res = call(lambda: arr2(m.align_gradient(np.array(x))))
            term = "CGrad %s %s %s %s" % (ctol, cmill(md), clist(x, cvec), cout(res, lambda r: clist(r, cvec)))
        else:
            rev = kind == "coords_r"
            res = call(lambda: arr2(m.align_coordinates(np.array(x), reverse=rev)))
            term = "CCoords %s %s %s %s %s" % (ctol, cmill(md), cbool(rev), clist(x, cvec), cout(res, lambda r: clist(r, cvec)))
        case.update(mill=md, x=x, impl=res)
    elif kind == "atoms":
        md = gen_mill(rng, n, True, ill)
        a = [rng.randint(-5, 120) for _ in range(n)]
        res = call(lambda: [int(v) for v in mk_mill(md).align_atoms(np.array(a))])
        term = "CAtoms %s %s %s" % (cmill(md), clist(a, cz), cout(res, lambda r: clist(r, cz)))
        case.update(mill=md, x=a, impl=res)
    elif kind == "vector":
        md = gen_mill(rng, n, exact)
        v = [eighth(rng) for _ in range(3)]
        out = [float(t) for t in mk_mill(md).align_vector(np.array(v))]
        term = "CVector %s %s %s %s" % (ctol, cmill(md), cvec(v), cvec(out))
        case.update(mill=md, x=v, impl=("Ok", out))
    elif kind == "hess":
        n = rng.choice([1, 2, 2, 3, 3, 4, 5, 7, 10]) if rng.random() < 0.8 else rng.choice([1, 2, 3])
        md = gen_mill(rng, n, exact, ill)
        H = [[eighth(rng, -4, 4) for _ in range(3 * n)] for _ in range(3 * n)]
        res = call(lambda: [float(t) for t in np.asarray(mk_mill(md).align_hessian(np.array(H))).reshape(-1)])
        term = "CHess %s %s %s %s %s" % (ctol, cmill(md), cnat(n), clist([t for r in H for t in r], fq),
                                         cout(res, lambda r: clist(r, fq)))
        case.update(mill=md, x=H, impl=res)
    elif kind == "vecgrad":
        md = gen_mill(rng, n, exact, ill)
        mu = [[eighth(rng, -4, 4) for _ in range(3 * n)] for _ in range(3)]
        res = call(lambda: arr2(mk_mill(md).align_vector_gradient(np.array(mu))))
        ren = lambda r: "(" + ", ".join(clist(row, fq) for row in r) + ")"
        term = "CVecGrad %s %s %s %s" % (ctol, cmill(md), ren(mu), cout(res, ren))
        case.update(mill=md, x=mu, impl=res)
    elif kind == "expand":
        from qcelemental.util import blockwise_expand
        gr, gc = (n, n) if rng.random() < 0.6 else (rng.randint(1, 6), rng.randint(1, 6))
        H = [[float(rng.randint(-99, 99)) for _ in range(3 * gc)] for _ in range(3 * gr)]
        view = blockwise_expand(np.array(H), (3, 3), False)
        assert view.shape == (gr, gc, 3, 3)
        out = [float(t) for t in np.array(view).reshape(-1)]
        term = "CExpand %s %s %s %s" % (cnat(gr), cnat(gc), clist([t for r in H for t in r], fq), clist(out, fq))
        case.update(x=H, impl=("Ok", out))
    elif kind == "contract":
        from qcelemental.util import blockwise_contract
        gr, gc = (n, n) if rng.random() < 0.6 else (rng.randint(1, 6), rng.randint(1, 6))
        B = [float(rng.randint(-99, 99)) for _ in range(gr * gc * 9)]
        out = [float(t) for t in blockwise_contract(np.array(B).reshape(gr, gc, 3, 3)).reshape(-1)]
        term = "CContract %s %s %s %s" % (cnat(gr), cnat(gc), clist(B, fq), clist(out, fq))
        case.update(x=B, shape=[gr, gc], impl=("Ok", out))
    else:
        raise AssertionError(kind)
    return case, "(" + term + ")"


KINDS = ["coords_f", "coords_r", "grad", "atoms", "vector", "hess", "vecgrad", "expand", "contract"]


def build_bcase(rng, k):
    """blockwise_expand / blockwise_contract on 2-d arrays with ANY block shape (Model/Blockwise.v): aligned and
    unaligned shapes, require_aligned_blocks on/off (AssertionError when on and the blocks do not divide the shape)"""
    from qcelemental.util import blockwise_expand, blockwise_contract
    br, bc = rng.choice([1, 2, 3, 3, 4, 5]), rng.choice([1, 2, 3, 3, 4, 5])
    if k % 2 == 0:
        aligned_shape = rng.random() < 0.5
        if aligned_shape:
            h, w = br * rng.randint(1, 4), bc * rng.randint(1, 4)
        else:
            h, w = rng.randint(1, 13), rng.randint(1, 13)
        al = rng.random() < 0.5
        H = [[float(rng.randint(-99, 99)) for _ in range(w)] for _ in range(h)]
        a = np.array(H)
        keep = a.copy()
        try:
            view = blockwise_expand(a, (br, bc), False, al) if rng.random() < 0.5 else blockwise_expand(a, (br, bc), require_aligned_blocks=al)
            blockwise_expand(1.0 - a, (br, bc), False, al)          # another array of the same shape, before the first view is read
            shape_ok = view.shape == (h // br, w // bc, br, bc)
            res = ("Ok", [float(t) for t in np.array(view).reshape(-1)]) if shape_ok else ("Err", "shape %s" % (view.shape,))
        except AssertionError:
            res = ("Err", "AssertionError")
        except Exception as e:
            res = ("Err", type(e).__name__)
        out = "(Ok %s)" % clist(res[1], fq) if res[0] == "Ok" else "(Err %s)" % ("PyAssertion" if res[1] == "AssertionError" else "PyTypeError")
        term = "(BExpand %s %s %s %s %s %s %s)" % (cnat(h), cnat(w), cnat(br), cnat(bc), cbool(al), clist([t for r in H for t in r], fq), out)
        case = {"kind": "bexpand", "shape": [h, w], "block": [br, bc], "require_aligned_blocks": al, "x": H, "impl": res,
                "input_unchanged": bool(np.array_equal(a, keep))}
        # the property on the implementation: blocking and un-blocking gives back the covered (top-left) part
        if res[0] == "Ok" and al and (h % br or w % bc):
            case["oracle"] = ("blockwise_expand(require_aligned_blocks=True) accepted a shape that the block shape does not divide "
                              "(rows/columns are silently dropped, un-blocking is no longer lossless)", {"view_shape": list(view.shape)})
        elif res[0] == "Ok":
            try:
                back = blockwise_contract(np.array(view)) if view.size else None
                want = keep[:(h // br) * br, :(w // bc) * bc]
                if back is not None and not (back.shape == want.shape and np.array_equal(back, want)):
                    case["oracle"] = ("blockwise_contract(blockwise_expand(a, (%d, %d))) is not the array it was made from" % (br, bc),
                                      {"shape_back": list(back.shape), "shape_expected": list(want.shape)})
            except Exception as e:
                case["oracle"] = ("blockwise_contract raised %s on a view made by blockwise_expand" % type(e).__name__, {"error": str(e)})
        elif res[1] == "AssertionError" and not (al and (h % br or w % bc)):
            case["oracle"] = ("blockwise_expand refused a shape that its block shape divides (or alignment was not required)", {})
        elif res[1] != "AssertionError":
            case["oracle"] = ("blockwise_expand raised %s" % res[1], {})
    else:
        gr, gc = rng.randint(1, 4), rng.randint(1, 4)
        B = [float(rng.randint(-99, 99)) for _ in range(gr * gc * br * bc)]
        case = {"kind": "bcontract", "shape": [gr, gc], "block": [br, bc], "x": B}
        try:
            arr = blockwise_contract(np.array(B).reshape(gr, gc, br, bc))
            blockwise_contract(1.0 - np.array(B).reshape(gr, gc, br, bc))   # another array of the same shape, before the first result is read
            out = [float(t) for t in arr.reshape(-1)]
            if arr.shape != (gr * br, gc * bc):
                case["oracle"] = ("blockwise_contract of a (%d,%d,%d,%d) array has shape %s, not (%d,%d)" % (gr, gc, br, bc, arr.shape, gr * br, gc * bc), {})
        except Exception as e:
            out = []
            case["oracle"] = ("blockwise_contract raised %s on a well-formed 4-index array" % type(e).__name__, {"error": str(e)})
        term = "(BContract %s %s %s %s %s %s)" % (cnat(gr), cnat(gc), cnat(br), cnat(bc), clist(B, fq), clist(out, fq))
        case["impl"] = ("Ok", out) if "oracle" not in case else ("Err", case["oracle"][0])
    return case, term

# ---------------------------------------------------------------------------------------------
# the property oracle on the implementation


def pair_energy(kind, x, c, r0):
    """E = sum_{i>j} f_ij(r_ij); closed-form gradient (n,3) and Hessian (3n,3n).
    coulomb: f = c/r ; harmonic: f = c (r - r0)^2"""
    n = len(x)
    E = 0.0
    g = np.zeros((n, 3))
    H = np.zeros((3 * n, 3 * n))
    I3 = np.eye(3)
    for i in range(n):
        for j in range(i):
            d = x[i] - x[j]
            r = math.sqrt(float(d @ d))
            if kind == "coulomb":
                f0, f1, f2 = c[i, j] / r, -c[i, j] / r ** 2, 2 * c[i, j] / r ** 3
            else:
                f0, f1, f2 = c[i, j] * (r - r0[i, j]) ** 2, 2 * c[i, j] * (r - r0[i, j]), 2 * c[i, j]
            u = d / r
            uu = np.outer(u, u)
            gi = f1 * u
            hb = f2 * uu + (f1 / r) * (I3 - uu)
            E += f0
            g[i] += gi
            g[j] -= gi
            si, sj = slice(3 * i, 3 * i + 3), slice(3 * j, 3 * j + 3)
            H[si, si] += hb
            H[sj, sj] += hb
            H[si, sj] -= hb
            H[sj, si] -= hb
    return E, g, H


def three_body(x, triples):
    """E = sum_t c_t r_ij r_jk over the listed triples (i,j,k,c): a rigid-motion invariant energy whose
    off-diagonal 3x3 Hessian blocks are not symmetric (pair potentials only have symmetric blocks).
    Closed form by the product rule from the gradient/Hessian of a single distance."""
    n = len(x)
    E = 0.0
    g = np.zeros(3 * n)
    H = np.zeros((3 * n, 3 * n))

    def dist(i, j):
        d = x[i] - x[j]
        r = math.sqrt(float(d @ d))
        u = d / r
        gg = np.zeros(3 * n)
        gg[3 * i:3 * i + 3] = u
        gg[3 * j:3 * j + 3] = -u
        hb = (np.eye(3) - np.outer(u, u)) / r
        hh = np.zeros((3 * n, 3 * n))
        si, sj = slice(3 * i, 3 * i + 3), slice(3 * j, 3 * j + 3)
        hh[si, si] = hb
        hh[sj, sj] = hb
        hh[si, sj] = -hb
        hh[sj, si] = -hb
        return r, gg, hh

    for (i, j, k, c) in triples:
        a, ga, ha = dist(int(i), int(j))
        b, gb, hb_ = dist(int(j), int(k))
        E += c * a * b
        g += c * (a * gb + b * ga)
        H += c * (a * hb_ + b * ha + np.outer(ga, gb) + np.outer(gb, ga))
    return E, g.reshape(n, 3), H


def total_energy(case, x, c, r0, triples):
    E, g, H = pair_energy(case["energy"], x, c, r0)
    if triples:
        E3, g3, H3 = three_body(x, triples)
        E, g, H = E + E3, g + g3, H + H3
    return E, g, H


def cross_mat(v):
    """[v]x : [v]x u = v x u"""
    return np.array([[0.0, -v[2], v[1]], [v[2], 0.0, -v[0]], [-v[1], v[0], 0.0]])


def vector_field(fk, x, w, triples=()):
    """mu = sum_{i>j} w_ij f(r_ij) (x_i - x_j), w antisymmetric; f = 1/r^3 or r^2; plus, over the listed triples
    (i,j,k,c), c (x_i - x_j) x (x_j - x_k): translation invariant, covariant under proper rotations, and with
    per-atom Jacobian blocks that are NOT symmetric (those of the pair terms are).  Jacobian J[a, 3k+b]."""
    n = len(x)
    mu = np.zeros(3)
    J = np.zeros((3, 3 * n))
    for i in range(n):
        for j in range(i):
            d = x[i] - x[j]
            r = math.sqrt(float(d @ d))
            if fk == "invcube":
                f0, f1 = 1 / r ** 3, -3 / r ** 4
            else:
                f0, f1 = r * r, 2 * r
            mu += w[i, j] * f0 * d
            blk = w[i, j] * (f1 / r * np.outer(d, d) + f0 * np.eye(3))
            J[:, 3 * i:3 * i + 3] += blk
            J[:, 3 * j:3 * j + 3] -= blk
    for (i, j, k, c) in triples:
        i, j, k = int(i), int(j), int(k)
        a, b = x[i] - x[j], x[j] - x[k]
        mu += c * np.cross(a, b)
        da, db = -c * cross_mat(b), c * cross_mat(a)          # d(a x b)/da = -[b]x ; d(a x b)/db = [a]x
        J[:, 3 * i:3 * i + 3] += da
        J[:, 3 * j:3 * j + 3] += db - da
        J[:, 3 * k:3 * k + 3] -= db
    return mu, J


def rand_geometry(rng, n):
    box = 1.5 + 0.6 * n ** (1 / 3) * 1.2
    for _ in range(200):
        pts = []
        tries = 0
        while len(pts) < n and tries < 2000:
            tries += 1
            c = np.array([rng.uniform(-box, box) for _ in range(3)])
            if all(np.linalg.norm(c - p) > 0.6 for p in pts):
                pts.append(c)
        if len(pts) == n:
            return np.array(pts)
    return np.array([[1.0 * k, 0.75 * (k % 3), 0.5 * (k % 2)] for k in range(n)])      # (never reached in practice)


def rand_rotation(rng):
    for _ in range(1000):
        q = np.array([rng.gauss(0, 1) for _ in range(4)])
        nn = float(q @ q)
        if nn > 1e-3:
            break
    else:
        q, nn = np.array([1.0, 0.0, 0.0, 0.0]), 1.0
    q = q / math.sqrt(nn)
    a, b, c, d = q
    return np.array([[a * a + b * b - c * c - d * d, 2 * (b * c - a * d), 2 * (b * d + a * c)],
                     [2 * (b * c + a * d), a * a - b * b + c * c - d * d, 2 * (c * d - a * b)],
                     [2 * (b * d - a * c), 2 * (c * d + a * b), a * a - b * b - c * c + d * d]])


def gen_oracle_case(rng, mill=None, n=None, opts=None):
    """opts = (rotation style, shift zero?, identity map?, mirror) forces one cell of the option product"""
    if mill is None:
        n = n or rng.randint(1, 10)
        style = rng.random()
        if opts is not None:
            style = {"random": 0.0, "cube": 0.8, "identity": 0.9}[opts[0]]
        if style < 0.7:
            rot = rand_rotation(rng)
        elif style < 0.85:
            rot = np.array([[float(t) for t in row] for row in quat_to_rot_fr(rng.choice(cube_quaternions()))])
        else:
            rot = np.eye(3)
        zero_shift = rng.random() >= 0.9 if opts is None else opts[1]
        ident_map = rng.random() >= 0.9 if opts is None else opts[2]
        shift = [0.0, 0.0, 0.0] if zero_shift else [rng.uniform(-10, 10) for _ in range(3)]
        p = list(range(n)) if ident_map else rand_perm(rng, n)
        if opts is not None and not ident_map and n >= 3:
            for _ in range(500):                                              # a map that is not its own inverse
                if not (sorted(p) == p or [p[k] for k in p] == list(range(n))):
                    break
                p = rand_perm(rng, n)
            else:
                p = list(range(1, n)) + [0]
        mirror = rng.random() < 0.5 if opts is None else opts[3]
        mill = {"shift": shift, "rotation": rot.tolist(), "atommap": p, "mirror": mirror}
    n = len(mill["atommap"])
    x = rand_geometry(rng, n)
    sym = lambda a: (a + a.T) / 2
    c = sym(np.array([[rng.uniform(-2, 2) for _ in range(n)] for _ in range(n)]))
    r0 = sym(np.array([[rng.uniform(0.5, 3) for _ in range(n)] for _ in range(n)]))
    w = np.array([[rng.uniform(-2, 2) for _ in range(n)] for _ in range(n)])
    w = (w - w.T) / 2
    triples = []
    if n >= 3:
        for _ in range(rng.randint(1, 5)):
            i, j, k = rng.sample(range(n), 3)
            triples.append([i, j, k, rng.uniform(-1, 1)])
    return {"mill": mill, "x": x.tolist(), "c": c.tolist(), "r0": r0.tolist(), "w": w.tolist(), "triples": triples,
            "energy": rng.choice(["coulomb", "harmonic"]), "field": rng.choice(["invcube", "square"]),
            "reuse_buffers": rng.random() < 0.5, "layout": rng.choice(["C", "C", "F", "view"]),
            "strength": rng.choice([1.0, 1.0, 1e-3, 1e-6, 1e-9, 1e-12])}


def close(a, b, rtol=1e-9):
    a, b = np.asarray(a, dtype=float), np.asarray(b, dtype=float)
    if a.shape != b.shape:
        return False
    scale = 1.0 + max(float(np.max(np.abs(a))) if a.size else 0.0, float(np.max(np.abs(b))) if b.size else 0.0)
    return bool(np.all(np.abs(a - b) <= rtol * scale))


def rclose(a, b, rtol=1e-9):
    """RELATIVE comparison in the max norm: |a - b| <= rtol * max(|a|, |b|) entrywise against the largest entry of the pair.
    The transforms are linear in the quantity they are given, so the unchanged code keeps a relative error ~1e-15 whatever the
    coupling strength (1 ... 1e-12); an absolute threshold anywhere in the transform (entries below some epsilon dropped or
    rounded) shows up for the weak fields."""
    a, b = np.asarray(a, dtype=float), np.asarray(b, dtype=float)
    if a.shape != b.shape:
        return False
    scale = max(float(np.max(np.abs(a))) if a.size else 0.0, float(np.max(np.abs(b))) if b.size else 0.0)
    return bool(np.all(np.abs(a - b) <= rtol * scale))


class Bad(Exception):
    def __init__(self, what, observed=None):
        self.what, self.observed = what, observed or {}


def pure(f, a, what, reuse=False, layout="C", **kw):
    """call f on a private copy of the caller's array; the array must come back unchanged (an in-place update of the
    caller's data makes every later use of it - e.g. aligning it again - wrong).  With reuse=True the caller then re-uses
    its buffer for something else (it is overwritten): the result that was returned must not depend on it any more."""
    arr = np.array(a, copy=True)
    if layout == "F":                       # the same numbers, Fortran-ordered
        arr = np.asfortranarray(arr)
    elif layout == "view" and arr.ndim == 2:  # ... or a strided window into a larger array
        big = np.full((2 * arr.shape[0], arr.shape[1] + 2), 3.25)
        big[::2, 1:-1] = arr
        arr = big[::2, 1:-1]
    elif layout == "view":
        big = np.full(2 * arr.shape[0] + 1, 3.25)
        big[1::2] = arr
        arr = big[1::2]
    res = f(arr, **kw)
    if not np.array_equal(arr, np.asarray(a)):
        raise Bad(what + " modified the array it was given (aligning the same data again gives another result)",
                  {"max_abs_change": float(np.max(np.abs(arr - np.asarray(a))))})
    if reuse:
        arr[...] = -77.25
    return res


LATER = " [result kept while other data went through align_* methods, then compared]"


def transform(m, md, case, x, tag="", scale=1.0):
    """Send everything attached to the molecule at geometry x through the live recipe object m and RETAIN the arrays
    exactly as they were returned (no copies): energy/gradient/Hessian of the test energy, the vector field and its
    Jacobian (couplings multiplied by `scale`: another field), per-atom labels.  Nothing is compared here - judge() does that
    after further calls have been made, as a caller who transforms several quantities before consuming them would."""
    p = list(md["atommap"])
    n = len(p)
    reuse = bool(case.get("reuse_buffers"))
    lay = case.get("layout", "C")           # memory layout of the arrays handed over (the Hessian stays C-contiguous: blockwise_expand
    #                                         documents and asserts that it only accepts contiguous arrays)
    c, r0, w = (np.array(case[k], dtype=float) for k in ("c", "r0", "w"))
    scale = scale * float(case.get("strength", 1.0))      # coupling strength of this case: 1, 1e-3, ... 1e-12 (everything is linear in it)
    c, w = c * scale, w * scale
    triples = [(i, j, k, cc * scale) for (i, j, k, cc) in (tuple(t) for t in case.get("triples", []))]
    E, g, H = total_energy(case, x, c, r0, triples)
    out = {"tag": tag, "md": md, "x": np.array(x, copy=True), "c": c, "r0": r0, "w": w, "triples": triples, "E": E, "H": H, "scale": scale}
    out["y"] = pure(m.align_coordinates, x, tag + "align_coordinates", reuse, lay)
    out["ag"] = pure(m.align_gradient, g, tag + "align_gradient", reuse, lay)
    out["ah"] = pure(m.align_hessian, H, tag + "align_hessian", reuse)
    out["labels"] = np.array(["%s%d" % (tag[:1] or "A", k) for k in range(n)])
    out["alabels"] = m.align_atoms(out["labels"])
    if not md["mirror"]:
        mu, J = vector_field(case["field"], x, w, triples)
        out["av"] = pure(m.align_vector, mu, tag + "align_vector", reuse, lay)
        out["aj"] = pure(m.align_vector_gradient, J, tag + "align_vector_gradient", reuse, lay)
    return out


def judge(case, t):
    """covariance of what transform() retained: the aligned quantities must be the quantities at the aligned geometry"""
    md, x, tag = t["md"], t["x"], t["tag"]
    p = list(md["atommap"])
    n = len(p)
    c, r0, w, triples = t["c"], t["r0"], t["w"], t["triples"]
    ix = np.ix_(p, p)
    y = t["y"]
    if np.asarray(y).shape != (n, 3):
        raise Bad(tag + "aligned geometry has the wrong shape", {"shape": list(np.asarray(y).shape)})
    # the recipe is the stated rigid motion, atom by atom
    S = np.diag([1.0, -1.0 if md["mirror"] else 1.0, 1.0])
    R = np.array(md["rotation"], dtype=float)
    for i in range(n):
        ref = ((S @ x[p[i]]) - np.array(md["shift"])) @ R
        if not close(y[i], ref):
            raise Bad(tag + "aligned atom %d is not (mirror, -shift, .rotation) of atom atommap[%d]" % (i, i) + LATER,
                      {"got": list(map(float, y[i])), "expected": ref.tolist()})
    if list(t["alabels"]) != [t["labels"][k] for k in p]:
        raise Bad(tag + "align_atoms does not permute per-atom arrays by atommap" + LATER, {"got": [str(s) for s in t["alabels"]]})
    # invariant energy: value, gradient, Hessian at the aligned geometry
    q = [p.index(k) for k in range(n)]          # atom k of x is atom q[k] of the aligned geometry
    tq = [(q[i], q[j], q[k], cc) for (i, j, k, cc) in triples]
    E2, g2, H2 = total_energy(case, np.asarray(y, dtype=float), c[ix], r0[ix], tq)
    # (the energy never passes through the implementation - it tests that the aligned geometry is a rigid motion of the original;
    #  its terms cancel, so it is compared in units of the coupling strength with the absolute-plus-relative rule of close())
    if not close(t["E"] / abs(t["scale"]), E2 / abs(t["scale"])):
        raise Bad(tag + "energy not invariant under the recipe's rigid motion", {"E": t["E"], "E_aligned": E2})
    ag = t["ag"]
    if not rclose(ag, g2):
        raise Bad(tag + "gradient at aligned geometry != aligned gradient" + LATER, {"aligned": np.asarray(ag).tolist(), "at_aligned": g2.tolist()})
    ah = t["ah"]
    if not rclose(ah, H2):
        k = int(np.argmax(np.abs(np.asarray(ah) - H2))) if np.asarray(ah).shape == H2.shape else -1
        raise Bad(tag + "Hessian at aligned geometry != aligned Hessian" + LATER,
                  {"worst_flat_index": k, "max_abs_diff": float(np.max(np.abs(np.asarray(ah) - H2))) if k >= 0 else None})
    # molecule-attached vector and its nuclear derivatives (recipes without mirror)
    if not md["mirror"]:
        mu2, J2 = vector_field(case["field"], np.asarray(y, dtype=float), w[ix], tq)
        av = t["av"]
        if not rclose(av, mu2):
            raise Bad(tag + "vector at aligned geometry != aligned vector" + LATER, {"aligned": np.asarray(av).tolist(), "at_aligned": mu2.tolist()})
        aj = t["aj"]
        if not rclose(aj, J2):
            raise Bad(tag + "vector derivatives at aligned geometry != aligned vector derivatives" + LATER,
                      {"max_abs_diff": float(np.max(np.abs(np.asarray(aj) - J2))) if np.asarray(aj).shape == J2.shape else None})


def oracle(case):
    """Evaluate the property on the implementation for one oracle case. Returns None or (what, observed).
    Discipline: first everything is transformed and the returned arrays are retained (first geometry, a second geometry and a
    second set of couplings through the same live recipe object, the first geometry through ANOTHER recipe for the same number
    of atoms), only then is anything judged - a result that a later call changed behind the caller's back is thereby seen."""
    from qcelemental.util import blockwise_expand, blockwise_contract
    md = case["mill"]
    m = mk_mill(md)
    p = list(md["atommap"])
    n = len(p)
    x = np.array(case["x"], dtype=float)
    R = np.array(md["rotation"], dtype=float)
    q = [p.index(k) for k in range(n)]
    try:
        first = transform(m, md, case, x)
        y, H = first["y"], first["H"]
        labels = np.array(["A%d" % k for k in range(n)])
        masses = np.array([1.0 + 0.25 * k for k in range(n)])
        al_labels, al_masses = m.align_atoms(labels), m.align_atoms(masses)
        sysres = m.align_system(x, masses, labels, np.arange(n), labels)
        mini = m.align_mini_system(x, labels)
        rsys = m.align_mini_system(x, labels, reverse=True)
        rev = pure(m.align_coordinates, x, "align_coordinates(reverse=True)", reverse=True)
        # the same live recipe object applied to a second geometry (uniformly stretched and displaced: other energy,
        # gradient, Hessian) and to other couplings (another field at the first geometry)
        second = transform(m, md, case, 1.25 * x + 0.375, tag="second geometry through the same recipe object: ")
        third = transform(m, md, case, x, tag="other couplings through the same recipe object: ", scale=-0.625)
        # another recipe for the same number of atoms: the inverse one (shift, rotation.T, inverse map, mirror)
        mdinv = {"shift": md["shift"], "rotation": R.T.tolist(), "atommap": q, "mirror": md["mirror"]}
        minv = mk_mill(mdinv)
        fourth = transform(minv, mdinv, case, x, tag="inverse recipe (another recipe object, same number of atoms): ")
        back = minv.align_coordinates(rev)
        # ---- nothing was compared so far; now judge, oldest result first
        for t in (first, second, third, fourth):
            judge(case, t)
        # per-atom arrays follow the same map
        if list(al_labels) != [labels[k] for k in p] or list(al_masses) != [masses[k] for k in p]:
            raise Bad("align_atoms does not permute per-atom arrays by atommap", {"got": [str(s) for s in al_labels]})
        if not (np.array_equal(sysres[0], y) and list(sysres[1]) == [masses[k] for k in p] and list(sysres[2]) == [labels[k] for k in p]
                and list(sysres[3]) == p and list(sysres[4]) == [labels[k] for k in p]):
            raise Bad("align_system disagrees with align_coordinates/align_atoms")
        if not (np.array_equal(mini[0], y) and list(mini[1]) == [labels[k] for k in p]):
            raise Bad("align_mini_system disagrees with align_coordinates/align_atoms")
        # blocking round trip (exact: no arithmetic involved)
        if not np.array_equal(blockwise_contract(blockwise_expand(H, (3, 3), False)), H):
            raise Bad("blockwise_contract(blockwise_expand(H)) != H")
        # inverse recipe: forward of (shift, rotation.T, inverse map, mirror) undoes reverse of the recipe
        if not close(back, x):
            raise Bad("forward transform of the inverse recipe does not undo the reverse transform", {"got": np.asarray(back).tolist()})
        if not np.array_equal(rsys[0], m.align_coordinates(x, reverse=True)) or not np.array_equal(rsys[0], rev):
            raise Bad("align_mini_system(reverse=True) disagrees with align_coordinates(reverse=True)")
        # and the first geometry once more: nothing may be left behind by an earlier call
        y3 = m.align_coordinates(x)
        if not np.array_equal(y3, y):
            raise Bad("aligning the same geometry again through the same recipe object gives another result")
    except Bad as b:
        return b.what, b.observed
    return None


def run_oracle(case):
    try:
        return oracle(case)
    except Exception as e:
        return "implementation raised %s on a well-formed recipe: %s" % (type(e).__name__, e), {}


# ---------------------------------------------------------------------------------------------
# argument forms: what a caller may hand to the align_* methods besides a 2-d float ndarray

FORMS = ["array", "list", "tuple", "rows"]      # ndarray / nested lists (.tolist()) / nested tuples / list of per-row ndarrays
ATOM_TAILS = [[], [3], [2], [2, 3], [1]]        # per-atom arrays: one scalar, one row, one (2,3) block per atom


def _totuple(v):
    return tuple(_totuple(t) for t in v) if isinstance(v, list) else v


def as_form(a, form):
    a = np.asarray(a)
    if form == "array":
        return np.array(a, copy=True)
    if form == "list":
        return a.tolist()
    if form == "tuple":
        return _totuple(a.tolist())
    return [np.array(r, copy=True) for r in a]          # "rows" (of a 1-d array: a list of numpy scalars)


def gen_forms_case(rng):
    n = rng.choice([1, 2, 3, 3, 4, 5, 6, 8])
    rot = rand_rotation(rng) if rng.random() < 0.8 else np.array([[float(t) for t in row] for row in quat_to_rot_fr(rng.choice(cube_quaternions()))])
    u = lambda *shape: np.array([rng.uniform(-9, 9) for _ in range(int(np.prod(shape)))]).reshape(shape).tolist()
    atoms = []
    for tail in ATOM_TAILS:
        dt = rng.choice(["float", "int", "str"])
        size = n * int(np.prod(tail)) if tail else n
        if dt == "float":
            flat = [rng.uniform(-9, 9) for _ in range(size)]
        elif dt == "int":
            flat = [rng.randint(-5, 120) for _ in range(size)]
        else:
            flat = ["%s%d" % (rng.choice("ABCDEFGH"), k) for k in range(size)]
        atoms.append({"dtype": dt, "values": np.array(flat).reshape([n] + tail).tolist()})
    return {"kind": "forms",
            "mill": {"shift": [rng.uniform(-10, 10) for _ in range(3)], "rotation": rot.tolist(), "atommap": rand_perm(rng, n), "mirror": rng.random() < 0.4},
            "x": rand_geometry(rng, n).tolist(), "g": u(n, 3), "H": u(3 * n, 3 * n), "mu": u(3), "J": u(3, 3 * n), "atoms": atoms}


def forms_oracle(case, hit=None):
    """Every align_* method with its argument spelled as an ndarray, as nested lists, as nested tuples and as a list of per-row
    arrays.  The ndarray must be transformed as the recipe states (per-atom arrays of any rank: row k of the result is row
    atommap[k] of the input).  A plain sequence may be REFUSED (any exception) - but if it is accepted the answer must be the
    answer for the array it spells: a wrong answer for an accepted input is never acceptable.  No form may be modified."""
    import copy
    md = case["mill"]
    m = mk_mill(md)
    p = list(md["atommap"])
    n = len(p)
    R = np.array(md["rotation"], dtype=float)
    S = np.array([1.0, -1.0 if md["mirror"] else 1.0, 1.0])
    x, g, H, mu, J = (np.array(case[k], dtype=float) for k in ("x", "g", "H", "mu", "J"))
    B = (H.reshape(n, 3, n, 3).transpose(0, 2, 1, 3)) * S[None, None, :, None] * S[None, None, None, :]
    Href = np.zeros((3 * n, 3 * n))
    Jref = np.zeros((3, 3 * n))
    for i in range(n):
        Jref[:, 3 * i:3 * i + 3] = R.T @ J[:, 3 * p[i]:3 * p[i] + 3] @ R
        for j in range(n):
            Href[3 * i:3 * i + 3, 3 * j:3 * j + 3] = R.T @ B[p[i], p[j]] @ R
    jobs = [("align_coordinates", m.align_coordinates, x, ((x * S) - np.array(md["shift"])) @ R, False),
            ("align_gradient", m.align_gradient, g, ((g * S) @ R)[p], False),
            ("align_hessian", m.align_hessian, H, Href, False)]
    jobs[0] = jobs[0][:3] + (jobs[0][3][p], False)
    if not md["mirror"]:
        jobs += [("align_vector", m.align_vector, mu, mu @ R, False), ("align_vector_gradient", m.align_vector_gradient, J, Jref, False)]
    for a in case["atoms"]:
        arr = np.array(a["values"])
        jobs.append(("align_atoms", m.align_atoms, arr, arr[p], True))
    try:
        for name, f, arr, ref, exact in jobs:
            for form in FORMS:
                arg = as_form(arr, form)
                keep = copy.deepcopy(arg)
                what = "%s(%s of shape %s)" % (name, {"array": "ndarray", "list": "nested lists", "tuple": "nested tuples", "rows": "list of per-row arrays"}[form],
                                               list(arr.shape))
                try:
                    res = f(arg)
                except Exception as e:
                    if form == "array":
                        raise Bad(what + " raised %s on a well-formed array: %s" % (type(e).__name__, e), {"method": name, "form": form})
                    if hit:
                        hit("forms_%s_%s_refused" % (name, form))
                    continue
                if hit:
                    hit("forms_%s_%s_accepted" % (name, form))
                try:
                    got = np.asarray(res)
                    ok = got.shape == ref.shape and (np.array_equal(got, ref) if exact else close(got, ref))
                except Exception:
                    got, ok = None, False
                if not ok:
                    tell = ("per-atom array is not permuted row-wise by atommap (row k of the result must be row atommap[k] of the input)" if name == "align_atoms"
                            else "result is not the covariantly transformed quantity")
                    raise Bad(what + ": " + tell + ("" if form == "array" else " - a plain sequence may be refused, but an accepted one must give the answer for the array it spells"),
                              {"method": name, "form": form, "got": got.tolist() if got is not None and got.dtype != object else repr(res)[:300],
                               "expected": ref.tolist()})
                try:
                    same = np.array_equal(np.asarray(arg), np.asarray(keep))
                except Exception:
                    same = False
                if not same:
                    raise Bad(what + " modified the argument it was given", {"method": name, "form": form})
    except Bad as b:
        return b.what, b.observed
    return None


def run_forms(case, hit=None):
    try:
        return forms_oracle(case, hit)
    except Exception as e:
        return "argument-forms check could not be evaluated: %s: %s" % (type(e).__name__, e), {}


CORPUS_ORACLE = [
    # the recipe of finding C13-hessian-mirror (fixed in 88ca1d6): mirror + swap + quarter turn
    {"mill": {"shift": [1.0, 2.0, 3.0], "rotation": [[0.0, -1.0, 0.0], [1.0, 0.0, 0.0], [0.0, 0.0, 1.0]], "atommap": [1, 0], "mirror": True},
     "x": [[0.0, 0.0, 0.0], [1.0, 0.5, -0.25]], "c": [[0.0, 1.5], [1.5, 0.0]], "r0": [[1.0, 1.0], [1.0, 1.0]],
     "w": [[0.0, 1.0], [-1.0, 0.0]], "energy": "coulomb", "field": "invcube"},
    {"mill": {"shift": [0.0, 0.0, 0.0], "rotation": [[1.0, 0.0, 0.0], [0.0, 1.0, 0.0], [0.0, 0.0, 1.0]], "atommap": [2, 0, 1], "mirror": True},
     "x": [[0.0, 0.0, 0.0], [1.0, 0.5, -0.25], [-1.0, 2.0, 0.75]], "c": [[0.0, 1.5, -0.5], [1.5, 0.0, 2.0], [-0.5, 2.0, 0.0]],
     "r0": [[1.0, 1.0, 2.0], [1.0, 1.0, 1.5], [2.0, 1.5, 1.0]], "w": [[0.0, 1.0, 0.5], [-1.0, 0.0, -2.0], [-0.5, 2.0, 0.0]], "triples": [[0, 1, 2, 0.75], [1, 2, 0, -0.5]],
     "energy": "harmonic", "field": "square"},
]


# ---------------------------------------------------------------------------------------------

def correspond(ctx):
    corr = Corr()
    rng = ctx.rng
    corr.rule = ("model-vs-implementation cases: the nine operations x (cube-group rotations with dyadic data, exact) / "
                 "(integer-quaternion rotations, 1e-10) x permutations of 1-10 atoms x mirror on/off, ~12% ill-formed atom maps; "
                 "oracle cases: analytic energies/vector fields at random geometries under random recipes, four transformations per case "
                 "retained and then judged; argument forms (ndarray / nested lists / nested tuples / list of rows, per-atom arrays of rank 1-3) "
                 "into every align_* method: refusal or the covariant answer; a case is "
                 "non-trivial if the recipe is not the identity (rotation != I or shift != 0 or atommap not sorted or mirror); "
                 "distinct = distinct inputs")
    n_model = 16000 if ctx.thorough else 1260
    n_oracle = 30000 if ctx.thorough else 1000
    cases, terms = [], []
    for k in range(n_model):
        kind = KINDS[k % len(KINDS)]
        exact = (k // len(KINDS)) % 2 == 0
        st = rng.getstate()
        try:
            case, term = build_case(rng, kind, exact)
        except Exception as e:      # the implementation raised where a well-formed call must not (ill-formed maps are caught inside)
            corr.count("model-error-" + kind)
            # (the inputs are drawn inside build_case: the generator state is recorded, replay() draws them again)
            corr.failures.append({"stream": "model-" + kind, "case": {"kind": kind, "exact": exact, "rng_state": [st[0], list(st[1]), st[2]]},
                                  "what": "implementation raised %s while a model case (%s) was built: %s" % (type(e).__name__, kind, e), "observed": {}})
            continue
        cases.append(case)
        terms.append(term)
        stream = ("exact-" if exact or kind in ("atoms", "expand", "contract") else "rational-") + kind
        corr.count(stream)
        corr.hit("impl_" + (case["impl"][0] if case["impl"][0] == "Ok" else "Err_" + case["impl"][1]))
        md = case.get("mill")
        if md is None or md["mirror"] or md["atommap"] != sorted(md["atommap"]) or any(md["shift"]) or md["rotation"] != [[1.0, 0, 0], [0, 1.0, 0], [0, 0, 1.0]]:
            corr.nontriv({"k": kind, "m": md, "x": case["x"]})
        if md is not None:
            corr.hit("mirror_on" if md["mirror"] else "mirror_off")
    if len(cases) > 2:
        corr.sample({"stream": "model", "kind": cases[2]["kind"], "mill": cases[2].get("mill"), "input": cases[2]["x"], "implementation": cases[2]["impl"]})
    ctx.log(f"{len(terms)} model cases through the implementation; running the property oracle")
    # the full option product (rotation identity/cube/random x shift zero/non-zero x atom map identity/non-involutive x
    # mirror off/on) at 1, 3 and 6 atoms: a fast path or a branch that handles only some combinations is met
    product = [gen_oracle_case(rng, n=nn, opts=(rs, zs, im, mi)) for nn in (1, 3, 6) for rs in ("identity", "cube", "random")
               for zs in (True, False) for im in (True, False) for mi in (False, True)]
    ocases = list(CORPUS_ORACLE) + product + [gen_oracle_case(rng) for _ in range(n_oracle)]
    for oc in ocases:
        bad = run_oracle(oc)
        corr.count("oracle-" + oc["energy"])
        omd = oc["mill"]
        corr.hit("oracle_rot_%s_shift_%s_map_%s" % (
            "identity" if omd["rotation"] == np.eye(3).tolist() else "general", "zero" if not any(omd["shift"]) else "nonzero",
            "identity" if omd["atommap"] == sorted(omd["atommap"]) else "permuted"))
        corr.hit("oracle_n%d" % len(oc["mill"]["atommap"]))
        corr.hit("oracle_mirror_on" if oc["mill"]["mirror"] else "oracle_mirror_off")
        corr.nontriv(oc)
        if bad:
            corr.failures.append({"stream": "oracle", "case": oc, "what": bad[0], "observed": bad[1]})
    corr.sample({"stream": "oracle", "case": {k: ocases[2][k] for k in ("mill", "energy", "field")}, "natoms": len(ocases[2]["x"])})
    ctx.log("evaluating the model")
    shard = 60 if not ctx.thorough else 150
    bad, errors = coqrun.eval_bad_indices("C13", REQ, "", "check_case", terms, shard=shard, ty="mcase")
    if errors:
        # a shard that failed to run (e.g. killed on a loaded machine) is retried once, in smaller pieces
        still = []
        for k, e in errors:
            sub = terms[k:k + shard]
            bad2, err2 = coqrun.eval_bad_indices("C13retry", REQ, "", "check_case", sub, shard=15, ty="mcase")
            bad.extend(k + b for b in bad2)
            still.extend((k + k2, e2) for k2, e2 in err2)
        bad.sort()
        errors = still
    corr.errors.extend(f"shard {k}: {e}" for k, e in errors)
    # np_blockwise with any block shape (Model/Blockwise.v)
    bcases, bterms = [], []
    for k in range(3000 if ctx.thorough else 300):
        case, term = build_bcase(rng, k)
        bcases.append(case)
        bterms.append(term)
        corr.count("exact-" + case["kind"])
        corr.nontriv({"k": case["kind"], "s": case["shape"], "b": case["block"], "x": case["x"]})
        corr.hit("blockwise_" + (case["impl"][0] if case["impl"][0] == "Ok" else "Err_" + str(case["impl"][1])[:24]))
        if case["kind"] == "bexpand":
            corr.hit("blockwise_shape_%s_required_%s" % ("aligned" if case["shape"][0] % case["block"][0] == 0 and case["shape"][1] % case["block"][1] == 0
                                                         else "unaligned", case["require_aligned_blocks"]))
            if not case["input_unchanged"]:
                corr.failures.append({"stream": "oracle-blockwise", "case": {k2: case[k2] for k2 in case if k2 not in ("impl", "oracle")},
                                      "what": "blockwise_expand modified its input", "observed": {}})
        if "oracle" in case:
            corr.failures.append({"stream": "oracle-blockwise", "case": {k2: case[k2] for k2 in case if k2 not in ("impl", "oracle")},
                                  "what": case["oracle"][0], "observed": case["oracle"][1]})
    # argument forms (ndarray / nested lists / nested tuples / list of rows) into every align_* method; per-atom arrays of rank 1-3
    for k in range(3000 if ctx.thorough else 300):
        fc = gen_forms_case(rng)
        badf = run_forms(fc, corr.hit)
        corr.count("oracle-forms")
        corr.nontriv(fc)
        if badf:
            corr.failures.append({"stream": "oracle-forms", "case": fc, "what": badf[0], "observed": badf[1]})
    badb, errb = coqrun.eval_bad_indices("C13bw", REQB, "", "check_bcase", bterms, shard=75 if not ctx.thorough else 150, ty="bcase")
    if errb:
        still = []
        for k, e in errb:
            bad2, err2 = coqrun.eval_bad_indices("C13bwretry", REQB, "", "check_bcase", bterms[k:k + (75 if not ctx.thorough else 150)], shard=15, ty="bcase")
            badb.extend(k + b for b in bad2)
            still.extend((k + k2, e2) for k2, e2 in err2)
        errb = still
    corr.errors.extend(f"blockwise shard {k}: {e}" for k, e in errb)
    for b in sorted(badb)[:4]:
        c = bcases[b]
        corr.disagreements.append({"stream": "model-" + c["kind"], "case": {k: c[k] for k in c if k != "impl"},
                                   "impl": c["impl"], "model": "check_bcase = false (Model/Blockwise.v disagrees)"})
    for b in bad[:6]:
        c = cases[b]
        corr.disagreements.append({"stream": "model-" + c["kind"], "case": {k: c[k] for k in c if k != "impl"},
                                   "impl": c["impl"], "model": "check_case = false (Model/Mill.v disagrees)"})
    if len(bad) > 6:
        corr.notes.append(f"{len(bad)} disagreeing model cases in total")
    return corr


def search(ctx, corr, reasons):
    """Look for a failing input of the property on the implementation: reuse the recipes of disagreeing
    cases (with fresh geometries/couplings) and a larger random sample."""
    found = []
    if corr.failures:
        return found          # the oracle stream already produced concrete failing inputs
    rng = ctx.rng
    tried = []
    for d in corr.disagreements:
        md = d["case"].get("mill")
        if md and sorted(md["atommap"]) == list(range(len(md["atommap"]))):
            for _ in range(5):
                tried.append(gen_oracle_case(rng, mill=md))
    tried += [gen_oracle_case(rng) for _ in range(1500)]
    for oc in tried:
        bad = run_oracle(oc)
        if bad:
            found.append({"stream": "search", "case": oc, "what": bad[0], "observed": bad[1]})
            if len(found) >= 3:
                break
    found.sort(key=lambda f: len(f["case"]["x"]))
    return found


def replay(ctx, rp):
    case = rp.get("case")
    if isinstance(case, dict) and case.get("kind") == "bcontract":
        from qcelemental.util import blockwise_contract
        (gr, gc), (br, bc) = case["shape"], case["block"]
        B = np.array(case["x"], dtype=float).reshape(gr, gc, br, bc)
        try:
            arr = blockwise_contract(B)
            blockwise_contract(1.0 - B)
            want = B.transpose(0, 2, 1, 3).reshape(gr * br, gc * bc)
            return {"case": case, "observed": {"shape": list(arr.shape)}, "fails": not (arr.shape == want.shape and np.array_equal(arr, want))}
        except Exception as e:
            return {"case": case, "observed": "%s: %s" % (type(e).__name__, e), "fails": True}
    if isinstance(case, dict) and case.get("kind") == "bexpand":
        from qcelemental.util import blockwise_expand, blockwise_contract
        a = np.array(case["x"], dtype=float)
        (h, w), (br, bc) = case["shape"], case["block"]
        try:
            a_in = a.copy()
            view = blockwise_expand(a_in, (br, bc), False, case["require_aligned_blocks"])
            blockwise_expand(1.0 - a, (br, bc), False, case["require_aligned_blocks"])
            back = blockwise_contract(np.array(view))
            want = a[:(h // br) * br, :(w // bc) * bc]
            fails = not (back.shape == want.shape and np.array_equal(back, want)) or bool(case["require_aligned_blocks"] and (h % br or w % bc)) \
                or not np.array_equal(a_in, a)
            return {"case": case, "observed": {"shape_back": list(back.shape)}, "fails": bool(fails)}
        except AssertionError:
            return {"case": case, "observed": "AssertionError", "fails": not (case["require_aligned_blocks"] and (h % br or w % bc))}
        except Exception as e:
            return {"case": case, "observed": "%s: %s" % (type(e).__name__, e), "fails": True}
    if isinstance(case, dict) and case.get("kind") in KINDS and "rng_state" in case:
        import random
        r = random.Random()
        v, internal, g = case["rng_state"]
        r.setstate((v, tuple(internal), g))
        try:
            build_case(r, case["kind"], case["exact"])
        except Exception as e:
            return {"case": {"kind": case["kind"], "exact": case["exact"]}, "observed": "%s: %s" % (type(e).__name__, e), "fails": True}
        return {"case": {"kind": case["kind"], "exact": case["exact"]}, "observed": "no exception", "fails": False}
    if isinstance(case, dict) and case.get("kind") == "forms":
        bad = run_forms(case)
        return {"case": case, "oracle": bad[0] if bad else None, "observed": bad[1] if bad else None, "fails": bool(bad)}
    if not isinstance(case, dict) or "mill" not in case or "c" not in case:
        return {"note": "this replay records broken proof obligations / a model disagreement without a failing input of the "
                        "property; re-run ./check C13", "fails": True}
    bad = run_oracle(case)
    return {"case": case, "oracle": bad[0] if bad else None, "observed": bad[1] if bad else None, "fails": bool(bad)}


KNOWN = {}

TECHNIQUE = ("Coq proofs over a Gallina model parametrised by a commutative ring (ring, induction, div/mod index lemmas; a Coquelicot "
             "derivative argument for the invariant-energy link) + fail-closed translator of the method bodies with proved "
             "generated = model + differential correspondence at K = Q")
DESIGN_REF = "DESIGN.md §6 C13"
LEVEL_TEXT = (
    "Machine-checked (Coq 8.16.1) theorems about Model/Mill.v, for every commutative ring K (Leibniz equality), every recipe, "
    "every number of atoms: C13_coords_affine (align_coordinates x = L x + t), C13_gradient_is_L, C13_hessian_is_LHLt "
    "(align_hessian H = L H L^T through blockwise_expand, the mirror sign flips, per-block rotation, np.ix_ and "
    "blockwise_contract, with the same L as the gradient, mirror on or off), C13_L_orthogonal (orthogonal rotation + permutation "
    "map => L L^T = I), C13_atoms_same_map, C13_line_transport (T(x+sv) = Tx + s Lv), C13_reverse_inverts_forward (inverse recipe), "
    "C13_vector_is_rotT, C13_vector_gradient_covariant (J -> rot^T J L^T, no mirror), C13_blockwise_lossless (every tile count, "
    "rectangular too), C13_wellformed_total; for the public blockwise_expand/blockwise_contract with ANY 2-d block shape (Model/Blockwise.v): "
    "C13_blockwise_lossless_any_blockshape, C13_blockwise_unaligned_keeps_topleft (require_aligned_blocks=False keeps exactly the "
    "top-left part), C13_blockwise_misaligned_refused (AssertionError iff alignment required and shape not divisible), "
    "C13_blockwise_33_is_mill; and over the reals (Coquelicot is_derive) the physics link "
    "C13_invariant_energy_gradient_covariant / C13_invariant_energy_hessian_covariant: for ANY energy E' o T = E and any grad/hess "
    "characterised by directional derivatives, grad'(Tx) = align_gradient(grad x) and hess'(Tx) = align_hessian(hess x); "
    "C13_covariant_vector_jacobian: for ANY vector field with mu' o T = align_vector o mu (no mirror) the Jacobian at the aligned "
    "geometry is align_vector_gradient of the original Jacobian. "
    "Tie: the bodies of align_coordinates/align_atoms/align_vector/align_gradient/align_hessian and the per-atom block of "
    "align_vector_gradient are translated from models/align.py on every run (Gen/MillGen.v) and PROVED equal to the model for all "
    "inputs (C13_translated_coordinates_is_model, _gradient_, _hessian_, _atoms_vector_datom_), and so is the whole method "
    "align_vector_gradient with its atom loop - index read, slice reads, rotation, slice stores into the zero-initialised result, "
    "first exception wins - for all inputs of three equally long rows (C13_translated_vector_gradient_loop_is_model); the whole model (incl. np_blockwise "
    "with any block shape and the IndexError/AssertionError behaviour) is also run against the implementation at K = Q (exact on "
    "dyadic data with the 24 cube-group rotations, 1e-10 on integer-quaternion rotations) and the "
    "property itself is evaluated on the implementation with analytic Coulomb/harmonic pair + three-body energies and a "
    "covariant vector field with closed-form derivatives, mirror on/off, permutations of 1-10 atoms, the full option product "
    "(identity/general rotation x zero/non-zero shift x identity/non-involutive map x mirror), a second geometry and a second "
    "set of couplings through the same live recipe object plus the inverse recipe for the same atom count, all results RETAINED as "
    "returned and judged only after all calls (a result overwritten by a later call is seen), arguments in C/Fortran/strided "
    "layout, caller's buffers overwritten after the call in half of the cases, coupling strengths over the decades 1 ... 1e-12 "
    "judged with a relative tolerance (1e-9 of the largest entry of gradient / Hessian / vector / vector derivatives), and a "
    "check that no method modifies the array it is given; every align_* method is also handed its argument as nested lists, nested "
    "tuples and a list of per-row arrays (a plain sequence is either refused or transformed like the array it spells) and "
    "align_atoms per-atom arrays of rank 1, 2 and 3 (row k of the result = row atommap[k]).")
LEVEL_NOTE = (
    "Clause map: invariant-energy gradient/Hessian covariance -> C13_invariant_energy_gradient_covariant/_hessian_covariant (+ "
    "coords_affine, gradient_is_L, hessian_is_LHLt, L_orthogonal, line_transport); per-atom arrays -> C13_atoms_same_map; vectors "
    "and their derivatives without mirror -> C13_vector_is_rotT, C13_vector_gradient_covariant, C13_covariant_vector_jacobian; "
    "lossless 3x3 blocking -> C13_blockwise_lossless (+ the four any-block-shape theorems); forward/reverse -> "
    "C13_reverse_inverts_forward; errors -> C13_wellformed_total; model = code -> C13_translated_* (generated from the source; since "
    "wave 4 including the atom loop of align_vector_gradient: C13_translated_vector_gradient_loop_is_model). Only "
    "correspondence/oracle: np_blockwise, align_system/align_mini_system. No clause without a theorem. "
    "Trusted: Coq kernel + vm_compute; the translator harness/translate/millgen.py and the array / loop / slice-store combinators of Model/MillOps.v and Model/MillLoop.v "
    "(numpy dot/broadcast/fancy-indexing/as_strided/reshape/swapaxes semantics transcribed, not verified); non-negative atommap "
    "entries; 2-d arrays for np_blockwise; binary64 rounding of the implementation is "
    "outside the model (exact rationals; compared exactly on dyadic inputs and within 1e-10 otherwise); the closed-form "
    "derivatives of the oracle's test energies; harness/props/c13.py. Axioms: the algebraic theorems are closed under the global "
    "context; the three calculus theorems (invariant-energy gradient/Hessian, vector Jacobian) depend on the standard Reals axioms (ClassicalDedekindReals.sig_forall_dec, "
    "sig_not_dec, FunctionalExtensionality.functional_extensionality_dep) and nothing else. No theorem is _partial; "
    "C13_vector_rotates_with_frame_under_mirror_refuted shows that the 'without mirror' restriction of the vector clauses cannot be "
    "dropped (align_vector ignores the mirror flag; the property excludes that case, so this is not a defect) "
    "(the former finding C13-hessian-mirror was fixed in /repo by 88ca1d6; Example C13_ex_hessian_mirror_matters shows the mirror now "
    "changes the aligned Hessian).")
