"""C19 — comparison helpers (qcelemental/testing.py compare_values, compare, compare_recursive, compare_molrecs;
ProtoModel.compare): correspondence of Model/Compare.v with the implementation (bit-exact binary64 through
vm_compute), the property oracle (an independent recursive specification in Python) evaluated on the
implementation's inputs, and the reporting-option inertness check.

Python values are described by JSON-able "abstract trees" (so that replays are self-contained):
  ["sc", np, kind, val]      kind in none|bool|int|float|complex|str ; float values are hex strings
  ["list", is_tuple, [t..]]  ["dict", [[key, t]..]]  ["arr", dt, [shape], [[kind, val]..]]  ["other"] (a set)
"""
import logging
import math
import warnings
from decimal import Decimal, getcontext
from fractions import Fraction

import numpy as np

from .. import coqrun
from ..core import Corr
from ..translate import cmpglue
from ..coqrun import cbool, clist, cstr, cz

PID = "C19"

# PrimFloat / Uint63 kernel primitives are listed by `Print Assumptions` under "Axioms:" although they are
# primitive constants evaluated by the kernel (no logical axiom; the FloatAxioms specification is NOT used).
_FLOAT_PRIMS = ["float", "add", "sub", "mul", "div", "abs", "opp", "sqrt", "eqb", "ltb", "leb", "of_uint63", "normfr_mantissa",
                "frshiftexp", "ldshiftexp", "compare", "classify"]
_INT_PRIMS = ["int", "add", "sub", "mul", "lsl", "lsr", "land", "lor", "lxor", "eqb", "ltb", "leb", "div", "mod", "head0", "tail0"]
ALLOWED_AXIOMS = (set(_FLOAT_PRIMS) | {"PrimFloat." + n for n in _FLOAT_PRIMS}
                  | {"PrimInt63." + n for n in _INT_PRIMS} | {"Uint63." + n for n in _INT_PRIMS} | {"lsl", "lsr", "land", "lor", "int"})
# C19_isclose_real_band only: the FloatAxioms specifications of the kernel float primitives (what Flocq.IEEE754.PrimFloat rests on),
# the axioms of the classical real numbers, and excluded middle as used by Flocq.
_SPECS = ["Prim2SF_SF2Prim", "Prim2SF_valid", "SF2Prim_Prim2SF", "abs_spec", "add_spec", "sub_spec", "mul_spec", "eqb_spec", "leb_spec",
          "ltb_spec", "opp_spec", "sqrt_spec"]
ALLOWED_AXIOMS |= set(_SPECS) | {"FloatAxioms." + n for n in _SPECS} | {
    "ClassicalDedekindReals.sig_forall_dec", "ClassicalDedekindReals.sig_not_dec",
    "FunctionalExtensionality.functional_extensionality_dep", "Classical_Prop.classic"}
EXTRA_TARGETS = ["Model/Compare.vo", "Model/ModelDict.vo"]

logging.getLogger().addHandler(logging.NullHandler())   # quiet=False logs; keep stderr clean

EXC = {"ValueError": "EValue", "TypeError": "EType", "AttributeError": "EAttribute", "OverflowError": "EOverflow", "KeyError": "EKey"}


def translate(ctx):
    """Gen/CompareGlue.v: defaults, isinstance ladder, np.isclose operands, match test, return sites, ... of testing.py"""
    cmpglue.generate(ctx.repo)


# ------------------------------------------------------------------------------------------------------
# floats <-> text

def fh(x):
    x = float(x)
    if x != x:
        return "nan"
    if x == math.inf:
        return "inf"
    if x == -math.inf:
        return "-inf"
    return x.hex()


def hf(s):
    return float.fromhex(s)


def cf(s):
    if s == "nan":
        return "PrimFloat.nan"
    if s == "inf":
        return "PrimFloat.infinity"
    if s == "-inf":
        return "PrimFloat.neg_infinity"
    x = float.fromhex(s)
    if x == 0:
        return "PrimFloat.neg_zero" if math.copysign(1.0, x) < 0 else "PrimFloat.zero"
    return f"({s})%float"


# ------------------------------------------------------------------------------------------------------
# abstract trees

def sc(kind, val, np_=False):
    return ["sc", bool(np_), kind, val]


def F(x, np_=False):
    return sc("float", fh(x), np_)


def C(z, np_=False):
    z = complex(z)
    return sc("complex", [fh(z.real), fh(z.imag)], np_)


def I(i, np_=False):
    return sc("int", int(i), np_)


def B(b, np_=False):
    return sc("bool", bool(b), np_)


def S(s, np_=False):
    return sc("str", s, np_)


NONE = ["sc", False, "none", None]


def L(items, tup=False):
    return ["list", bool(tup), list(items)]


def D(pairs):
    return ["dict", [[k, v] for k, v in pairs]]


def A(dt, shape, scalars):
    return ["arr", dt, list(shape), [list(s) for s in scalars]]


def sval(kind, val):
    if kind == "none":
        return None
    if kind == "float":
        return hf(val)
    if kind == "complex":
        return complex(hf(val[0]), hf(val[1]))
    return val


NP_DT = {"bool": np.bool_, "int": np.int64, "float": np.float64, "complex": np.complex128}


def to_py(t):
    k = t[0]
    if k == "sc":
        v = sval(t[2], t[3])
        if t[1]:
            return {"bool": np.bool_, "int": np.int64, "float": np.float64, "complex": np.complex128,
                    "str": np.str_}[t[2]](v)
        return v
    if k == "list":
        xs = [to_py(x) for x in t[2]]
        return tuple(xs) if t[1] else xs
    if k == "dict":
        return {kk: to_py(v) for kk, v in t[1]}
    if k == "arr":
        dt, shape, data = t[1], tuple(t[2]), [sval(a, b) for a, b in t[3]]
        if dt == "str":
            return np.array(data, dtype=str).reshape(shape) if data else np.zeros(shape, dtype="<U1")
        if dt == "obj":
            a = np.empty(len(data), dtype=object)
            for i, v in enumerate(data):
                a[i] = v
            return a.reshape(shape)
        return np.array(data, dtype=NP_DT[dt]).reshape(shape)
    if k == "other":
        return {1, 2}
    raise ValueError(k)


def c_scalar(kind, val):
    if kind == "none":
        return "SNone"
    if kind == "bool":
        return f"(SBool {cbool(val)})"
    if kind == "int":
        return f"(SInt {cz(val)})"
    if kind == "float":
        return f"(SFloat {cf(val)})"
    if kind == "complex":
        return f"(SCplx {cf(val[0])} {cf(val[1])})"
    if kind == "str":
        return f"(SStr {cstr(val)})"
    raise ValueError(kind)


C_DT = {"bool": "DBool", "int": "DInt", "float": "DFloat", "complex": "DCplx", "str": "DStr", "obj": "DObj"}


def to_coq(t):
    k = t[0]
    if k == "sc":
        return f"(TSc {cbool(t[1])} {c_scalar(t[2], t[3])})"
    if k == "list":
        return "(TList " + clist(t[2], to_coq) + ")"
    if k == "dict":
        return "(TDict " + clist(t[1], lambda kv: f"({cstr(kv[0])}, {to_coq(kv[1])})") + ")"
    if k == "arr":
        return (f"(TArr {C_DT[t[1]]} " + clist(t[2], lambda n: f"{int(n)}%nat") + " "
                + clist(t[3], lambda s: c_scalar(s[0], s[1])) + ")")
    if k == "other":
        return "TOther"
    raise ValueError(k)


def q_to_coq(q):
    o = q["o"]
    e, c = to_coq(q["e"]), to_coq(q["c"])
    if q["fn"] == "values":
        return ("(QValues {| atol := %s; rtol := %s; equal_nan := %s; cv_phase := %s; passnone := %s |} %s %s)" % (
            cf(o["atol"]), cf(o["rtol"]), cbool(o["equal_nan"]), cbool(o["equal_phase"]), cbool(o["passnone"]), e, c))
    if q["fn"] == "compare":
        return f"(QCompare {cbool(o['equal_phase'])} {e} {c})"
    if q["fn"] in ("rec", "mol"):
        ep = o["equal_phase"]
        eps = f"(EpBool {cbool(ep)})" if isinstance(ep, bool) else "(EpList " + clist(ep, cstr) + ")"
        return ("(%s {| r_atol := %s; r_rtol := %s; forgive := %s; r_phase := %s |} %s %s)" % (
            "QRec" if q["fn"] == "rec" else "QMol", cf(o["atol"]), cf(o["rtol"]), clist(o["forgive"] or [], cstr), eps, e, c))
    raise ValueError(q["fn"])


def out_to_coq(out):
    if out[0] == "Ok":
        return f"(Ok {cbool(out[1])})"
    return f"(Raise {out[1]})"


# ------------------------------------------------------------------------------------------------------
# the implementation

_MODEL_CLS = []


def _model_cls():
    if not _MODEL_CLS:
        from qcelemental.models.basemodels import ProtoModel

        class Bag(ProtoModel):
            class Config(ProtoModel.Config):
                extra = "allow"
        _MODEL_CLS.append(Bag)
    return _MODEL_CLS[0]


VARIANTS = [(True, False, None), (False, False, None), (True, True, None), (False, True, None),
            (True, False, "capture"), (False, True, "capture")]


def _snap(x):
    """a text that changes when a caller's object is modified in place (repr of nested containers / arrays)"""
    with np.printoptions(threshold=10000, precision=17, floatmode="unique"):
        return repr(x)


def impl_run(q, variant=VARIANTS[0], objs=None):
    """-> ("Ok", bool) | ("Raise", E...) | ("Bad", description)
    q.get("omit"): the option keywords are NOT passed (the signature defaults apply; q["o"] holds the documented ones);
    objs: (expected, computed) live objects to use instead of building fresh ones (sequence streams)"""
    from qcelemental.testing import compare, compare_molrecs, compare_recursive, compare_values
    quiet, rm, hk = variant
    kw = {"quiet": quiet, "return_message": rm}
    cap = []
    if hk == "capture":
        def handler(passfail, label, message, return_message, quiet_):
            cap.append((passfail, return_message, quiet_))
            return "handled"
        kw["return_handler"] = handler
    o = q["o"]
    if objs is not None:
        e, c = objs
    elif q.get("same"):
        e = c = to_py(q["e"])                      # one object handed over as expected AND computed
    else:
        e, c = to_py(q["e"]), to_py(q["c"])
    omit = bool(q.get("omit"))
    if omit and variant == VARIANTS[0]:
        kw = {}                                    # quiet / return_message at their defaults too
    e0, c0 = _snap(e), _snap(c)
    try:
        with warnings.catch_warnings():
            warnings.simplefilter("ignore")
            with np.errstate(all="ignore"):
                if q["fn"] == "values":
                    ok_ = {} if omit else dict(atol=hf(o["atol"]), rtol=hf(o["rtol"]), equal_nan=o["equal_nan"],
                                               equal_phase=o["equal_phase"], passnone=o["passnone"])
                    r = compare_values(e, c, "lbl", **ok_, **kw)
                elif q["fn"] == "compare":
                    ok_ = {} if omit else dict(equal_phase=o["equal_phase"])
                    r = compare(e, c, "lbl", **ok_, **kw)
                elif q["fn"] == "mol":
                    mk = dict(kw)
                    if "quiet" in mk:
                        mk["verbose"] = 0 if mk.pop("quiet") else 1
                    ok_ = {} if omit else dict(atol=hf(o["atol"]), rtol=hf(o["rtol"]),
                                               forgive=(None if o["forgive"] is None else list(o["forgive"])))
                    r = compare_molrecs(e, c, "lbl", **ok_, **mk)
                else:
                    ep = o["equal_phase"]
                    rk = {} if omit else dict(atol=hf(o["atol"]), rtol=hf(o["rtol"]), forgive=(None if o["forgive"] is None else list(o["forgive"])),
                                              equal_phase=(ep if isinstance(ep, bool) else list(ep)))
                    rk.update(kw)
                    if q.get("via") == "model":
                        Bag = _model_cls()
                        r = Bag(**e).compare(Bag(**c), **rk)
                    else:
                        r = compare_recursive(e, c, "lbl", **rk)
    except Exception as ex:  # noqa
        name = type(ex).__name__
        if _snap(e) != e0 or _snap(c) != c0:
            return ("Bad", "the helper modified its inputs (and raised " + name + ")")
        for cls in type(ex).__mro__:
            if cls.__name__ in EXC:
                return ("Raise", EXC[cls.__name__])
        return ("Bad", "raised " + name)
    if _snap(e) != e0 or _snap(c) != c0:
        return ("Bad", "the helper modified its inputs")
    if hk == "capture":
        if r != "handled" or len(cap) != 1 or cap[0][1] != rm or cap[0][2] != quiet:
            return ("Bad", f"return_handler protocol broken: returned {r!r}, calls {cap!r}")
        v = cap[0][0]
    elif rm:
        if not (isinstance(r, tuple) and len(r) == 2 and isinstance(r[1], str)):
            return ("Bad", f"return_message=True did not return (bool, str): {r!r}")
        v = r[0]
    else:
        v = r
    if not isinstance(v, bool):
        return ("Bad", f"verdict is not a bool: {type(v).__name__}")
    return ("Ok", v)


# ------------------------------------------------------------------------------------------------------
# the property oracle: an independent specification, evaluated on the implementation's inputs

class Abstain(Exception):
    """the input is outside what the property quantifies over (or too close to a rounding edge to judge)"""


class _Ragged(Exception):
    pass


class _NotArrayLike(Exception):
    pass


def _may_be_numeric(s):
    return any(ch.isdigit() or ch in "nNjJ" for ch in s)


def flat(t):
    """array-like -> (shape, [(kind, value)], source dtype or None)"""
    k = t[0]
    if k == "sc":
        return (), [(t[2], sval(t[2], t[3]))], None
    if k == "arr":
        return tuple(t[2]), [(a, sval(a, b)) for a, b in t[3]], t[1]
    if k == "list":
        subs = [flat(x) for x in t[2]]
        if any(s[2] is not None for s in subs):
            raise Abstain("ndarray nested in a list")
        if not subs:
            return (0,), [], None
        if len({s[0] for s in subs}) != 1:
            raise _Ragged()
        return (len(subs),) + subs[0][0], [x for s in subs for x in s[1]], None
    raise _NotArrayLike()


def close_real(c, e, atol, rtol, eqnan):
    """the rule |c - e| <= atol + rtol*|e| in binary64, numpy's conventions for non-finite values"""
    if math.isnan(c) or math.isnan(e):
        return eqnan and math.isnan(c) and math.isnan(e)
    if math.isinf(c) or math.isinf(e):
        return c == e
    verdict = abs(c - e) <= atol + rtol * abs(e)
    # the band proved in Coq (C19_isclose_real_band), re-checked in exact arithmetic on every case it applies to:
    # true => |c-e| <= (T + 2^-1075)(1 + 2^-51);  false => |c-e| >= (T - 2^-1074)(1 - 2^-51)
    if atol >= 0 and rtol >= 0 and math.isfinite(c - e) and math.isfinite(rtol * abs(e)) and math.isfinite(atol + rtol * abs(e)):
        d = abs(Fraction(c) - Fraction(e))
        T = Fraction(atol) + Fraction(rtol) * abs(Fraction(e))
        eps, eta = Fraction(1, 2 ** 51), Fraction(1, 2 ** 1075)
        _stat("real_band_checked")
        if verdict and not d <= (T + eta) * (1 + eps):
            raise AssertionError("oracle: binary64 rule accepts a value outside the proved band")
        if not verdict and not d >= (T - 2 * eta) * (1 - eps):
            raise AssertionError("oracle: binary64 rule rejects a value inside the proved band")
        if verdict != (d <= T):
            _stat("real_band_verdict_differs_from_exact_rule")
    return verdict


def _modulus(z):
    if z.imag == 0:
        return abs(Fraction(z.real)), True
    if z.real == 0:
        return abs(Fraction(z.imag)), True
    getcontext().prec = 60
    s = (Decimal(z.real) ** 2 + Decimal(z.imag) ** 2).sqrt()
    return Fraction(s), False


def close_cplx(c, e, atol, rtol, eqnan):
    nc = math.isnan(c.real) or math.isnan(c.imag)
    ne = math.isnan(e.real) or math.isnan(e.imag)
    if nc or ne:
        return eqnan and nc and ne
    if any(math.isinf(v) for v in (c.real, c.imag, e.real, e.imag)):
        return c == e
    dr, di = c.real - e.real, c.imag - e.imag
    me, exact_e = _modulus(e)
    if exact_e and (di == 0 or dr == 0) and (e.imag == 0 or e.real == 0):
        # axis-aligned: every step is one exact or single binary64 operation -> judge at the edge
        d = abs(dr) if di == 0 else abs(di)
        return d <= atol + rtol * float(me)
    d2 = (Fraction(c.real) - Fraction(e.real)) ** 2 + (Fraction(c.imag) - Fraction(e.imag)) ** 2
    T = Fraction(atol) + Fraction(rtol) * me
    # |z| by C hypot (< 1 ulp) and by sqrt(re^2+im^2) (the model; < 2 ulp away from over/underflow of the squares), the
    # subtraction parts, rtol*|e| and the sum are each within 2^-52 relative: the two evaluations and the exact rule
    # agree unless |d - T| <= 2^-48 T.  Judged outside 2^-46.
    eps = Fraction(1, 2 ** 46)
    if d2 <= (T * (1 - eps)) ** 2:
        return True
    if d2 >= (T * (1 + eps)) ** 2:
        return False
    raise Abstain("complex value within rounding of the tolerance edge")


def _num(kind, v, want_c):
    if kind in ("bool", "int", "float"):
        return complex(float(v), 0.0) if want_c else float(v)
    if kind == "complex":
        return v
    raise Abstain(kind)


def spec_values(e, c, atol, rtol, eqnan, phase, passnone):
    """(verdict, tag)"""
    if not (0 < atol < math.inf) or not (0 <= rtol < math.inf):
        raise Abstain("tolerances outside the quantifier")
    if passnone and e == NONE and c == NONE:
        return True, "passnone"
    for side in (e, c):
        try:
            flat(side)
        except _Ragged:
            return False, "ragged nested list is not cast-able"      # since 65b8c68 on either side (was ValueError)
        except _NotArrayLike:
            pass
    try:
        she, de, srce = flat(e)
    except _NotArrayLike:
        return False, "expected is not array-like"
    try:
        shc, dc, srcc = flat(c)
    except _NotArrayLike:
        return False, "computed is not an array"
    for kind, v in de + dc:
        if kind == "none":
            raise Abstain("None element")
        if kind == "int" and abs(v) >= 2 ** 53:
            raise Abstain("int beyond 2^53")
        if kind == "str" and _may_be_numeric(v):
            raise Abstain("numeric-looking string")
    if any(kind == "str" for kind, _ in de + dc):
        return False, "string data is not numeric"
    if she != shc:
        return False, "shape mismatch"
    ce = any(kind == "complex" for kind, _ in de)
    cc = any(kind == "complex" for kind, _ in dc)
    tag = "complex" if ce else "real-vs-complex" if cc else "real"
    want_c = ce or cc
    ev = [_num(k, v, want_c) for k, v in de]
    cv = [_num(k, v, want_c) for k, v in dc]
    cl = close_cplx if want_c else close_real

    def allc(sign):
        ok = True
        for ci, ei in zip(cv, ev):
            if not cl((-ci if sign < 0 else ci), ei, atol, rtol, eqnan):
                ok = False        # keep going: an Abstain further on must still surface
        return ok
    try:
        v = allc(1) or (phase and allc(-1))
    except Abstain:
        raise
    return bool(v), tag


def py_eq(a, b):
    (ka, va), (kb, vb) = a, b
    if ka == "none" or kb == "none":
        return ka == kb
    if ka == "str" or kb == "str":
        return ka == kb and va == vb
    return va == vb


def spec_compare(e, c, phase):
    try:
        she, de, srce = flat(e)
    except _Ragged:
        return False, "ragged"
    except _NotArrayLike:
        raise Abstain("object")
    try:
        shc, dc, srcc = flat(c)
    except _Ragged:
        return False, "ragged"
    except _NotArrayLike:
        raise Abstain("object")
    for side in (de, dc):
        kinds = {k for k, _ in side}
        if "str" in kinds and kinds != {"str"}:
            raise Abstain("str/number mixture")
        for k, v in side:
            if k == "int" and abs(v) >= 2 ** 53:
                raise Abstain("int beyond 2^53")
            if k == "str" and (v != v.rstrip() or "\x00" in v):
                raise Abstain("trailing blanks")
    if she != shc:
        return False, "shape mismatch"
    if all(py_eq(a, b) for a, b in zip(de, dc)):
        return True, "equal"
    if phase:
        kinds = {k for k, _ in dc}
        dtc = srcc
        if dtc is None:
            dtc = ("obj" if "none" in kinds else "str" if "str" in kinds else "complex" if "complex" in kinds else
                   "float" if "float" in kinds else "int" if "int" in kinds else "bool" if dc else "float")
        if dtc in ("bool", "str"):
            return False, "no sign to flip"
        if dtc == "obj":
            raise Abstain("object array phase")
        neg = [(("int" if k == "bool" else k), -v) for k, v in dc]
        return all(py_eq(a, b) for a, b in zip(de, neg)), "phase"
    return False, "differs"


def segs_of(entry):
    s = entry[5:] if entry.startswith("root.") else entry
    return tuple(s.split("."))


def spec_rec(q):
    """-> (verdict, tags) by the property's reading: key sets match minus forgiven paths (key boundaries),
    every leaf passes its rule, an overall sign flip of a leaf only where equal_phase asks for it."""
    o = q["o"]
    atol, rtol = hf(o["atol"]), hf(o["rtol"])
    if not (atol < 1):
        raise Abstain("atol >= 1 is refused")
    sites = []      # (path, ok_plain, ok_phase, tag)

    def leaf_values(e, c):
        r = []
        for ph in (False, True):
            r.append(spec_values(e, c, atol, rtol, False, ph, False)[0])
        return r

    def walk(e, c, path):
        k = e[0]
        if k == "dict":
            if c[0] != "dict":
                raise Abstain("dict against non-dict")
            ke, kc = [a for a, _ in e[1]], [a for a, _ in c[1]]
            if any("." in a for a in ke + kc):
                raise Abstain("dotted key")
            if set(ke) != set(kc):
                sites.append((path, False, False, "keys"))
            cd = dict((a, b) for a, b in c[1])
            for a, b in e[1]:
                if a in cd:
                    walk(b, cd[a], path + (a,))
        elif k == "list":
            if c[0] == "list":
                cs = c[2]
            elif c[0] == "arr" and len(c[2]) >= 1:
                dt, sh, data = c[1], c[2], c[3]
                if len(sh) == 1:
                    cs = [["sc", dt != "obj", a, b] for a, b in data]
                else:
                    n = int(np.prod(sh[1:]))
                    cs = [["arr", dt, sh[1:], data[i * n:(i + 1) * n]] for i in range(sh[0])]
            elif c[0] == "sc" and c[2] != "str" or (c[0] == "arr"):
                sites.append((path, False, False, "unsized"))
                return
            else:
                raise Abstain("list against str/dict/set")
            if len(cs) != len(e[2]):
                sites.append((path, False, False, "length"))
                return
            for i, (a, b) in enumerate(zip(e[2], cs)):
                walk(a, b, path + (str(i),))
        elif k == "sc":
            np_, kind = e[1], e[2]
            if kind == "none":
                ok = c[0] == "sc" and c[2] == "none"
                sites.append((path, ok, ok, "none"))
            elif kind in ("str", "complex") or (kind in ("int", "bool") and not np_) or (kind == "bool" and np_):
                if c[0] == "arr":
                    raise Abstain("exact leaf against ndarray")
                if c[0] != "sc":
                    ok = False
                else:
                    if c[2] == "int" and abs(c[3]) >= 2 ** 53 or kind == "int" and abs(e[3]) >= 2 ** 53:
                        raise Abstain("big int")
                    ok = py_eq((kind, sval(kind, e[3])), (c[2], sval(c[2], c[3])))
                sites.append((path, ok, ok, "exact"))
            else:
                a, b = leaf_values(e, c)
                sites.append((path, a, b, "float"))
        elif k == "arr":
            if e[1] == "float":
                a, b = leaf_values(e, c)
            else:
                a = spec_compare(e, c, False)[0]
                b = spec_compare(e, c, True)[0]
            sites.append((path, a, b, "arr"))
        else:
            raise Abstain("unknown type")

    walk(q["e"], q["c"], ())
    forg = [segs_of(f) for f in (o["forgive"] or [])]
    ep = o["equal_phase"]
    eps = None if ep is True else [] if ep is False else [segs_of(x) for x in ep]

    def under(p, entries):
        return any(p[:len(en)] == en for en in entries)
    verdict, tags = True, set()
    for path, okp, okn, tag in sites:
        if okp:
            continue
        if under(path, forg):
            continue
        if okn and (eps is None or under(path, eps)):
            continue
        verdict = False
        tags.add(tag)
    return verdict, tags


ORACLE_STATS = {}


def _stat(k):
    ORACLE_STATS[k] = ORACLE_STATS.get(k, 0) + 1


def spec_massage(t):
    """the normalisation compare_molrecs promises (str files, int separators, version dropped, bonds as (min, max, order)
    in first-atom order), written independently on abstract trees"""
    if t[0] != "dict":
        raise Abstain("record is not a dict")
    out = []
    for k, v in t[1]:
        if k == "fragment_files":
            if v[0] != "list" or any(x[0] != "sc" or x[2] != "str" for x in v[2]):
                raise Abstain("fragment_files")
            v = L([S(x[3]) for x in v[2]])
        elif k == "fragment_separators":
            items = v[2] if v[0] == "list" else [["sc", True] + list(x) for x in v[3]] if (v[0] == "arr" and v[1] == "int" and len(v[2]) == 1) else None
            if items is None or any(x[0] != "sc" or x[2] not in ("none", "int", "bool") for x in items):
                raise Abstain("fragment_separators")
            v = L([NONE if x[2] == "none" else I(int(x[3])) for x in items])
        elif k == "provenance":
            if v[0] != "dict" or "version" not in [kk for kk, _ in v[1]]:
                raise Abstain("provenance without version")
            v = D([(kk, vv) for kk, vv in v[1] if kk != "version"])
        elif k == "connectivity":
            if v[0] != "list":
                raise Abstain("connectivity")
            bonds = []
            for b in v[2]:
                if b[0] != "list" or len(b[2]) != 3 or any(x[0] != "sc" or x[2] != "int" for x in b[2][:2]):
                    raise Abstain("bond")
                a1, a2, bo = b[2]
                lo, hi = (a1, a2) if a1[3] < a2[3] else (a2, a1) if a2[3] < a1[3] else (a1, a1)
                bonds.append(L([lo, hi, bo], tup=True))
            bonds.sort(key=lambda b: b[2][0][3])
            v = L(bonds)
        out.append((k, v))
    return D(out)


def oracle(q, out):
    """None (fine / abstained) or a dict describing the violation."""
    if q["fn"] in ("rec", "mol") and hf(q["o"]["atol"]) >= 1:
        # the documented refusal (since v0.4.0 an atol >= 1 is no longer read as 10**-atol): ValueError, whatever the data
        _stat("oracle_judges_refusal")
        if out == ("Raise", "EValue"):
            return None
        got = f"returned {out[1]}" if out[0] == "Ok" else f"raised {out[1]}" if out[0] == "Raise" else out[1]
        return {"what": f"{q['fn']}: atol >= 1 must be refused with ValueError, the implementation {got}", "want": "ValueError", "tag": "refusal"}
    try:
        if q["fn"] == "values":
            o = q["o"]
            want, tag = spec_values(q["e"], q["c"], hf(o["atol"]), hf(o["rtol"]), o["equal_nan"], o["equal_phase"], o["passnone"])
        elif q["fn"] == "compare":
            want, tag = spec_compare(q["e"], q["c"], q["o"]["equal_phase"])
        elif q["fn"] == "mol":
            want, tag = spec_rec({"o": q["o"], "e": spec_massage(q["e"]), "c": spec_massage(q["c"])})
            tag = sorted(tag)
        else:
            want, tag = spec_rec(q)
            tag = sorted(tag)
            o = q["o"]
            if o["forgive"] and spec_rec({"o": dict(o, forgive=None), "e": q["e"], "c": q["c"]})[0] != want:
                _stat("rec_forgive_decides")
            if o["equal_phase"] and spec_rec({"o": dict(o, equal_phase=False), "e": q["e"], "c": q["c"]})[0] != want:
                _stat("rec_equal_phase_decides")
    except Abstain:
        _stat("oracle_abstains_" + q["fn"])
        return None
    _stat("oracle_judges_" + q["fn"])
    if out == ("Ok", want):
        return None
    got = f"returned {out[1]}" if out[0] == "Ok" else f"raised {out[1]}" if out[0] == "Raise" else out[1]
    return {"what": f"{q['fn']}: the property requires {want}, the implementation {got}", "want": want, "tag": tag}


# ------------------------------------------------------------------------------------------------------
# generators

def nxt(x, k):
    for _ in range(abs(k)):
        x = math.nextafter(x, math.inf if k > 0 else -math.inf)
    return x


def opts_v(atol=1e-6, rtol=1e-16, equal_nan=False, equal_phase=False, passnone=False):
    return {"atol": fh(atol), "rtol": fh(rtol), "equal_nan": equal_nan, "equal_phase": equal_phase, "passnone": passnone}


def opts_r(atol=1e-6, rtol=1e-16, forgive=None, equal_phase=False):
    return {"atol": fh(atol), "rtol": fh(rtol), "forgive": forgive, "equal_phase": equal_phase}


def QV(e, c, **kw):
    return {"fn": "values", "o": opts_v(**kw), "e": e, "c": c}


def QC(e, c, equal_phase=False):
    return {"fn": "compare", "o": {"equal_phase": equal_phase}, "e": e, "c": c}


def QR(e, c, via="direct", **kw):
    return {"fn": "rec", "o": opts_r(**kw), "e": e, "c": c, "via": via}


SHAPES = [(), (1,), (3,), (2, 2), (2, 1, 3), (1, 1, 1)]
MISMATCH = [((3,), (1, 3)), ((2, 2), (4,)), ((), (1,)), ((1,), ()), ((2, 3), (3, 2)), ((0,), ()), ((2, 0), (0,)), ((0,), (0,)),
            ((2, 0), (2, 0)), ((2, 1, 3), (2, 3))]


def nest(shape, vals):
    """values (abstract scalars as trees) laid out as nested lists of the given shape"""
    if not shape:
        return vals[0]
    n = len(vals) // shape[0] if shape[0] else 0
    return L([nest(shape[1:], vals[i * n:(i + 1) * n]) for i in range(shape[0])])


def build(rng, shape, scalars, kind, allow_arr=True, allow_tuple=True):
    """scalars: python values of one kind; representation chosen at random: nested list / tuple / ndarray"""
    mk = {"float": F, "int": I, "bool": B, "complex": C, "str": S}[kind]
    size = int(np.prod(shape)) if shape else 1
    assert len(scalars) == size
    r = rng.random()
    if allow_arr and r < 0.4:
        return A(kind, shape, [mk(v)[2:] for v in scalars])
    if not shape:
        return mk(scalars[0], np_=(rng.random() < 0.25))
    t = nest(shape, [mk(v) for v in scalars])
    if allow_tuple and rng.random() < 0.2:
        t[1] = True
    return t


ATOLS = [1e-12, 1e-11, 1e-10, 1e-9, 1e-8, 1e-7, 1e-6, 1e-5, 1e-4, 1e-3, 1e-2, 1e-1]
RTOLS = [1e-16, 1e-8, 1e-6, 1e-4, 1e-2]
REFS = [0.0, 1.0, -1.0, 3.75, -123.456, 1e-7, -2.5e-3, 1e10, 6.02214076e23, 0.1, -0.3, 1e-300, 2.0 ** -1060, 1.7e308, 4.35974e-18]
WORDS = ["abc", "x", "", "geom", "Foo", "a b", "hello_w", "zz", "water"]      # never numeric-looking


def gen_edge_real(ctx, n_per):
    """references + perturbations just below / at / just above atol + rtol*|e| (nextafter), in all shapes"""
    rng = ctx.rng
    out = []
    for atol in ATOLS:
        for rtol in RTOLS:
            for ref in REFS:
                T = atol + rtol * abs(ref)
                for sgn in (1, -1):
                    c0 = ref + sgn * T
                    if not math.isfinite(c0):
                        continue
                    for k in rng.sample([-3, -2, -1, 0, 1, 2, 3], n_per):
                        cval = nxt(c0, k)
                        if not math.isfinite(cval):
                            continue
                        shape = rng.choice(SHAPES)
                        size = int(np.prod(shape)) if shape else 1
                        pos = rng.randrange(size)
                        ev = [rng.choice(REFS[:9]) for _ in range(size)]
                        cv = list(ev)
                        ev[pos], cv[pos] = ref, cval
                        flags = dict(equal_nan=rng.random() < 0.3, equal_phase=rng.random() < 0.4, passnone=rng.random() < 0.2)
                        if flags["equal_phase"] and rng.random() < 0.6:
                            cv = [-v for v in cv]          # an overall sign flip
                        out.append(("edge-real", QV(build(rng, shape, ev, "float"), build(rng, shape, cv, "float"),
                                                    atol=atol, rtol=rtol, **flags)))
    return out


def gen_values_misc(ctx, n):
    rng = ctx.rng
    out = []
    inf, nan = math.inf, math.nan
    special = [nan, inf, -inf, 0.0, -0.0, 1.0, -1.0, 1.7e308, -1.7e308, 5e-324]
    for a in special:
        for b in special:
            for eqn in (False, True):
                for ph in (False, True):
                    out.append(("nonfinite", QV(F(a), F(b), equal_nan=eqn, equal_phase=ph)))
    for a in special[:6]:
        for b in special[:6]:
            out.append(("nonfinite", QV(L([F(1.0), F(a)]), A("float", (2,), [F(1.0)[2:], F(b)[2:]]),
                                        equal_nan=rng.random() < 0.5, equal_phase=rng.random() < 0.5, rtol=rng.choice(RTOLS))))
    # passnone / None
    for pn in (False, True):
        for eqn in (False, True):
            out.append(("none", QV(NONE, NONE, passnone=pn, equal_nan=eqn)))
            out.append(("none", QV(NONE, F(1.0), passnone=pn, equal_nan=eqn)))
            out.append(("none", QV(F(1.0), NONE, passnone=pn, equal_nan=eqn)))
            out.append(("none", QV(L([NONE, F(1.0)]), L([NONE, F(1.0)]), passnone=pn, equal_nan=eqn)))
            out.append(("none", QV(C(1 + 1j), C(1 + 1j), passnone=pn, equal_nan=eqn)))
            out.append(("none", QV(L([NONE, C(1j)]), L([NONE, C(1j)]), passnone=pn, equal_nan=eqn)))
    # shapes equal / mismatched, dtypes
    for _ in range(n):
        kind = rng.choice(["float", "float", "int", "bool", "str", "complex"])
        if rng.random() < 0.5:
            she, shc = rng.choice(MISMATCH)
        else:
            she = shc = rng.choice(SHAPES + [(0,), (2, 0)])
        atol = rng.choice(ATOLS)
        rtol = rng.choice(RTOLS)
        se = int(np.prod(she)) if she else 1
        sc_ = int(np.prod(shc)) if shc else 1

        def val(kind):
            if kind == "float":
                return rng.choice(REFS[:9])
            if kind == "int":
                return rng.choice([0, 1, -1, 2, 7, -40, 2 ** 40, 2 ** 53 - 1])
            if kind == "bool":
                return rng.random() < 0.5
            if kind == "str":
                return rng.choice(WORDS)
            return complex(rng.choice([0.0, 1.0, -2.5, 3.0]), rng.choice([0.0, 4.0, -1.0]))
        ev = [val(kind) for _ in range(se)]
        ckind = kind if rng.random() < 0.6 else rng.choice(["float", "int", "bool"])
        if she == shc and ckind == kind and rng.random() < 0.7:
            cv = list(ev)
            if cv and kind in ("float", "complex") and rng.random() < 0.5:
                p = rng.randrange(len(cv))
                cv[p] = cv[p] + rng.choice([0.3, 3.0, -0.5]) * (atol + rtol * abs(cv[p]))
            if kind != "str" and kind != "bool" and rng.random() < 0.3:
                cv = [-v for v in cv]
        elif she == shc and kind in ("int", "bool") and ckind in ("float", "int", "bool"):
            conv = {"float": float, "int": int, "bool": lambda v: bool(v)}[ckind]
            cv = [conv(v) for v in ev]
            if cv and ckind == "float" and rng.random() < 0.5:
                p = rng.randrange(len(cv))
                cv[p] = cv[p] + rng.choice([0.3, 3.0]) * atol
        else:
            cv = [val(ckind) for _ in range(sc_)]
        if kind == "int" and any(abs(v) >= 2 ** 53 for v in ev):
            continue
        out.append(("shapes-dtypes", QV(build(rng, she, ev, kind), build(rng, shc, cv, ckind), atol=atol, rtol=rtol,
                                        equal_nan=rng.random() < 0.2, equal_phase=rng.random() < 0.4)))
    # not castable / ragged / objects
    bad = [L([L([F(1.0), F(2.0)]), L([F(3.0)])]), D([("a", F(1.0))]), ["other"], L([D([("a", F(1.0))])]), S("abc"), L([S("x"), F(1.0)]),
           L([F(1.0), L([F(2.0)])]), L([]), L([L([]), L([])]), L([C(1j), S("x")]), L([NONE, C(1j)])]
    good = [F(1.0), L([F(1.0), F(2.0)]), L([L([F(1.0), F(2.0)]), L([F(3.0), F(4.0)])]), L([]), A("float", (0, 3), []), C(1j)]
    for x in bad:
        for y in bad + good:
            out.append(("uncastable", QV(x, y, equal_phase=rng.random() < 0.3)))
            out.append(("uncastable", QV(y, x, equal_phase=rng.random() < 0.3)))
    # tolerances outside the quantifier (modelled: the exceptions of the message formatting)
    for a in (0.0, -0.0, -1e-6, math.nan, math.inf, -math.inf, 5e-324, 2.0, 1e300):
        out.append(("odd-atol", QV(F(1.0), F(1.0), atol=a)))
        out.append(("odd-atol", QV(F(1.0), F(2.5), atol=a)))
        out.append(("odd-atol", QV(F(1.0), L([F(1.0)]), atol=a)))
        out.append(("odd-atol", QV(S("abc"), F(1.0), atol=a)))
        out.append(("odd-atol", QV(NONE, NONE, atol=a, passnone=True)))
    return out


def gen_complex(ctx, n_per):
    """complex data: axis-aligned edge cases (exact in binary64) and general positions kept off the edge"""
    rng = ctx.rng
    out = []
    refs = [complex(3, 0), complex(0, -2.5), complex(0, 0), complex(1e-7, 0), complex(0, 1e10), complex(-123.456, 0)]
    for atol in ATOLS[::2]:
        for rtol in RTOLS:
            for ref in refs:
                T = atol + rtol * abs(ref)     # abs exact: one part is zero
                for axis in (0, 1):
                    for sgn in (1, -1):
                        base = (ref.real if axis == 0 else ref.imag) + sgn * T
                        for k in rng.sample([-2, -1, 0, 1, 2], n_per):
                            v = nxt(base, k)
                            cval = complex(v, ref.imag) if axis == 0 else complex(ref.real, v)
                            shape = rng.choice(SHAPES[:4])
                            size = int(np.prod(shape)) if shape else 1
                            pos = rng.randrange(size)
                            ev = [rng.choice(refs) for _ in range(size)]
                            cv = list(ev)
                            ev[pos], cv[pos] = ref, cval
                            ph = rng.random() < 0.4
                            if ph and rng.random() < 0.6:
                                cv = [-z for z in cv]
                            out.append(("edge-complex", QV(build(rng, shape, ev, "complex"), build(rng, shape, cv, "complex"),
                                                           atol=atol, rtol=rtol, equal_phase=ph, equal_nan=rng.random() < 0.2)))
    gen_refs = [complex(3, 4), complex(-1.5, 2.25), complex(1e-3, -2e-3), complex(6e5, 1e5)]
    for atol in ATOLS[::3]:
        for rtol in RTOLS[::2]:
            for ref in gen_refs:
                T = atol + rtol * abs(ref)
                for fac in (0.0, 0.5, 0.999, 1.001, 2.0, 1e3, 1 - 2.0 ** -40, 1 + 2.0 ** -40, 1 - 2.0 ** -44, 1 + 2.0 ** -44):
                    th = rng.random() * 6.28
                    cval = ref + fac * T * complex(math.cos(th), math.sin(th))
                    shape = rng.choice([(1,), (2,), (2, 2)])
                    size = int(np.prod(shape))
                    pos = rng.randrange(size)
                    ev = [rng.choice(gen_refs) for _ in range(size)]
                    cv = list(ev)
                    ev[pos], cv[pos] = ref, cval
                    out.append(("general-complex", QV(build(rng, shape, ev, "complex"), build(rng, shape, cv, "complex"),
                                                      atol=atol, rtol=rtol, equal_phase=rng.random() < 0.3)))
    # mixed: complex reference against real computed and the reverse
    for ref, cv in [(complex(1, 0), 1.0), (complex(1, 1e-9), 1.0), (complex(1, 1e-3), 1.0), (complex(2, 0), 1)]:
        out.append(("mixed-complex", QV(L([C(ref)]), L([F(cv)]))))
        out.append(("mixed-complex", QV(L([F(cv)]), L([C(ref)]))))
        out.append(("mixed-complex", QV(A("float", (1,), [F(cv)[2:]]), L([C(ref)]))))
        out.append(("mixed-complex", QV(A("complex", (1,), [C(ref)[2:]]), A("float", (1,), [F(cv)[2:]]))))
    nanc = [complex(math.nan, 0), complex(0, math.nan), complex(math.inf, 0), complex(0, -math.inf), complex(1, 1)]
    for a in nanc:
        for b in nanc:
            for eqn in (False, True):
                out.append(("nonfinite-complex", QV(L([C(a)]), L([C(b)]), equal_nan=eqn, equal_phase=rng.random() < 0.3)))
    return out


def gen_compare(ctx, n):
    rng = ctx.rng
    out = []

    def val(kind):
        if kind == "float":
            return rng.choice([0.0, -0.0, 1.0, -1.0, 2.5, math.nan, math.inf, 1e-300])
        if kind == "int":
            return rng.choice([0, 1, -1, 2, 7, -40, 2 ** 40])
        if kind == "bool":
            return rng.random() < 0.5
        if kind == "str":
            return rng.choice(WORDS)
        if kind == "complex":
            return complex(rng.choice([0.0, 1.0, -2.5]), rng.choice([0.0, 4.0, -1.0]))
    for _ in range(n):
        kind = rng.choice(["int", "int", "bool", "str", "float", "complex"])
        if rng.random() < 0.3:
            she, shc = rng.choice(MISMATCH)
        else:
            she = shc = rng.choice(SHAPES + [(0,), (2, 0)])
        se = int(np.prod(she)) if she else 1
        sc_ = int(np.prod(shc)) if shc else 1
        ev = [val(kind) for _ in range(se)]
        r = rng.random()
        ckind = kind
        if she == shc and r < 0.45:
            cv = list(ev)
        elif she == shc and r < 0.65 and kind not in ("str",):
            cv = [(-v if kind != "bool" else v) for v in ev]
        elif she == shc and r < 0.8 and kind in ("int", "bool", "float"):
            ckind = rng.choice(["int", "float", "bool", "complex"])
            conv = {"float": float, "int": int, "bool": bool, "complex": complex}[ckind]
            try:
                cv = [conv(v) for v in ev]
            except (ValueError, OverflowError):
                cv = list(ev)
                ckind = kind
        else:
            ckind = kind if rng.random() < 0.7 else rng.choice(["int", "str", "float", "bool"])
            cv = [val(ckind) for _ in range(sc_)]
            if cv and she == shc and ckind == kind and rng.random() < 0.5:
                cv = list(ev)
                cv[rng.randrange(len(cv))] = val(kind)
        out.append(("compare", QC(build(rng, she, ev, kind), build(rng, shc, cv, ckind), equal_phase=rng.random() < 0.5)))
    extra = [(NONE, NONE), (NONE, I(1)), (L([NONE, I(1)]), L([NONE, F(1.0)])), (L([NONE, I(1)]), L([NONE, I(-1)])),
             (L([B(True), I(2)]), L([I(-1), I(-2)])), (B(True), B(False)), (L([B(True)]), L([B(True)])),
             (L([L([I(1), I(2)]), L([I(3)])]), L([L([I(1), I(2)]), L([I(3)])])), (L([I(1)]), L([L([I(1), I(2)]), L([I(3)])])),
             (S("a"), I(1)), (L([S("a")]), L([I(1)])), (A("int", (2,), [I(1)[2:], I(2)[2:]]), A("float", (2,), [F(1.0)[2:], F(2.0)[2:]])),
             (A("obj", (2,), [NONE[2:], I(1)[2:]]), L([NONE, I(1)])), (A("bool", (1,), [B(True)[2:]]), L([I(1)])),
             (L([F(math.nan)]), L([F(math.nan)])), (F(0.0), F(-0.0))]
    for e, c in extra:
        for ph in (False, True):
            out.append(("compare", QC(e, c, equal_phase=ph)))
            out.append(("compare", QC(c, e, equal_phase=ph)))
    return out


KEYS = ["a", "b", "geom", "geometry", "geo", "k1", "x_y", "energy", "e", "0", "1", "root", "A", "", "mol", "molecule"]


class TreeGen:
    def __init__(self, rng, atol, rtol):
        self.rng, self.atol, self.rtol = rng, atol, rtol

    def fval(self):
        return self.rng.choice([0.0, 1.0, -1.0, 3.75, -123.456, 1e-7, 0.5, 2.0, 1e5, -0.25])

    def leaf(self):
        rng = self.rng
        r = rng.random()
        if r < 0.40:
            return F(self.fval(), np_=rng.random() < 0.15)
        if r < 0.50:
            return I(rng.choice([0, 1, -1, 2, 7, 42, -40]), np_=rng.random() < 0.25)
        if r < 0.57:
            return B(rng.random() < 0.5, np_=rng.random() < 0.3)
        if r < 0.66:
            return S(rng.choice(WORDS), np_=rng.random() < 0.1)
        if r < 0.71:
            return C(complex(rng.choice([0.0, 1.0, -2.5]), rng.choice([1.0, 4.0, -1.0])), np_=rng.random() < 0.2)
        if r < 0.76:
            return NONE
        if r < 0.78:
            return ["other"]
        shape = rng.choice([(1,), (3,), (2, 2), (2, 1, 3), (), (0,)])
        size = int(np.prod(shape)) if shape else 1
        kind = rng.choice(["float", "float", "float", "int", "bool", "str", "complex"])
        mk = {"float": lambda: F(self.fval()), "int": lambda: I(rng.choice([0, 1, -3, 7])), "bool": lambda: B(rng.random() < 0.5),
              "str": lambda: S(rng.choice(WORDS)), "complex": lambda: C(complex(rng.choice([1.0, -2.5]), rng.choice([4.0, -1.0])))}[kind]
        return A(kind, shape, [mk()[2:] for _ in range(size)])

    def tree(self, depth):
        rng = self.rng
        if depth <= 0 or rng.random() < 0.25:
            return self.leaf()
        if rng.random() < 0.6:
            ks = rng.sample(KEYS, rng.choice([1, 2, 2, 3, 4]))
            return D([(k, self.tree(depth - 1)) for k in ks])
        return L([self.tree(depth - 1) for _ in range(rng.choice([0, 1, 2, 3]))], tup=rng.random() < 0.2)

    def perturb_f(self, x):
        """a value below / at / above the tolerance edge around x"""
        rng = self.rng
        T = self.atol + self.rtol * abs(x)
        r = rng.random()
        if r < 0.55:
            return nxt(x + rng.choice([1, -1]) * T, rng.choice([-2, -1, 0, 1, 2]))
        if r < 0.75:
            return x + rng.choice([0.3, -0.7]) * T
        return x + rng.choice([5.0, -40.0, 1e6]) * T

    def mutate(self, t, rate, confuse):
        """computed tree from the expected one"""
        rng = self.rng
        k = t[0]
        hit = rng.random() < rate
        if k == "sc":
            np_, kind, val = t[1], t[2], t[3]
            if not hit:
                if kind == "float" and rng.random() < 0.2:
                    return F(hf(val), np_=not np_)
                return [k, np_, kind, val]
            if kind == "float" or (kind == "int" and np_):
                x = hf(val) if kind == "float" else float(val)
                r = rng.random()
                if r < 0.6:
                    return F(self.perturb_f(x), np_=rng.random() < 0.2)
                if r < 0.8:
                    return F(-x if x != 0 else 1.0)
                if r < 0.9 and confuse:
                    return rng.choice([NONE, S("abc"), L([F(x)]), I(3), B(True)])
                return F(x + 1.0)
            if kind == "int":
                return rng.choice([I(val + 1), I(-val if val else 5), F(float(val) + 1e-9), F(float(val)), B(bool(val))])
            if kind == "bool":
                return rng.choice([B(not val), B(not val, np_=True), B(val, np_=not np_), I(int(val)), I(int(val) + 1), F(float(val))])
            if kind == "str":
                return rng.choice([S(val + "x"), S(val, np_=True), S("zz" if val != "zz" else "q")])
            if kind == "complex":
                z = sval(kind, val)
                return rng.choice([C(z + 1e-9), C(-z), C(z, np_=not np_), C(z.conjugate())])
            if kind == "none":
                return rng.choice([F(0.0), S(""), B(False)]) if confuse else NONE
        if k == "arr":
            dt, shape, data = t[1], t[2], t[3]
            if not hit:
                if rng.random() < 0.3 and dt != "str" and len(shape) >= 1 and all(shape):
                    return nest(tuple(shape), [["sc", False, a, b] for a, b in data])     # same data as nested lists
                return A(dt, shape, data)
            r = rng.random()
            if r < 0.15:
                return A(dt, list(shape) + [1], data)                    # shape mismatch
            if not data:
                return A(dt, shape, data)
            d2 = [list(s) for s in data]
            if r < 0.4 and dt in ("float", "int", "complex"):
                d2 = [["sc", False] + s for s in d2]
                d2 = [self._neg(s)[2:] for s in d2]                      # overall sign flip
                return A(dt, shape, d2)
            p = rng.randrange(len(d2))
            if dt == "float":
                d2[p] = F(self.perturb_f(hf(d2[p][1])))[2:]
            elif dt == "int":
                d2[p] = I(d2[p][1] + 1)[2:]
            elif dt == "bool":
                d2[p] = B(not d2[p][1])[2:]
            elif dt == "str":
                d2[p] = S(d2[p][1] + "y")[2:]
            else:
                d2[p] = C(sval("complex", d2[p][1]) + 1e-9)[2:]
            return A(dt, shape, d2)
        if k == "list":
            items = [self.mutate(x, rate, confuse) for x in t[2]]
            if hit:
                r = rng.random()
                if r < 0.4 and items:
                    items = items[:-1]
                elif r < 0.8:
                    items = items + [F(1.0)]
                elif confuse:
                    return rng.choice([F(1.0), NONE, I(2)])
            return L(items, tup=(t[1] if rng.random() < 0.8 else not t[1]))
        if k == "dict":
            pairs = [[kk, self.mutate(v, rate, confuse)] for kk, v in t[1]]
            if hit:
                r = rng.random()
                have = {kk for kk, _ in pairs}
                if r < 0.4 and pairs:
                    pairs.pop(rng.randrange(len(pairs)))
                elif r < 0.8:
                    new = [kk for kk in KEYS if kk not in have]
                    if new:
                        pairs.append([rng.choice(new), F(1.0)])
                else:
                    rng.shuffle(pairs)
            elif rng.random() < 0.3:
                rng.shuffle(pairs)
            return ["dict", pairs]
        return ["other"]

    def flip(self, t, rate, paths, path=()):
        """computed tree = expected with an overall sign flip at some float / int / complex leaves and arrays;
        the paths of the flipped nodes are appended to [paths]"""
        rng = self.rng
        k = t[0]
        if k == "sc":
            if t[2] in ("float", "int", "complex") and rng.random() < rate and sval(t[2], t[3]) != 0:
                paths.append(path)
                r = self._neg(t)
                r[1] = t[1]
                return r
            return list(t)
        if k == "arr":
            if t[1] in ("float", "int", "complex") and t[3] and rng.random() < rate:
                paths.append(path)
                data = [self._neg(["sc", False] + list(x))[2:] for x in t[3]]
                if rng.random() < 0.25:                # a partial flip is not a phase
                    data[0] = list(t[3][0])
                return A(t[1], t[2], data)
            return A(t[1], t[2], t[3])
        if k == "list":
            return L([self.flip(x, rate, paths, path + (str(i),)) for i, x in enumerate(t[2])], tup=t[1])
        if k == "dict":
            return ["dict", [[kk, self.flip(v, rate, paths, path + (kk,))] for kk, v in t[1]]]
        return ["other"]

    def one_edge(self, t, paths, path=()):
        """perturb exactly one float leaf (first found at random) around the tolerance edge"""
        rng = self.rng
        floats = [pp for pp in leaf_paths(t) if pp[1][0] == "sc" and pp[1][2] == "float"]
        if not floats:
            return t
        target = rng.choice(floats)[0]
        paths.append(target)

        def go(x, pth):
            if pth == target:
                return F(self.perturb_f(hf(x[3])), np_=x[1])
            if x[0] == "list":
                return L([go(y, pth + (str(i),)) for i, y in enumerate(x[2])], tup=x[1])
            if x[0] == "dict":
                return ["dict", [[kk, go(v, pth + (kk,))] for kk, v in x[1]]]
            return x
        return go(t, ())

    @staticmethod
    def _neg(s):
        kind, val = s[2], s[3]
        if kind == "float":
            return F(-hf(val))
        if kind == "int":
            return I(-val)
        if kind == "complex":
            return C(-sval(kind, val))
        return s


def leaf_paths(t, path=()):
    if t[0] == "dict":
        for k, v in t[1]:
            yield from leaf_paths(v, path + (k,))
    elif t[0] == "list":
        for i, v in enumerate(t[2]):
            yield from leaf_paths(v, path + (str(i),))
    else:
        yield (path, t)


def node_paths(t, path=()):
    yield path
    if t[0] == "dict":
        for k, v in t[1]:
            yield from node_paths(v, path + (k,))
    elif t[0] == "list":
        for i, v in enumerate(t[2]):
            yield from node_paths(v, path + (str(i),))


def entries_from(rng, paths, n):
    """forgive / equal_phase entries: exact paths, parent paths, prefix-but-not-parent strings, unrelated"""
    out = []
    paths = [p for p in paths if p]
    for _ in range(n):
        r = rng.random()
        if paths and r < 0.8:
            p = rng.choice(paths)
            r2 = rng.random()
            if r2 < 0.35:
                s = ".".join(p)
            elif r2 < 0.6:
                s = ".".join(p[:rng.randrange(1, len(p) + 1)])
            elif r2 < 0.85:
                s = ".".join(p)
                s = s[:max(1, len(s) - rng.choice([1, 2, 3]))] if len(s) > 1 else s + "x"    # string prefix, not a parent
            else:
                s = ".".join(p) + rng.choice(["x", ".", "0", ".zz"])
            if rng.random() < 0.3:
                s = "root." + s
            out.append(s)
        else:
            out.append(rng.choice(["geom", "a", "root", "", "a.b", "root.a", "b.0", "zz", "roo", "root."]))
    return out


def gen_rec(ctx, n, dotted=False, mode="mixed"):
    rng = ctx.rng
    out = []
    for _ in range(n):
        if mode != "mixed":
            atol = rng.choice([1e-9, 1e-6, 1e-4])
            rtol = rng.choice([1e-16, 1e-8])
            g = TreeGen(rng, atol, rtol)
            e = g.tree(rng.choice([2, 3, 4]))
            if e[0] != "dict":
                e = D([(rng.choice(KEYS), e)])
            hot = []
            if mode == "phase":
                c = g.flip(e, rng.choice([0.3, 0.6, 1.0]), hot)
                if rng.random() < 0.3:
                    c = g.one_edge(c, [])
                fg = None if rng.random() < 0.7 else entries_from(rng, hot or [("a",)], 1)
                r = rng.random()
                ep = True if r < 0.35 else False if r < 0.45 else entries_from(rng, hot or [("a",)], rng.choice([1, 2, 3]))
            else:
                c = g.one_edge(e, hot)
                if rng.random() < 0.3:
                    c = g.one_edge(c, hot)
                fg = entries_from(rng, hot or [("a",)], rng.choice([1, 1, 2, 3]))
                ep = False if rng.random() < 0.8 else True
            out.append(("recursive-" + mode, QR(e, c, atol=atol, rtol=rtol, forgive=fg, equal_phase=ep)))
            continue
        atol = rng.choice([1e-12, 1e-9, 1e-6, 1e-6, 1e-4, 1e-1])
        rtol = rng.choice([1e-16, 1e-16, 1e-8, 1e-2])
        g = TreeGen(rng, atol, rtol)
        e = g.tree(rng.choice([1, 2, 3, 4]))
        if rng.random() < 0.9 and e[0] != "dict":
            e = D([(rng.choice(KEYS), e)])
        confuse = rng.random() < 0.15
        c = g.mutate(e, rng.choice([0.0, 0.1, 0.3]), confuse)
        if dotted:
            # keys containing dots / colliding paths: only the model is compared (the oracle abstains)
            e = D([("a.b", F(1.0)), ("a", e), ("x.", F(2.0))])
            c = D([("a.b", F(rng.choice([1.0, 2.0]))), ("a", c), ("x.", F(rng.choice([2.0, 3.0])))])
        paths = list(node_paths(e)) + list(node_paths(c))
        forgive = None if rng.random() < 0.35 else entries_from(rng, paths, rng.choice([0, 1, 1, 2, 3]))
        r = rng.random()
        ep = False if r < 0.45 else True if r < 0.7 else entries_from(rng, paths, rng.choice([0, 1, 2]))
        via = "direct"
        if e[0] == "dict" and c[0] == "dict" and rng.random() < 0.12 and \
                all(kk.isidentifier() for kk, _ in e[1] + c[1]):
            via = "model"
        out.append(("recursive-dotted" if dotted else "recursive", QR(e, c, via=via, atol=atol, rtol=rtol, forgive=forgive, equal_phase=ep)))
    return out


def gen_confusion(ctx, reps):
    """expected / computed nodes of different kinds (outside the property's quantifier: only model vs implementation)"""
    rng = ctx.rng
    fa = lambda sh, vals: A("float", sh, [F(v)[2:] for v in vals])
    ia = lambda sh, vals: A("int", sh, [I(v)[2:] for v in vals])
    exp = {"dict": D([("x", F(1.0)), ("y", I(2))]), "dict0": D([]), "list": L([F(1.0), F(2.0)]), "list0": L([]), "list1": L([S("a")]),
           "list2": L([L([F(1.0), F(2.0)])]), "tuple": L([I(1), I(2)], tup=True), "float": F(1.0), "npfloat": F(1.0, np_=True),
           "npint": I(1, np_=True), "int": I(1), "bool": B(True), "str": S("ab"), "cplx": C(1 + 2j), "none": NONE,
           "farr": fa((2,), [1.0, 2.0]), "farr0": fa((), [1.0]), "farr2": fa((1, 2), [1.0, 2.0]), "iarr": ia((2,), [1, 2]),
           "sarr": A("str", (1,), [S("a")[2:]]), "barr": A("bool", (2,), [B(True)[2:], B(False)[2:]]), "other": ["other"]}
    com = dict(exp)
    com.update({"str1": S("a"), "str0": S(""), "dictk": D([("a", I(1))]), "dictxy": D([("x", F(1.0)), ("y", I(2)), ("z", NONE)]),
                "list3": L([F(1.0), F(2.0), F(3.0)]), "f2": F(2.0), "i2": I(2), "false": B(False), "oarr": A("obj", (2,), [NONE[2:], I(1)[2:]]),
                "farr_neg": fa((2,), [-1.0, -2.0]), "nplist": L([F(1.0, np_=True), I(2, np_=True)])})
    exact = {"int", "bool", "str", "cplx"}
    out = []
    for ke, e in exp.items():
        for kc, c in com.items():
            if ke in exact and c[0] == "arr":
                continue                      # truth value of an elementwise comparison: outside the model
            if e[0] == "list" and c[0] == "other":
                continue                      # iteration order of a set
            if ke in ("iarr", "sarr", "barr") and c[0] in ("dict", "other"):
                continue                      # object arrays holding a dict / set
            if ke in ("list1", "tuple") and c[0] == "arr" and len(c[2]) >= 2:
                continue                      # exact leaf against a sub-array
            for _ in range(reps):
                fg = rng.choice([None, None, ["k"], ["k.0"], ["k.x"], ["j"]])
                ep = rng.choice([False, False, True, ["k"]])
                if rng.random() < 0.5:
                    out.append(("confusion", QR(D([("k", e), ("j", F(1.0))]), D([("k", c), ("j", F(rng.choice([1.0, 1.5])))]),
                                                forgive=fg, equal_phase=ep, atol=rng.choice([1e-6, 1e-1]))))
                else:
                    out.append(("confusion", QR(e, c, forgive=fg, equal_phase=ep)))
    return out


def gen_molrecs(ctx, n):
    """molecule records through compare_molrecs: version / bond direction / separator types vary freely; geometry, charge,
    creator, bond order, keys are perturbed"""
    rng = ctx.rng
    out = []
    for _ in range(n):
        atol = rng.choice([1e-9, 1e-6, 1e-6, 1e-3])
        rtol = rng.choice([1e-16, 1e-8])
        g = TreeGen(rng, atol, rtol)
        nat = rng.choice([2, 3, 4])
        geom = [rng.choice([0.0, 1.4, -0.4, 1.2, 2.5, -3.1]) for _ in range(3 * nat)]
        bonds = [(i, j) for i in range(nat) for j in range(i + 1, nat) if rng.random() < 0.6]
        bos = {b: rng.choice([1.0, 2.0, 1.5]) for b in bonds}

        def record(ver, flip, septype, geomv, extra):
            bl = list(bonds)
            if flip == "perm":
                rng.shuffle(bl)
            conn = L([L(([I(j), I(i)] if (flip == "dir" and rng.random() < 0.5) else [I(i, np_=rng.random() < 0.2), I(j)]) + [F(bos[(i, j)])],
                        tup=rng.random() < 0.7) for i, j in bl])
            sep = {"arr": A("int", (1,), [I(1)[2:]]), "np": L([I(1, np_=True)]), "py": L([I(1)]), "none": L([NONE]), "empty": L([])}[septype]
            pairs = [("geom", A("float", (3 * nat,), [F(v)[2:] for v in geomv])),
                     ("elem", A("str", (nat,), [S(rng.choice(["H", "O", "C"]))[2:] for _ in range(nat)])),
                     ("fragment_separators", sep), ("fragment_files", L([S(w) for w in rng.sample(["a.xyz", "b.xyz"], rng.choice([0, 1, 2]))])),
                     ("fix_com", B(True)), ("molecular_charge", F(0.0)), ("units", S("Bohr")),
                     ("provenance", D([("creator", S("QCElemental")), ("version", S(ver)), ("routine", S("x"))])),
                     ("connectivity", conn)]
            return pairs + extra
        e_pairs = record("v0.1", "none", rng.choice(["arr", "np", "py"]), geom, [])
        geomc = list(geom)
        r = rng.random()
        flip = rng.choice(["none", "dir", "dir", "perm"])
        septype = rng.choice(["arr", "np", "py", "py", "none", "empty"] if rng.random() < 0.3 else ["arr", "np", "py"])
        extra = []
        if r < 0.35:
            p = rng.randrange(len(geomc))
            geomc[p] = g.perturb_f(geomc[p])
        elif r < 0.45:
            extra = [("comment", S("abc"))]
        c_pairs = record(rng.choice(["v0.1", "v9.9+3"]), flip, septype, geomc, extra)
        # keep the elem array identical, then perturb single fields
        c_pairs[1] = e_pairs[1]
        c_pairs[3] = e_pairs[3] if rng.random() < 0.8 else c_pairs[3]
        if 0.45 <= r < 0.52:
            c_pairs[5] = ("molecular_charge", F(1.0))
        elif 0.52 <= r < 0.58:
            c_pairs[7] = ("provenance", D([("creator", S("other")), ("version", S("v0.1")), ("routine", S("x"))]))
        elif 0.58 <= r < 0.62:
            c_pairs[7] = ("provenance", D([("creator", S("QCElemental")), ("routine", S("x"))]))       # KeyError (modelled)
        elif 0.62 <= r < 0.68 and bonds:
            c_pairs[8] = ("connectivity", L(c_pairs[8][1][2][:-1]))
        elif 0.68 <= r < 0.72:
            c_pairs = [x for x in c_pairs if x[0] != "units"]
        e, c = D(e_pairs), D(c_pairs)
        paths = list(node_paths(e))
        forgive = None if rng.random() < 0.5 else entries_from(rng, paths, rng.choice([1, 2])) if rng.random() < 0.5 else \
            [rng.choice(["geom", "connectivity", "provenance", "geo", "fragment_separators", "molecular_charge", "units", "comment"])]
        out.append(("molrecs-model", {"fn": "mol", "o": opts_r(atol=atol, rtol=rtol, forgive=forgive, equal_phase=False), "e": e, "c": c}))
    return out


def gen_defaults(ctx):
    """every public entry point called WITHOUT its option keywords: the signature defaults decide (documented: atol=1e-6,
    rtol=1e-16, all flags off); perturbations around that edge and inputs on which a flag would change the verdict"""
    rng = ctx.rng
    out = []
    for ref in REFS[:12]:
        T = 1e-6 + 1e-16 * abs(ref)
        for sgn in (1, -1):
            for k in (-2, -1, 0, 1, 2):
                cval = nxt(ref + sgn * T, k)
                if not math.isfinite(cval):
                    continue
                kind = rng.choice(["values", "values", "rec", "model", "mol"])
                if kind == "values":
                    q = QV(build(rng, (), [ref], "float"), build(rng, (), [cval], "float"))
                elif kind in ("rec", "model"):
                    q = QR(D([("a", F(ref)), ("b", I(1))]), D([("a", F(cval)), ("b", I(1))]), via=("model" if kind == "model" else "direct"))
                else:
                    prov = D([("creator", S("QCElemental")), ("version", S("v1"))])
                    q = {"fn": "mol", "o": opts_r(), "e": D([("geom", A("float", (3,), [F(0.0)[2:], F(ref)[2:], F(1.0)[2:]])), ("provenance", prov)]),
                         "c": D([("geom", A("float", (3,), [F(0.0)[2:], F(cval)[2:], F(1.0)[2:]])), ("provenance", prov)])}
                q["omit"] = True
                out.append(("defaults", q))
    flagged = [QV(F(math.nan), F(math.nan)), QV(L([F(1.0), F(2.0)]), L([F(-1.0), F(-2.0)])), QV(NONE, NONE), QV(F(1.0), F(1.0 + 5e-6)),
               QV(F(1e10), F(1e10 + 1e-3)), QV(F(1e10), F(1e10 * (1 + 1e-15))),
               QC(L([I(1), I(2)]), L([I(-1), I(-2)])), QC(L([I(1), I(2)]), L([I(1), I(2)])),
               QR(D([("a", F(1.0))]), D([("a", F(-1.0))])), QR(D([("a", F(1.0)), ("b", F(2.0))]), D([("a", F(1.0))])),
               QR(D([("a", F(1e10))]), D([("a", F(1e10 + 1e-3))]))]
    for q in flagged:
        q["omit"] = True
        out.append(("defaults", q))
    return out


def gen_option_products(ctx):
    """the full product of the flags (and, later, of the reporting options) on inputs where each flag decides"""
    out = []
    nan = math.nan
    pairs = [(F(nan), F(nan)), (L([F(1.0), F(nan)]), L([F(1.0), F(nan)])), (L([F(1.0), F(nan)]), L([F(-1.0), F(nan)])),
             (NONE, NONE), (L([F(1.0), F(2.0)]), L([F(-1.0), F(-2.0)])), (L([F(1.0), F(2.0)]), L([F(-1.0), F(2.0)])),
             (F(1.0), F(1.0)), (F(1.0), F(1.5)), (C(1 + 1j), C(-1 - 1j)), (L([C(complex(nan, 0))]), L([C(complex(0, nan))])),
             (A("float", (2,), [F(1.0)[2:], F(2.0)[2:]]), A("float", (2,), [F(-1.0)[2:], F(-2.0)[2:]])),
             (A("float", (2,), [F(1.0)[2:], F(nan)[2:]]), L([F(-1.0), F(nan)], tup=True))]
    for e, c in pairs:
        for eqn in (False, True):
            for ph in (False, True):
                for pn in (False, True):
                    out.append(("option-product", QV(e, c, equal_nan=eqn, equal_phase=ph, passnone=pn)))
    cp = [(L([I(1), I(2)]), L([I(-1), I(-2)])), (L([I(1), I(2)]), L([I(1), I(2)])), (L([B(True)]), L([B(False)])), (S("a"), S("a")),
          (S("a"), S("b")), (A("int", (2,), [I(1)[2:], I(0)[2:]]), A("float", (2,), [F(-1.0)[2:], F(-0.0)[2:]])), (F(1.5), F(-1.5)),
          # strings that differ only beyond the width of the other side's fixed-width dtype
          (S("cat"), S("cats")), (S("cats"), S("cat")), (L([S("H"), S("He")]), L([S("H"), S("Hel")])), (L([S("H"), S("Hel")]), L([S("H"), S("He")])),
          (A("str", (2,), [S("ab")[2:], S("c")[2:]]), A("str", (2,), [S("ab")[2:], S("cd")[2:]])),
          (A("str", (2,), [S("ab")[2:], S("c")[2:]]), A("str", (2,), [S("abz")[2:], S("c")[2:]])), (S(""), S("x")), (S("x"), S(""))]
    for e, c in cp:
        for ph in (False, True):
            out.append(("option-product", QC(e, c, equal_phase=ph)))
    # the very same object as expected and as computed (an identity shortcut must not bypass the rule: NaN, unknown types)
    same = [F(nan), F(nan, np_=True), L([F(1.0), F(nan)]), A("float", (2,), [F(1.0)[2:], F(nan)[2:]]), F(1.0), L([F(1.0), F(2.0)]),
            C(complex(nan, 1.0)), NONE, L([L([F(1.0), F(2.0)]), L([F(3.0)])])]
    for x in same:
        for eqn in (False, True):
            for ph in (False, True):
                out.append(("option-product", dict(QV(x, x, equal_nan=eqn, equal_phase=ph), same=True)))
    for x in [D([("a", F(nan))]), D([("a", L([F(1.0), F(nan)]))]), D([("a", A("float", (1,), [F(nan)[2:]]))]), D([("a", ["other"])]),
              D([("a", F(1.0)), ("b", S("x"))]), D([("a", F(nan, np_=True))])]:
        for ep in (False, True):
            out.append(("option-product", dict(QR(x, x, equal_phase=ep), same=True)))
            out.append(("option-product", dict(QR(x, x, equal_phase=ep, forgive=["a"]), same=True)))
    for x in [L([F(nan)]), A("float", (1,), [F(nan)[2:]]), L([I(1), I(2)]), L([NONE, I(1)])]:
        out.append(("option-product", dict(QC(x, x, equal_phase=True), same=True)))
    # the isinstance ladder: for every leaf type a computed value on which the exact rule and the tolerance rule differ
    # (or on which a neighbouring branch would answer differently), so the order of the tests and numpy's subclass relations decide
    z = 1 + 1j
    near = 1.0 + 2.0 ** -30
    ladder = [(C(z, np_=True), C(z + 1e-9)), (C(z, np_=True), C(z, np_=True)), (C(z), C(z + 1e-9)), (C(z), C(z, np_=True)),
              (C(z, np_=True), C(-z)), (C(z), C(-z)),
              (I(1, np_=True), F(near)), (I(1), F(near)), (I(1), F(1.0)), (I(1, np_=True), I(1)), (I(1), I(1, np_=True)), (I(1, np_=True), I(-1)), (I(1), I(-1)),
              (B(True), F(near)), (B(True), I(1)), (B(True), F(1.0)), (B(True, np_=True), F(near)), (B(True, np_=True), I(1)),
              (B(True, np_=True), B(True)), (B(False, np_=True), F(2.0 ** -30)), (B(False), NONE),
              (F(1.0), F(near)), (F(1.0, np_=True), F(near)), (F(1.0), I(1)), (F(1.0, np_=True), B(True)), (F(1.0), F(-1.0)), (F(1.0, np_=True), F(-1.0)),
              (S("ab"), S("ab", np_=True)), (S("ab", np_=True), S("ab")), (S("ab", np_=True), S("abc")), (S("1", np_=True), S("1")),
              (NONE, NONE), (NONE, F(math.nan)), (NONE, B(False)), (F(0.0), NONE),
              (L([F(1.0)], tup=True), L([F(near)])), (L([F(1.0)]), L([F(near)], tup=True)), (L([I(1)], tup=True), L([F(near)])),
              (A("float", (1,), [F(1.0)[2:]]), L([F(near)])), (A("int", (1,), [I(1)[2:]]), L([F(near)])), (A("int", (1,), [I(1)[2:]]), L([I(-1)])),
              (A("complex", (1,), [C(z)[2:]]), L([C(z + 1e-9)])), (A("bool", (1,), [B(True)[2:]]), L([F(near)])),
              (A("str", (1,), [S("a")[2:]]), L([S("a")])), (["other"], ["other"]), (["other"], F(1.0))]
    for e, c in ladder:
        for ep in (False, True):
            out.append(("ladder", QR(D([("k", e)]), D([("k", c)]), equal_phase=ep)))
    e = D([("a", D([("b", F(1.0)), ("c", F(2.0))])), ("ab", F(3.0)), ("l", L([F(1.0), I(2)]))])
    cs = [D([("a", D([("b", F(-1.0)), ("c", F(2.0))])), ("ab", F(3.0)), ("l", L([F(1.0), I(2)]))]),
          D([("a", D([("b", F(-1.0)), ("c", F(2.5))])), ("ab", F(-3.0)), ("l", L([F(1.0), I(2)]))]),
          D([("a", D([("b", F(1.0)), ("c", F(2.0))])), ("ab", F(3.0)), ("l", L([F(1.0), I(3)])), ("x", I(1))]), e]
    fgs = [None, [], ["a"], ["a.b"], ["ab"], ["a", "ab"], ["l.1"], ["root"], ["root.a.b", "a.c"]]
    eps = [False, True, [], ["a"], ["a.b"], ["ab"], ["a.b", "ab"], ["root.a"]]
    for c in cs:
        for fg in fgs:
            for ep in eps:
                out.append(("option-product", QR(e, c, forgive=fg, equal_phase=ep)))
    return out


def gen_boundaries(ctx):
    """boundaries that are not tolerance edges: the atol >= 1 refusal, unusable tolerances below a leaf, empty containers,
    entries naming the root, empty keys"""
    out = []
    e1, c1, c2 = D([("a", F(1.0)), ("n", I(1))]), D([("a", F(1.0)), ("n", I(1))]), D([("a", F(1.75)), ("n", I(1))])
    for a in (nxt(1.0, -1), 1.0, nxt(1.0, 1), 0.5, 0.75, 2.0, 1e300, math.inf, math.nan, 0.0, -0.0, -1e-6, 5e-324, -math.inf):
        for c in (c1, c2):
            out.append(("boundary", QR(e1, c, atol=a)))
            out.append(("boundary", QR(D([("n", I(1))]), D([("n", I(1 if c is c1 else 2))]), atol=a)))
            out.append(("boundary", {"fn": "mol", "o": opts_r(atol=a), "e": D([("geom", A("float", (1,), [F(1.0)[2:]]))]),
                                     "c": D([("geom", A("float", (1,), [F(1.0 if c is c1 else 1.75)[2:]]))])}))
    for r in (0.0, 1e-12, nxt(1e-12, 1), 1.0, 10.0, 1e300):
        out.append(("boundary", QV(F(2.0), F(2.0 + 1e-3), rtol=r)))
        out.append(("boundary", QV(F(2.0), F(nxt(2.0 + (1e-6 + r * 2.0), 1)), rtol=r)))
        out.append(("boundary", QV(F(1e300), F(-1e300), rtol=r)))
    empties = [L([]), D([]), A("float", (0,), []), L([L([])]), S(""), L([], tup=True)]
    def modelled(e, c):         # an exact leaf against an ndarray (truth value of an elementwise !=) is outside the model
        return not (e[0] == "sc" and e[2] in ("str", "int", "bool", "complex") and c[0] == "arr")
    for x in empties:
        for y in empties + [NONE, F(0.0)]:
            if modelled(x, y):
                out.append(("boundary", QR(D([("k", x)]), D([("k", y)]))))
            if modelled(y, x):
                out.append(("boundary", QR(D([("k", y)]), D([("k", x)]), forgive=[""])))
    t1, t2 = D([("", F(1.0)), ("a", D([("", F(2.0))]))]), D([("", F(1.5)), ("a", D([("", F(2.5))]))])
    for fg in (["root"], ["root."], [""], ["."], ["a"], ["a."], ["root.a."], ["root.root"], ["root", "root"], ["a", "a", "a."]):
        out.append(("boundary", QR(t1, t2, forgive=fg)))
        out.append(("boundary", QR(t1, t2, equal_phase=fg)))
        out.append(("boundary", QR(D([("root", F(1.0))]), D([("root", F(2.0))]), forgive=fg)))
    return out


def gen_sequences(ctx, n):
    """several calls on ONE pair of live objects with changing options (a verdict must not depend on earlier calls, and
    the caller's objects must not change): [(stream, [q, q, ...])], every q of a sequence shares the e / c trees"""
    rng = ctx.rng
    out = []
    for _ in range(n):
        r = rng.random()
        if r < 0.4:
            atol = rng.choice([1e-9, 1e-6, 1e-3])
            g = TreeGen(rng, atol, 1e-16)
            size = rng.choice([1, 3, 4])
            shape = {1: (), 3: (3,), 4: (2, 2)}[size]
            ev = [g.fval() for _ in range(size)]
            cv = list(ev)
            pos = rng.randrange(size)
            cv[pos] = g.perturb_f(cv[pos])
            if rng.random() < 0.5:
                cv = [-v for v in cv]
            e, c = build(rng, shape, ev, "float"), build(rng, shape, cv, "float")
            qs = []
            for _ in range(rng.choice([3, 4, 6])):
                qs.append(QV(e, c, atol=rng.choice([atol, atol * 1e3, atol * 1e-3, 10.0]), rtol=rng.choice([1e-16, 1e-2]),
                             equal_phase=rng.random() < 0.5, equal_nan=rng.random() < 0.3))
        elif r < 0.55:
            ev = [rng.choice([0, 1, -1, 2, 7]) for _ in range(3)]
            cv = [-v for v in ev] if rng.random() < 0.6 else list(ev)
            e, c = build(rng, (3,), ev, "int"), build(rng, (3,), cv, "int")
            qs = [QC(e, c, equal_phase=ph) for ph in rng.sample([False, True, True, False, False, True], 4)]
        else:
            atol = rng.choice([1e-9, 1e-6, 1e-4])
            g = TreeGen(rng, atol, 1e-16)
            e = g.tree(rng.choice([2, 3]))
            if e[0] != "dict":
                e = D([(rng.choice(KEYS), e)])
            hot = []
            c = g.flip(e, 0.5, hot) if rng.random() < 0.5 else g.one_edge(e, hot)
            if rng.random() < 0.4:
                c = g.one_edge(c, hot)
            qs = []
            for _ in range(rng.choice([3, 4, 5])):
                fg = None if rng.random() < 0.4 else entries_from(rng, hot or [("a",)], rng.choice([1, 2]))
                rr = rng.random()
                ep = False if rr < 0.4 else True if rr < 0.7 else entries_from(rng, hot or [("a",)], 1)
                qs.append(QR(e, c, atol=rng.choice([atol, atol * 1e3, atol * 1e-3]), forgive=fg, equal_phase=ep))
        out.append(("sequence", qs))
    return out


def corpus():
    """old failing inputs (fixed defects must stay fixed), the known findings, docstring-like cases"""
    cs = []
    # fixed 6704f4a: np.complex
    cs.append(QV(C(1 + 1j), C(1 + 1j)))
    cs.append(QV(L([C(1 + 1j), C(2)]), L([C(1 + 1j), C(2.0000001)])))
    # fixed aa1f806: forgive by string prefix; one error removed twice
    cs.append(QR(D([("geometry", L([F(1.0)])), ("geom", L([F(1.0)]))]), D([("geometry", L([F(2.0)])), ("geom", L([F(1.0)]))]), forgive=["geom"]))
    cs.append(QR(D([("a", D([("b", F(1.0))]))]), D([("a", D([("b", F(2.0))]))]), forgive=["a", "a.b"]))
    cs.append(QR(D([("a", D([("b", F(1.0))]))]), D([("a", D([("b", F(-1.0))]))]), equal_phase=["a", "a.b"]))
    cs.append(QR(D([("geometry", F(1.0)), ("geom", F(1.0))]), D([("geometry", F(-1.0)), ("geom", F(1.0))]), equal_phase=["geom"]))
    cs.append(QR(D([("a", D([("b", F(1.0))])), ("ab", F(1.0))]), D([("a", D([("b", F(2.0))])), ("ab", F(3.0))]), forgive=["a"]))
    cs.append(QR(D([("a", D([("b", F(1.0))])), ("ab", F(1.0))]), D([("a", D([("b", F(2.0))])), ("ab", F(1.0))]), forgive=["root.a"]))
    # fixed 4bd9561 / f568480 (were known findings): must stay fixed
    cs.append(QV(C(1 + 1j), C(1 + 2j)))                                   # 0-d complex mismatch raised TypeError
    cs.append(QV(A("complex", (), [C(1 + 1j)[2:]]), C(3 + 1j), equal_phase=True))
    cs.append(QV(A("float", (1,), [F(1.0)[2:]]), A("complex", (1,), [C(1 + 1j)[2:]])))   # imaginary part was dropped
    cs.append(QV(F(1.0), C(1 + 1j)))
    cs.append(QV(F(1.0), C(1 + 0j)))
    cs.append(QV(C(1 + 1j), NONE))
    cs.append(QR(D([("a", A("float", (1,), [F(1.0)[2:]]))]), D([("a", A("complex", (1,), [C(1 + 1j)[2:]]))])))
    cs.append(QV(L([F(1.0), F(2.0)]), A("complex", (2,), [C(1)[2:], C(2 - 5j)[2:]])))
    cs.append(QR(D([("a", B(True, np_=True))]), D([("a", B(True, np_=True))])))            # np.bool_ leaf never matched
    cs.append(QR(D([("a", B(True, np_=True))]), D([("a", B(False, np_=True))])))
    # fixed 65b8c68: a ragged nest on either side raised ValueError (np.iscomplexobj outside the try block)
    sq, rg = L([L([F(1.0), F(2.0)]), L([F(3.0), F(4.0)])]), L([L([F(1.0), F(2.0)]), L([F(3.0)])])
    cs.append(QV(sq, rg))
    cs.append(QV(rg, sq))
    cs.append(QV(rg, rg, equal_phase=True))
    cs.append(QV(rg, F(1.0), atol=0.0))
    cs.append(QV(C(1j), rg))
    cs.append(QV(D([("a", F(1.0))]), rg))
    cs.append(QR(D([("a", F(1.0))]), D([("a", rg)])))
    cs.append(QR(D([("a", F(1.0, np_=True)), ("b", I(1, np_=True))]), D([("a", rg), ("b", rg)]), forgive=["b"]))
    cs.append(QR(D([("a", A("float", (2, 2), [F(v)[2:] for v in (1.0, 2.0, 3.0, 4.0)]))]), D([("a", rg)])))
    cs.append(QR(D([("a", B(False, np_=True)), ("b", F(1.0))]), D([("a", B(False)), ("b", F(1.0))])))
    # plain cases
    cs.append(QV(F(1.0), F(1.0000001)))
    cs.append(QV(F(1.0), F(1.00001)))
    cs.append(QV(L([F(1.0), F(2.0)]), L([F(-1.0), F(-2.0)]), equal_phase=True))
    cs.append(QC(L([I(1), I(2)]), L([I(-1), I(-2)]), equal_phase=True))
    cs.append(QC(S("a"), S("b"), equal_phase=True))
    cs.append(QR(D([("a", F(1.0)), ("b", F(2.0))]), D([("a", F(-1.0)), ("b", F(-2.0))]), equal_phase=["a", "root.b"]))
    cs.append(QR(D([("a", F(1.0))]), D([("a", F(1.0))]), atol=1.0))
    cs.append(QR(D([("a", D([("x", I(1))]))]), D([("a", NONE)])))
    cs.append(QR(D([("a", L([S("a"), S("b")]))]), D([("a", D([("a", I(1)), ("b", I(2))]))])))
    cs.append(QR(D([("a", L([S("a"), S("b")]))]), D([("a", S("ab"))])))
    cs.append(QR(D([("a", L([F(1.0), F(2.0)]))]), D([("a", A("float", (2,), [F(1.0)[2:], F(2.0000001)[2:]]))])))
    cs.append(QR(D([("a", L([L([F(1.0), F(2.0)])]))]), D([("a", A("float", (1, 2), [F(1.0)[2:], F(2.5)[2:]]))]), forgive=["a.0.1"]))
    cs.append(QR(D([("a", I(1, np_=True))]), D([("a", F(1.0000001))])))
    cs.append(QR(D([("a", I(1))]), D([("a", F(1.0000001))])))
    cs.append(QR(F(1.0), F(1.0)))
    cs.append(QR(D([("a", F(1.0))]), D([("a", F(2.0))]), atol=math.nan))
    cs.append(QR(D([("a", I(1))]), D([("a", I(1))]), atol=math.nan))
    return [("corpus", q) for q in cs]


BATCH = 24000
SEQ_GROUPS = []          # the sequences of the current run (filled by case_batches, checked by sequence_checks)
FULL_STREAMS = {"corpus", "defaults", "option-product", "boundary", "ladder"}      # every reporting-option variant on every case


def case_batches(ctx):
    """lists of (stream, query) of bounded size (memory), the minimised corpus first"""
    big = ctx.thorough
    first = corpus()
    first += gen_edge_real(ctx, 7 if big else 1)                # 12*5*15*2*n_per
    first += gen_values_misc(ctx, 12000 if big else 1500)
    first += gen_complex(ctx, 4 if big else 1)
    first += gen_compare(ctx, 12000 if big else 1200)
    first += gen_confusion(ctx, 4 if big else 1)
    first += gen_molrecs(ctx, 8000 if big else 700)
    first += gen_defaults(ctx)
    first += gen_option_products(ctx)
    first += gen_boundaries(ctx)
    SEQ_GROUPS.clear()
    for stream, qs in gen_sequences(ctx, 4000 if big else 300):
        SEQ_GROUPS.append(qs)
        first += [(stream, q) for q in qs]
    if big:
        yield first
        first = []
    plan = [(dict(), 150000 if big else 4500), (dict(dotted=True), 6000 if big else 400),
            (dict(mode="phase"), 30000 if big else 1200), (dict(mode="forgive"), 30000 if big else 1200)]
    acc = first
    for kw, n in plan:
        while n > 0:
            take = min(n, BATCH - len(acc)) if len(acc) < BATCH else 0
            if take <= 0:
                yield acc
                acc = []
                continue
            acc += gen_rec(ctx, take, **kw)
            n -= take
    if acc:
        yield acc


def gen_cases(ctx):
    return [x for b in case_batches(ctx) for x in b]


# ------------------------------------------------------------------------------------------------------
# compare_molrecs (oracle only: normalisation then compare_recursive)

MOLREC_CHANGES = ["version", "bond-atom-order", "int-type", "geom+1e-3", "geom+1e-9", "creator", "charge"]


def molrec_case(changes, forgive, variant):
    """deterministic: apply the named changes to a small molecule record; -> (expected verdict, observed, inputs untouched)"""
    from qcelemental.testing import compare_molrecs

    def base():
        return {"geom": np.array([0.0, 0.0, 0.0, 0.0, 0.0, 1.4, 0.0, 1.2, -0.4]), "elem": np.array(["O", "H", "H"]),
                "fragment_separators": [np.int64(2)], "fragment_files": [], "fix_com": False, "fix_orientation": False,
                "provenance": {"creator": "QCElemental", "version": "v0.1", "routine": "x"},
                "connectivity": [(0, 1, 1.0), (2, 0, 1.0)], "molecular_charge": 0.0, "units": "Bohr"}
    e, c = base(), base()
    expect = True
    if "version" in changes:
        c["provenance"]["version"] = "v9.9"                 # generator version changes are forgiven
    if "bond-atom-order" in changes:
        c["connectivity"] = [(b, a, bo) for a, b, bo in c["connectivity"]]      # (i, j) and (j, i) are the same bond
    if "int-type" in changes:
        c["fragment_separators"] = [2]
    if "geom+1e-3" in changes:
        c["geom"] = c["geom"] + np.array([0, 0, 0, 0, 0, 1e-3, 0, 0, 0])
        if not (forgive and "geom" in forgive):
            expect = False
    if "geom+1e-9" in changes:
        c["geom"] = c["geom"] + 1e-9
    if "creator" in changes:
        c["provenance"]["creator"] = "other"
        expect = False
    if "charge" in changes:
        c["molecular_charge"] = 1.0
        expect = False
    quiet, rm, hk = variant
    kw = {"return_message": rm}
    cap = []
    if hk:
        kw["return_handler"] = lambda pf, label, msg, rm_, quiet_: cap.append(pf) or "handled"
    e0, c0 = repr(e), repr(c)
    try:
        r = compare_molrecs(e, c, "lbl", forgive=forgive, verbose=(0 if quiet else 1), **kw)
        got = cap[0] if hk else (r[0] if rm else r)
    except Exception as ex:  # noqa
        got = "raised " + type(ex).__name__
    return expect, got, (repr(e) == e0 and repr(c) == c0)


def molrec_checks(ctx, corr):
    """compare_molrecs (relative_geoms='exact'): normalisation, then compare_recursive — judged on the implementation only"""
    rng = ctx.rng
    n = 300 if ctx.thorough else 60
    for i in range(n):
        changes = [ch for ch in MOLREC_CHANGES[:3] if rng.random() < 0.5]
        r = rng.random()
        forgive = None
        if r < 0.6:
            changes.append(rng.choice(MOLREC_CHANGES[3:]))
            if changes[-1] == "geom+1e-3" and rng.random() < 0.5:
                forgive = ["geom"]
        variant = rng.choice(VARIANTS)
        expect, got, untouched = molrec_case(changes, forgive, variant)
        corr.count("molrecs")
        corr.hit("molrecs_" + str(got))
        if got is not expect or not untouched:
            corr.failures.append({"stream": "molrecs", "case": {"molrecs": {"changes": changes, "forgive": forgive, "variant": list(variant)}},
                                  "what": f"compare_molrecs: the property requires {expect} after changes {changes} (forgive={forgive}), "
                                          f"the implementation gave {got}" + ("" if untouched else "; inputs were modified"),
                                  "observed": str(got), "expected": expect})


# ------------------------------------------------------------------------------------------------------
# compare_molrecs(relative_geoms="align") — oracle only (the aligner itself is C12's subject): a rigid-motion copy of a free
# record passes, a copy with one coordinate off by 3e-5 fails at atol 1e-6 and passes at 1e-4 (aligned residuals <= 3e-5),
# and a record that differs in a field other than the geometry never passes, fixed frame or not.

ALIGN_G = [[0.0, 0.0, 0.0], [0.0, 0.0, 2.2], [1.5, 0.3, -1.0], [-1.1, 0.9, -0.7]]
ALIGN_CHANGES = {"charge": ("molecular_charge", 1.0), "units": ("units", "Angstrom"), "creator": ("provenance", {"creator": "other", "version": "1", "routine": "r"}),
                 "elem": ("elem", ["C", "O", "H", "He"]), "extra-key": ("comment", "abc")}


def molrec_align_case(m):
    """m = {"fix": none|com|orientation, "change": name|None, "motion": [axis, angle, axis, angle, [shift]], "pert": float,
            "atol": float, "variant": [...]} -> (expected verdict, observed)"""
    from qcelemental.testing import compare_molrecs

    def rot(ax, th):
        c, s_ = math.cos(th), math.sin(th)
        return np.array({0: [[1, 0, 0], [0, c, -s_], [0, s_, c]], 1: [[c, 0, s_], [0, 1, 0], [-s_, 0, c]], 2: [[c, -s_, 0], [s_, c, 0], [0, 0, 1]]}[ax])

    def rec(g):
        return {"geom": np.array(g, dtype=float).reshape(-1), "elem": np.array(["C", "O", "H", "H"]), "fix_com": m["fix"] == "com",
                "fix_orientation": m["fix"] == "orientation", "molecular_charge": 0.0, "units": "Bohr",
                "provenance": {"creator": "x", "version": "1", "routine": "r"}}
    G = np.array(ALIGN_G)
    C = G.copy()
    if m["fix"] == "none":
        a1, t1, a2, t2, sh = m["motion"]
        C = G @ rot(a1, t1) @ rot(a2, t2) + np.array(sh)
    C[2, 1] += m["pert"]
    e, c = rec(G), rec(C)
    if m["change"]:
        k, v = ALIGN_CHANGES[m["change"]]
        c[k] = np.array(v) if k == "elem" else v
    expect = (not m["change"]) and (m["pert"] == 0 or m["pert"] < m["atol"] / 3)
    quiet, rm, hk = m["variant"]
    kw = {"return_message": rm}
    cap = []
    if hk:
        kw["return_handler"] = lambda pf, label, msg, rm_, quiet_: cap.append(pf) or "handled"
    try:
        with warnings.catch_warnings():
            warnings.simplefilter("ignore")
            r = compare_molrecs(e, c, "lbl", atol=m["atol"], relative_geoms="align", verbose=(0 if quiet else 1), **kw)
        got = cap[0] if hk else (r[0] if rm else r)
        got = bool(got) if isinstance(got, (bool, np.bool_)) else "returned " + type(got).__name__
    except Exception as ex:  # noqa
        got = "raised " + type(ex).__name__
    return expect, got


def molrec_align_checks(ctx, corr):
    rng = ctx.rng
    for i in range(400 if ctx.thorough else 60):
        fix = rng.choice(["none", "none", "com", "orientation"])
        r = rng.random()
        m = {"fix": fix, "change": None, "pert": 0.0, "atol": 1e-6, "variant": list(rng.choice(VARIANTS)),
             "motion": [rng.randrange(3), rng.uniform(-3, 3), rng.randrange(3), rng.uniform(-3, 3), [rng.uniform(-5, 5) for _ in range(3)]]}
        if r < 0.45:
            m["change"] = rng.choice(sorted(ALIGN_CHANGES))
        elif r < 0.7 and fix == "none":
            m["pert"], m["atol"] = 3e-5, rng.choice([1e-6, 1e-4])
        expect, got = molrec_align_case(m)
        corr.count("molrecs-align")
        corr.hit(f"molrecs_align_{fix}_{'changed' if m['change'] else 'perturbed' if m['pert'] else 'copy'}_{got}")
        if got is not expect:
            corr.failures.append({"stream": "molrecs-align", "case": {"molrecs_align": m},
                                  "what": f"compare_molrecs(relative_geoms='align', atol={m['atol']}): the property requires {expect} for a "
                                          + ("rigid-motion copy" if fix == "none" else f"copy in the same frame (fix_{fix})")
                                          + (f" whose {ALIGN_CHANGES[m['change']][0]} differs" if m["change"] else "")
                                          + (f" with one coordinate off by {m['pert']}" if m["pert"] else "") + f", the implementation gave {got}",
                                  "observed": str(got), "expected": expect})


# ------------------------------------------------------------------------------------------------------

def sequence_run(qs, rng=None, variants=None):
    """the queries of one sequence on ONE pair of live objects, in order -> (list of outcomes, variants used)"""
    e, c = to_py(qs[0]["e"]), to_py(qs[0]["c"])
    if variants is None:
        variants = [list(rng.choice(VARIANTS)) for _ in qs]
    return [impl_run(q, tuple(v), objs=(e, c)) for q, v in zip(qs, variants)], variants


def sequence_failure(qs, outs, variants):
    """the first call of the sequence whose outcome differs from the same call on fresh objects"""
    for i, (q, o) in enumerate(zip(qs, outs)):
        fresh = impl_run(q, VARIANTS[0])
        if o != fresh:
            return {"stream": "sequence", "case": {"sequence": qs, "variants": variants, "index": i},
                    "what": f"call {i + 1} of {len(qs)} on the same live objects gave {o}, the same call on fresh objects {fresh}: "
                            "the verdict depends on earlier calls or the caller's objects were changed",
                    "observed": list(o), "expected": list(fresh)}
    return None


def sequence_checks(ctx, corr):
    for qs in SEQ_GROUPS:
        outs, variants = sequence_run(qs, ctx.rng)
        corr.count("sequence-live", len(qs))
        bad = sequence_failure(qs, outs, variants)
        if bad:
            corr.failures.append(bad)
    # the module-level functions once more after everything else ran in this process: the corpus verdicts are unchanged
    for stream, q in corpus():
        out = impl_run(q, VARIANTS[0])
        corr.count("corpus-after-history")
        bad = oracle(q, out) if out[0] != "Bad" else {"what": out[1], "want": None, "tag": "bad"}
        if bad:
            corr.failures.append({"stream": "oracle-" + q["fn"], "case": {"query": q}, "what": "after the whole run: " + bad["what"],
                                  "observed": list(out), "expected": bad.get("want"), "tag": bad.get("tag")})


# ------------------------------------------------------------------------------------------------------
# model history: serialisation / copying / comparison calls on ProtoModels (ANY model, any include/exclude/skip options)
# first, then comparisons of models that differ exactly in a field those calls named (and in another one). The verdict
# is a function of the two models and the options only: judged by the property (built-in differences, the tree oracle
# for free-form models) and against the same comparisons in a fresh interpreter that saw no history at all.

_MOL = {"symbols": ["He", "He"], "geometry": [0.0, 0.0, 0.0, 0.0, 0.0, 3.0], "name": "m", "comment": "c", "fix_com": False}
_MOL2 = dict(_MOL, geometry=[0.0, 0.0, 0.0, 0.0, 0.0, 3.5])
_AI = {"molecule": _MOL, "driver": "energy", "model": {"method": "hf", "basis": "sto-3g"}, "keywords": {"k": 1}, "id": "x",
       "extras": {"e": 1}}
_PROV = {"creator": "prog", "version": "1.0", "routine": "r"}
_AR = dict(_AI, properties={"return_energy": -1.0}, return_result=-1.0, success=True, provenance=_PROV, stdout="out")
# name -> (module, class, base keywords, {field: other value}, {field: [(forgive entry below the field, covers the difference)]})
REAL_MODELS = {
    "Provenance": ("qcelemental.models", "Provenance", _PROV, {"creator": "other", "version": "2.0", "routine": "q"}, {}),
    "Model": ("qcelemental.models.common_models", "Model", {"method": "hf", "basis": "sto-3g"}, {"method": "mp2", "basis": "cc-pvdz"}, {}),
    "Molecule": ("qcelemental.models", "Molecule", _MOL,
                 {"geometry": _MOL2["geometry"], "symbols": ["He", "Ne"], "name": "other", "comment": "d", "fix_com": True}, {}),
    "AtomicInput": ("qcelemental.models", "AtomicInput", _AI,
                    {"molecule": _MOL2, "driver": "gradient", "model": {"method": "mp2", "basis": "sto-3g"}, "keywords": {"k": 2},
                     "id": "y", "extras": {"e": 2}},
                    {"molecule": [("molecule.geometry", True), ("molecule.symbols", False), ("molecule.geo", False)],
                     "model": [("model.method", True), ("model.basis", False)], "keywords": [("keywords.k", True), ("keywords.kk", False)]}),
    "AtomicResult": ("qcelemental.models", "AtomicResult", _AR,
                     {"return_result": -1.5, "properties": {"return_energy": -1.5}, "success": False, "stdout": "other", "molecule": _MOL2,
                      "provenance": dict(_PROV, version="2.0")},
                     {"properties": [("properties.return_energy", True), ("properties.return", False)],
                      "provenance": [("provenance.version", True), ("provenance.creator", False)]}),
    "ComputeError": ("qcelemental.models", "ComputeError", {"error_type": "t", "error_message": "m", "extras": {"e": 1}},
                     {"error_type": "u", "error_message": "n", "extras": {"e": 2}}, {"extras": [("extras.e", True)]}),
    "FailedOperation": ("qcelemental.models", "FailedOperation",
                        {"error": {"error_type": "t", "error_message": "m"}, "input_data": {"a": 1}, "id": "q"},
                        {"error": {"error_type": "t", "error_message": "n"}, "input_data": {"a": 2}, "id": "r"},
                        {"error": [("error.error_message", True), ("error.error_type", False)]}),
}
ID_KEYS = [k for k in KEYS if k.isidentifier()]
SER_KW = ["include", "exclude", "exclude_unset", "exclude_defaults", "exclude_none"]


def real_build(name, field=None):
    import importlib
    mod, cls, base, alts, _ = REAL_MODELS[name]
    kw = dict(base)
    if field is not None:
        kw[field] = alts[field]
    return getattr(importlib.import_module(mod), cls)(**json_copy(kw))


def json_copy(x):
    import json
    return json.loads(json.dumps(x))


def _hist_target(on):
    if on[0] == "bag":
        return _model_cls()(**to_py(on[1]))
    return real_build(on[1], on[2])


def history_op(op):
    """one earlier call of the public model API; its result is irrelevant, exceptions are swallowed -> a tag for the branch counter"""
    from qcelemental.testing import compare_recursive
    try:
        m = _hist_target(op["on"])
        kw = {}
        for k, v in op["kw"].items():
            if k in ("include", "exclude"):
                v = (frozenset if op.get("frozen") else set)(v)
            kw[k] = v
        call = op["call"]
        with warnings.catch_warnings():
            warnings.simplefilter("ignore")
            if call == "dict":
                m.dict(**kw)
            elif call == "json":
                m.json(**kw)
            elif call == "serialize":
                m.serialize(op["enc"], **kw)
            elif call == "copy":
                m.copy(**kw)
            elif call == "compare":
                other = _hist_target(op["other"])
                (compare_recursive(m, other, "lbl", **kw) if op.get("fn") else m.compare(other, **kw))
            elif call == "repr":
                repr(m), str(m)
            elif call == "parse":
                type(m).parse_raw(m.serialize(op["enc"]), encoding=op["enc"])
            elif call == "schema":
                type(m).schema()
            else:
                raise ValueError(call)
        return call + "_ok"
    except Exception as ex:  # noqa
        return call + "_raised_" + type(ex).__name__


def real_probe_run(p):
    from qcelemental.testing import compare_recursive
    try:
        a, b = real_build(p["model"]), real_build(p["model"], p["field"])
    except Exception as ex:  # noqa
        return ["Bad", "model construction raised " + type(ex).__name__]
    if p.get("swap"):
        a, b = b, a
    kw = {"quiet": True}
    if p.get("forgive") is not None:
        kw["forgive"] = list(p["forgive"])
    if p.get("rm"):
        kw["return_message"] = True
    try:
        with warnings.catch_warnings():
            warnings.simplefilter("ignore")
            if p["entry"] == "compare":
                r = a.compare(b, **kw)
            elif p["entry"] == "recursive":
                r = compare_recursive(a, b, "lbl", **kw)
            elif p["entry"] == "dict-model":
                r = compare_recursive(a.dict(), b, "lbl", **kw)
            else:
                r = compare_recursive(a, b.dict(), "lbl", **kw)
    except Exception as ex:  # noqa
        return ["Raise", type(ex).__name__]
    v = r[0] if p.get("rm") and isinstance(r, tuple) else r
    if not isinstance(v, bool):
        return ["Bad", f"verdict is not a bool: {type(v).__name__}"]
    return ["Ok", v]


def probe_run(p):
    if "q" in p:
        return list(impl_run(p["q"], tuple(p.get("variant") or VARIANTS[0])))
    return real_probe_run(p)


def probe_want(p):
    """the verdict the property requires, or None where it does not speak"""
    if "q" in p:
        try:
            return spec_rec(p["q"])[0]
        except Abstain:
            return None
    return p["want"]


def shared_state():
    """the class-level exclude set every ProtoModel subclass inherits (empty as the class statement makes it)"""
    from qcelemental.models.basemodels import ProtoModel
    return sorted(str(x) for x in ProtoModel.__config__.serialize_default_excludes)


def history_case_run(case, with_history=True):
    tags = [history_op(op) for op in case["history"]] if with_history else []
    return [probe_run(p) for p in case["probes"]] + [["State", shared_state()]], tags


def _fresh_main():
    """entry point of the fresh interpreter: JSON {"cases": [...], "history": bool} on stdin -> outcomes per case per probe"""
    import json
    import sys
    logging.disable(logging.CRITICAL)
    req = json.load(sys.stdin)
    if "dict_kwargs" in req:
        out = dict_kwargs_failure(req["dict_kwargs"])
    else:
        out = [history_case_run(c, req["history"])[0] for c in req["cases"]]
    sys.stdout.write("\n@@RESULT@@" + json.dumps(out))


def fresh_run(cases, with_history, req=None):
    """the probes of the cases in a NEW interpreter (same sys.path), with or without their history calls"""
    import json
    import subprocess
    import sys
    r = subprocess.run([sys.executable, "-c", "from harness.props import c19; c19._fresh_main()"],
                       input=json.dumps(req or {"cases": cases, "history": with_history}), capture_output=True, text=True, timeout=600)
    if "@@RESULT@@" not in r.stdout:
        raise RuntimeError("fresh interpreter failed: " + (r.stderr or r.stdout)[-1500:])
    return json.loads(r.stdout.split("@@RESULT@@")[-1])


def _name_sets(rng, fields, f, g):
    """include / exclude sets around the field that will differ: it alone, with others, the others only, everything else"""
    rest = [x for x in fields if x != f]
    pick = rng.random()
    if pick < 0.4:
        return [f]
    if pick < 0.6:
        return sorted({f, g} if g else {f})
    if pick < 0.75:
        return sorted(rng.sample(rest, min(len(rest), rng.choice([1, 2])))) or [f]
    if pick < 0.9:
        return sorted(rest) or [f]
    return sorted(set(rng.sample(list(fields), min(len(fields), 2))) | {"nosuchfield"})


def _gen_history(rng, fields, f, g, targets):
    ops = []
    for _ in range(rng.choice([1, 1, 2, 3])):
        on = rng.choice(targets)
        r = rng.random()
        kw = {}
        if rng.random() < 0.75:
            kw["exclude"] = _name_sets(rng, fields, f, g)
        if rng.random() < 0.3:
            kw["include"] = _name_sets(rng, fields, f, g)
        for k in ("exclude_unset", "exclude_defaults", "exclude_none"):
            if rng.random() < 0.15:
                kw[k] = True
        op = {"on": on, "frozen": rng.random() < 0.15}
        if r < 0.3:
            op["call"] = "dict"
            if rng.random() < 0.2:
                kw["by_alias"] = True
            if rng.random() < 0.2:
                kw["encoding"] = "json"
        elif r < 0.45:
            op["call"] = "json"
        elif r < 0.65:
            op["call"], op["enc"] = "serialize", rng.choice(["json", "json", "msgpack-ext", "json-ext", "msgpack"])
        elif r < 0.75:
            op["call"] = "copy"
            kw = {k: v for k, v in kw.items() if k in ("include", "exclude")}
            if rng.random() < 0.3:
                kw["deep"] = True
        elif r < 0.9:
            op["call"], op["other"], op["fn"] = "compare", rng.choice(targets), rng.random() < 0.4
            kw = {"quiet": True}
            if rng.random() < 0.8:
                kw["forgive"] = _name_sets(rng, fields, f, g)
            if rng.random() < 0.4:
                kw["equal_phase"] = rng.choice([True, _name_sets(rng, fields, f, g)])
        else:
            op["call"] = rng.choice(["repr", "parse", "schema"])
            op["enc"] = rng.choice(["json", "msgpack-ext"])
            kw = {}
        op["kw"] = kw
        ops.append(op)
    return ops


def _bag_with(rng, key, g):
    """a free-form model holding a field of the given name (history target of another class)"""
    ks = [key] + rng.sample([k for k in ID_KEYS if k != key], rng.choice([0, 1, 2]))
    return ["bag", D([(k, g.tree(rng.choice([0, 1]))) for k in ks])]


def gen_model_history(ctx, n):
    rng = ctx.rng
    cases = []
    names = sorted(REAL_MODELS)
    for _ in range(n):
        g = TreeGen(rng, rng.choice([1e-9, 1e-6, 1e-4]), 1e-16)
        if rng.random() < 0.6:
            name = rng.choice(names)
            _, _, base, alts, nested = REAL_MODELS[name]
            fields = sorted(base)
            f = rng.choice(sorted(alts))
            others = [x for x in sorted(alts) if x != f]
            gfield = rng.choice(others) if others else None
            other_cls = rng.choice(names)
            targets = [["real", name, None], ["real", name, f], ["real", other_cls, None], _bag_with(rng, f, g)]
            if gfield:
                targets.append(["real", name, gfield])
            entries = ["recursive", "dict-model", "model-dict"] + (["compare", "compare"] if name != "Molecule" else [])
            def P(field, forgive, want):
                return {"model": name, "field": field, "entry": rng.choice(entries), "forgive": forgive, "swap": rng.random() < 0.3,
                        "rm": rng.random() < 0.3, "want": want}
            probes = [P(f, None, False), P(None, None, True), P(f, [f], True)]
            if gfield:
                probes += [P(gfield, None, False), P(gfield, [f], False), P(f, [gfield], False)]
            for entry, covers in nested.get(f, []):
                probes.append(P(f, [entry], covers))
            probes.append(P(None, [f], True))
            rng.shuffle(probes)
            probes = probes[:rng.choice([3, 4, 5])]
        else:
            ks = rng.sample(ID_KEYS, rng.choice([2, 3, 4]))
            e = D([(k, g.tree(rng.choice([0, 1, 2]))) for k in ks])
            f = rng.choice(ks)
            gfield = rng.choice([k for k in ks if k != f])
            fields = ks

            def changed(t, key):
                pairs = []
                for k, v in t[1]:
                    if k != key:
                        pairs.append([k, v])
                        continue
                    r = rng.random()
                    if r < 0.15:
                        continue                                    # the key is missing on one side
                    for _ in range(6):
                        v2 = g.mutate(v, 0.7, False)
                        if v2 != v:
                            break
                    else:
                        v2 = F(12345.0)
                    pairs.append([k, v2])
                return ["dict", pairs]
            c, c2 = changed(e, f), changed(e, gfield)
            atol = g.atol
            other_cls = rng.choice(names)
            targets = [["bag", e], ["bag", c], _bag_with(rng, f, g), ["real", other_cls, None]]

            def Q(a, b, **kw):
                return {"q": QR(a, b, via="model", atol=atol, rtol=1e-16, **kw), "variant": list(rng.choice(VARIANTS))}
            probes = [Q(e, c), Q(c, e), Q(e, e), Q(e, c, forgive=[f]), Q(e, c2), Q(e, c2, forgive=[f]), Q(e, c, forgive=[gfield]),
                      Q(e, c, equal_phase=True), Q(e, c, equal_phase=[f])]
            probes = probes[:2] + rng.sample(probes[2:], rng.choice([2, 3]))
        cases.append(json_copy({"history": _gen_history(rng, fields, f, gfield, targets), "probes": probes}))
    return cases


def history_failure(case, outs, base, j0=None):
    """first probe whose verdict is not the property's / not the fresh interpreter's -> (index, text) or None"""
    for j, (p, o) in enumerate(zip(case["probes"], outs)):
        if j0 is not None and j != j0:
            continue
        want = probe_want(p)
        if want is not None and o != ["Ok", want]:
            return j, f"the property requires {want}, the implementation gave {o}"
        if o[0] == "Bad":
            return j, o[1]
        if base is not None and o != base[j]:
            return j, f"the implementation gave {o}, the same call in a fresh interpreter (no earlier calls) {base[j]}"
    if outs[-1][0] == "State" and outs[-1][1] and j0 is None:
        return None, f"ProtoModel.Config.serialize_default_excludes (one set shared by every model class) was left as {outs[-1][1]}"
    return None


def _history_text(case, j):
    p = case["probes"][j] if j is not None else None
    ops = "; ".join("%s.%s(%s)" % (op["on"][1] if op["on"][0] == "real" else "Bag", op["call"],
                                   ", ".join(f"{k}={v!r}" for k, v in sorted(op["kw"].items()))) for op in case["history"])
    if p is None:
        probe = "the configuration shared by all models"
    elif "q" in p:
        probe = f"Bag(**expected).compare(Bag(**computed), forgive={p['q']['o']['forgive']}, equal_phase={p['q']['o']['equal_phase']})"
    else:
        probe = (f"{p['model']} pair differing in {p['field']!r}" if p["field"] else f"two equal {p['model']}s") + \
            f" through {p['entry']} (forgive={p['forgive']})"
    return f"after [{ops}]: {probe}"


def model_history_checks(ctx, corr):
    """runs LAST in the process (its history calls must not precede the other streams' cases, whose replays are single calls)"""
    cases = gen_model_history(ctx, 1500 if ctx.thorough else 160)
    try:
        base = fresh_run(cases, False)
    except Exception as ex:  # noqa
        corr.errors.append("model-history: " + str(ex)[-1500:])
        return
    reported = {"model-history": 0, "model-config-state": 0}
    for i, case in enumerate(cases):
        outs, tags = history_case_run(case)
        corr.count("model-history", len(case["probes"]))
        for t in tags:
            corr.hit("history_" + t)
        for p, o in zip(case["probes"], outs):
            corr.hit("history_probe_" + ("bag" if "q" in p else p["model"]) + "_" + str(o[1] if o[0] != "Bad" else "bad"))
            if probe_want(p) is None:
                corr.hit("history_probe_judged_against_fresh_interpreter_only")
            if o == ["Ok", False] or ("q" in p and o[0] == "Ok" and p["q"]["e"] != p["q"]["c"]):
                corr.nontriv({"h": case["history"], "p": p})
        bad = history_failure(case, outs, base[i])
        kind = "model-config-state" if bad and bad[0] is None else "model-history"
        if bad and reported[kind] < 2:
            reported[kind] += 1
            j, text = bad
            # a replay runs this case alone in a new interpreter: keep the case if it fails there too, otherwise hand over
            # everything this stream called before it (the earlier cases' histories and probes as history)
            pj = [case["probes"][j]] if j is not None else []
            bj = [base[i][j]] if j is not None else []
            rec = {"history": case["history"], "probes": pj}
            try:
                for hist in [[op] for op in case["history"][:4]] + [case["history"]]:       # smallest history first
                    cand = {"history": hist, "probes": pj}
                    if history_failure(cand, fresh_run([cand], True)[0], bj):
                        rec = cand
                        break
                else:
                    prior = []
                    for c in cases[:i]:
                        prior += c["history"]
                    rec = {"history": prior + case["history"], "probes": pj}
            except Exception as ex:  # noqa
                corr.errors.append("model-history (confirming a failure): " + str(ex)[-800:])
            corr.failures.append({"stream": kind, "case": {"model_history": rec, "fresh": bj},
                                  "what": "earlier calls on models leak into later comparisons: " + _history_text(rec, 0 if pj else None) + ": " + text,
                                  "observed": outs[j] if j is not None else outs[-1], "expected": probe_want(pj[0]) if pj else []})


# ------------------------------------------------------------------------------------------------------
# ProtoModel.dict's keyword handling against Model/ModelDict.v: what reaches pydantic, what stays in the class-level set

_DICT_CLS = {}


def _dict_cls(shared, skip, force):
    key = (tuple(shared), skip, force)
    if key not in _DICT_CLS:
        from typing import Optional
        from qcelemental.models.basemodels import ProtoModel
        ns = {"__annotations__": {"a": float, "b": Optional[float], "c": Optional[str]}, "b": None, "c": "dflt"}
        cfg = {"serialize_skip_defaults": skip, "force_skip_defaults": force}
        if shared:
            cfg["serialize_default_excludes"] = set(shared)
        ns["Config"] = type("Config", (ProtoModel.Config,), cfg)
        ns["__module__"] = __name__
        _DICT_CLS[key] = type("Rec_%d" % len(_DICT_CLS), (ProtoModel,), ns)
    return _DICT_CLS[key]


def dict_kwargs_run(m):
    """m = {"how", "kw", "class": {...}, "b_set"} -> what pydantic received / what was left behind / the keys of the result"""
    import json as _json
    from qcelemental.models.basemodels import ProtoModel
    base = [c for c in ProtoModel.__mro__[1:] if "dict" in vars(c)][0]          # pydantic's BaseModel
    orig = base.dict
    seen = []

    def spy(self, **kw):
        seen.append((kw.get("exclude"), kw.get("exclude_unset")))
        return orig(self, **kw)
    k = m["class"]
    cls = _dict_cls(k["serialize_default_excludes"], k["serialize_skip_defaults"], k["force_skip_defaults"])
    obj = cls(a=1.0, b=2.0) if m["b_set"] else cls(a=1.0)
    kw = {a: (set(v) if a == "exclude" else v) for a, v in m["kw"].items()}
    base.dict = spy
    try:
        if m["how"] == "dict":
            keys = list(obj.dict(**kw))
        else:
            keys = list(_json.loads(obj.json(**kw) if m["how"] == "json" else obj.serialize("json", **kw)))
    finally:
        base.dict = orig
    if not seen:
        raise RuntimeError("pydantic's dict was not reached")
    pex, peu = seen[0]
    return {"exclude": sorted(pex or []), "exclude_unset": bool(peu), "shared_after": sorted(cls.__config__.serialize_default_excludes),
            "keys": keys}


def dict_kwargs_spec(m):
    """the same by the documented reading: exclude = the call's names plus the class's default excludes; unset fields are skipped
    when the class forces it, else when the call says so (serialize forwards only truthy options), else by the class default;
    the class configuration is not touched"""
    k = m["class"]
    ex = set(m["kw"].get("exclude") or []) | set(k["serialize_default_excludes"])
    eu = m["kw"].get("exclude_unset")
    if m["how"] != "dict" and not eu:
        eu = None
    eu = True if k["force_skip_defaults"] else (k["serialize_skip_defaults"] if eu is None else eu)
    keys = [f for f, isset in (("a", True), ("b", m["b_set"]), ("c", False)) if f not in ex and (isset or not eu)]
    return {"exclude": sorted(ex), "exclude_unset": bool(eu), "shared_after": sorted(k["serialize_default_excludes"]), "keys": keys}


def dict_kwargs_checks(ctx, corr):
    rng = ctx.rng
    copt = lambda v, f: "None" if v is None else f"(Some {f(v)})"
    cl = lambda xs: clist(sorted(xs), cstr)
    terms, meta = [], []
    excludes = [None, [], ["a"], ["b"], ["a", "c"], ["zz"], ["a", "b", "c"]]
    for shared in ([], ["b"], ["a", "c"]):
        for skip in (False, True):
            for force in (False, True):
                for setb in (False, True):
                    fs = [("a", True), ("b", setb), ("c", False)]
                    for ex in excludes:
                        for eu in (None, False, True):
                            m = {"how": rng.choice(["dict", "dict", "serialize", "json"]), "kw": {}, "b_set": setb,
                                 "class": {"serialize_default_excludes": shared, "serialize_skip_defaults": skip, "force_skip_defaults": force}}
                            if ex is not None:
                                m["kw"]["exclude"] = list(ex)
                            if eu is not None:
                                m["kw"]["exclude_unset"] = eu
                            try:
                                r = dict_kwargs_run(m)
                            except Exception as ex_:  # noqa
                                corr.errors.append(f"dict-kwargs: {m['how']}({m['kw']}) raised {type(ex_).__name__}: {ex_}")
                                continue
                            kwt = ("{| kw_exclude := %s; kw_exclude_unset := %s |}" % (copt(ex, cl), copt(eu, cbool)))
                            if m["how"] != "dict":
                                kwt = "(serialize_kw %s %s)" % (copt(ex, cl), copt(eu, cbool))
                            terms.append("((%s, {| skip_defaults := %s; force_skip := %s |}, %s, %s), ((%s, %s), %s, %s))" % (
                                cl(shared), cbool(skip), cbool(force), kwt, clist(fs, lambda f: f"({cstr(f[0])}, {cbool(f[1])})"),
                                cl(r["exclude"]), cbool(r["exclude_unset"]), cl(r["shared_after"]), cl(r["keys"])))
                            meta.append((m, r))
                            corr.count("dict-kwargs")
                            corr.hit("dict_kwargs_" + m["how"])
    bad, errors = coqrun.eval_bad_indices("C19_dict", ["QV.Model.Compare", "QV.Model.ModelDict"], "", "check_dict_call", terms, shard=1200)
    corr.errors.extend(f"dict-kwargs shard {k}: {e}" for k, e in errors)
    # calls that name fields first: they are the ones that can leave something behind on their own (a replay is a single call)
    for b in sorted(bad, key=lambda b: (not meta[b][0]["kw"].get("exclude"), b))[:5]:
        corr.disagreements.append({"stream": "dict-kwargs", "case": {"dict_kwargs": meta[b][0]}, "impl": meta[b][1], "model": "check_dict_call = false"})


def dict_kwargs_failure(m):
    got, want = dict_kwargs_run(m), dict_kwargs_spec(m)
    if got == want:
        return None
    k = m["class"]
    return {"stream": "dict-kwargs", "case": {"dict_kwargs": m},
            "what": f"model.{m['how']}({', '.join(f'{a}={v!r}' for a, v in sorted(m['kw'].items()))}) on a ProtoModel subclass with Config {k} "
                    f"(fields a set, b {'set' if m['b_set'] else 'unset'}, c unset): pydantic must receive / the class must keep / the result must hold "
                    f"{want}, observed {got}", "observed": got, "expected": want}


def node_hits(corr, q):
    """which model branches a query reaches: the Python types of the nodes of [expected] (the isinstance ladder), the dtype
    rule and the dimensionality for the array functions, the options that were on"""
    def walk(t):
        k = t[0]
        if k == "sc":
            corr.hit("node_" + ("np." if t[1] else "") + t[2])
        elif k == "arr":
            corr.hit("node_ndarray_" + t[1])
        elif k == "other":
            corr.hit("node_set")
        else:
            corr.hit("node_" + ("tuple" if k == "list" and t[1] else k))
            for x in (t[2] if k == "list" else [v for _, v in t[1]]):
                walk(x)
    o = q["o"]
    if q["fn"] in ("rec", "mol"):
        walk(q["e"])
        if o["forgive"]:
            corr.hit("opt_forgive")
        if o["equal_phase"]:
            corr.hit("opt_equal_phase_" + ("bool" if o["equal_phase"] is True else "list"))
    else:
        try:
            sh = flat(q["e"])[0]
            corr.hit(f"{q['fn']}_ndim_{len(sh)}")
        except Exception:  # noqa
            corr.hit(f"{q['fn']}_not_array")
        for k in ("equal_nan", "equal_phase", "passnone"):
            if o.get(k):
                corr.hit("opt_" + k)
    if q.get("omit"):
        corr.hit("opt_defaults_omitted")


def judge_case(q, full_variants, rng):
    """run the implementation (with reporting-option variants), return (out, failure-or-None)"""
    out = impl_run(q, VARIANTS[0])
    vs = VARIANTS[1:] if full_variants else [rng.choice(VARIANTS[1:])]
    for v in vs:
        o2 = impl_run(q, v)
        if o2 != out:
            return out, {"what": f"verdict depends on the reporting options: quiet/return_message/handler={v} gave {o2}, "
                                 f"the default gave {out}", "tag": "options", "want": None}
    if out[0] == "Bad":
        return out, {"what": out[1], "tag": "bad", "want": None}
    return out, oracle(q, out)


SHARD = 600
REQ = ["Coq.Floats.PrimFloat", "QV.Model.Compare"]


def robust_eval(tag, terms):
    """eval_bad_indices, re-running (smaller, up to twice) the shards whose coqc died without a Coq error message
    (killed under memory pressure); a shard that fails with a Coq error is a machinery error and is kept"""
    bad, errors = coqrun.eval_bad_indices(tag, REQ, "", "check_case", terms, shard=SHARD, ty="query * res bool")
    kept = []
    for k, msg in errors:
        if "Error" in msg:
            kept.append((k, msg))
            continue
        chunk = terms[k:k + SHARD]
        for attempt in range(2):
            b2, e2 = coqrun.eval_bad_indices(tag + "r", REQ, "", "check_case", chunk, shard=150, ty="query * res bool")
            if not e2:
                bad.extend(k + x for x in b2)
                break
        else:
            kept.append((k, "shard died repeatedly without output: " + msg[-300:]))
    return sorted(bad), kept


def correspond(ctx):
    import json
    from concurrent.futures import ThreadPoolExecutor
    corr = Corr()
    corr.rule = ("a case is non-trivial if the implementation returned a verdict (not an exception) and the input is not a literal "
                 "copy (expected == computed trees); distinct = distinct (function, options, expected, computed)")
    state = {"nbad": 0}
    first_sample = None

    def absorb(bi, fut, meta):
        bad, errors = fut.result()
        corr.errors.extend(f"batch {bi} shard {k}: {e}" for k, e in errors)
        for b in bad:
            state["nbad"] += 1
            if len(corr.disagreements) < 8:
                stream, qj, out = meta[b]
                q = json.loads(qj)
                got, _ = coqrun.eval_terms("C19", REQ, "", [f"run {q_to_coq(q)}"])
                corr.disagreements.append({"stream": stream, "case": {"query": q}, "impl": list(out), "model": got})

    pending = None
    with ThreadPoolExecutor(max_workers=1) as pool:
        for bi, cases in enumerate(case_batches(ctx)):
            terms, meta = [], []
            for stream, q in cases:
                out, bad = judge_case(q, stream in FULL_STREAMS or ctx.rng.random() < 0.02, ctx.rng)
                corr.count(stream)
                node_hits(corr, q)
                corr.hit(f"{q['fn']}_{out[0]}_{out[1] if out[0] != 'Bad' else 'bad'}")
                if q.get("via") == "model":
                    corr.hit("rec_via_ProtoModel.compare")
                if out[0] == "Ok" and q["e"] != q["c"]:
                    corr.nontriv(q)
                if bad:
                    corr.failures.append({"stream": "oracle-" + q["fn"], "case": {"query": q}, "what": bad["what"],
                                          "observed": list(out), "expected": bad.get("want"), "tag": bad.get("tag")})
                if out[0] == "Bad":
                    continue
                if first_sample is None and stream == "corpus" and q["fn"] == "rec":
                    first_sample = {"query": q, "implementation": list(out)}
                    corr.sample(first_sample)
                if stream != "corpus" and ctx.rng.random() < 0.0006:
                    corr.sample({"query": q, "implementation": list(out)})
                terms.append("(%s, %s)" % (q_to_coq(q), out_to_coq(out)))
                meta.append((stream, json.dumps(q), out))
            del cases
            ctx.log(f"batch {bi}: {len(terms)} cases through the implementation; model evaluation started")
            if pending is not None:
                absorb(*pending)                      # the previous batch ran in Coq while this one ran in Python
            pending = (bi, pool.submit(robust_eval, f"C19_{bi % 2}", terms), meta)
            del terms
        if pending is not None:
            absorb(*pending)
    if state["nbad"] > 8:
        corr.notes.append(f"{state['nbad']} disagreements in total; first 8 listed")
    molrec_checks(ctx, corr)
    molrec_align_checks(ctx, corr)
    sequence_checks(ctx, corr)
    model_history_checks(ctx, corr)          # the two streams that call the models' serialisation API run last, in this order
    dict_kwargs_checks(ctx, corr)
    for k, v in sorted(ORACLE_STATS.items()):
        corr.hit(k, v)
    ORACLE_STATS.clear()
    corr.exhaustive = False
    return corr


def search(ctx, corr, reasons):
    found = []
    for d in corr.disagreements:
        if "dict_kwargs" in d["case"]:
            try:
                bad = fresh_run(None, None, req={"dict_kwargs": d["case"]["dict_kwargs"]})      # alone, in a new interpreter
            except Exception as ex:  # noqa
                ctx.log("search: " + str(ex)[-300:])
                bad = None
            if bad and not any(f["stream"] == "dict-kwargs" for f in found):
                found.append(bad)
            continue
        q = d["case"]["query"]
        out, bad = judge_case(q, True, ctx.rng)
        if bad:
            found.append({"stream": "search", "case": {"query": q}, "what": bad["what"], "observed": list(out),
                          "expected": bad.get("want"), "tag": bad.get("tag")})
    return found


def replay(ctx, rp):
    case = rp["case"]
    if "molrecs" in case:
        m = case["molrecs"]
        expect, got, untouched = molrec_case(m["changes"], m["forgive"], tuple(m["variant"]))
        return {"molrecs": m, "expected": expect, "implementation": str(got), "inputs_untouched": untouched,
                "fails": (got is not expect) or not untouched}
    if "dict_kwargs" in case:
        bad = dict_kwargs_failure(case["dict_kwargs"])
        return {"dict_kwargs": case["dict_kwargs"], "failure": (bad or {}).get("what"), "fails": bool(bad)}
    if "molrecs_align" in case:
        m = case["molrecs_align"]
        expect, got = molrec_align_case(m)
        return {"molrecs_align": m, "expected": expect, "implementation": str(got), "fails": got is not expect}
    if "model_history" in case:
        rec = case["model_history"]
        outs, tags = history_case_run(rec)
        try:
            base = fresh_run([rec], False)[0]
        except Exception:  # noqa
            base = None
        bad = history_failure(rec, outs, base)
        return {"model_history": rec, "history_calls": tags, "outcomes_after_history": outs, "outcomes_in_a_fresh_interpreter": base,
                "required": [probe_want(p) for p in rec["probes"]], "failure": (_history_text(rec, bad[0]) + ": " + bad[1]) if bad else None,
                "shared_exclude_set_afterwards": outs[-1][1],
                "fails": bool(bad)}
    if "sequence" in case:
        qs = case["sequence"]
        outs, variants = sequence_run(qs, variants=case["variants"])
        bad = sequence_failure(qs, outs, variants)
        return {"sequence": qs, "variants": variants, "outcomes_on_live_objects": [list(o) for o in outs],
                "failure": (bad or {}).get("what"), "fails": bool(bad)}
    q = case["query"]
    out, bad = judge_case(q, True, ctx.rng)
    return {"query": q, "python": {"expected": repr(to_py(q["e"])), "computed": repr(to_py(q["c"]))},
            "implementation": list(out), "oracle": bad, "fails": bool(bad)}


# ------------------------------------------------------------------------------------------------------
# known findings: none open; closed: C19-molrecs-align-fixed-frame-early-return (8a7d57a), (C19-complex-scalar-mismatch, C19-complex-computed-imag-dropped, C19-npbool-leaf were repaired by
# 4bd9561 and f568480; their failing inputs stay in corpus())

def _known_align_early_return(f):
    m = (f.get("case") or {}).get("molrecs_align")
    return bool(m) and m["fix"] in ("com", "orientation") and bool(m["change"]) and m["pert"] == 0 and str(f.get("observed")) == "True"


KNOWN = {}   # C19-molrecs-align-fixed-frame-early-return was repaired in /repo by 8a7d57a (its failing input stays in the molrecs-align stream)

TRUSTED = [
    "hand-written model coq/Model/Compare.v of testing.py (compare_values, compare, _compare_recursive, compare_recursive, "
    "compare_molrecs, ProtoModel.compare, _handle_return), tied by bit-exact differential execution through vm_compute (this file) "
    "and, for its glue, by the generated file below",
    "translator harness/translate/cmpglue.py (Python ast of testing.py / basemodels.py -> coq/Gen/CompareGlue.v, fail-closed, every "
    "run): keyword defaults, the isinstance ladder of _compare_recursive with the subclass facts and np.issubdtype(.., np.floating) "
    "taken from the running Python/numpy, the keywords of the inner calls, np.isclose's operand order and keywords (first try and "
    "phase retry), node-name / entry-normalisation / match-test expressions, the atol >= 1 refusal, the verdict expression and the "
    "(return_message, quiet) order at every return site, massage_dicts' keys and compare_molrecs' forwarded keywords, "
    "ProtoModel.compare's forwarding call, ProtoModel.dict's statements (the exclude expression is translated structurally: "
    "`|` builds a new set; any in-place statement or mutating method call is refused), ProtoModel.Config's defaults, serialize's "
    "`if option: kwargs[option] = option` blocks and json's forwarding call, and that no other file of the package names "
    "serialize_default_excludes; the statements it only checks textually (casts, shape test, removal-loop skeleton, "
    "message-only blocks) are trusted to mean what the model says; Proofs/CompareGlue.v proves generated = hand model for all inputs",
    "PrimFloat kernel primitives = IEEE-754 binary64 as used by CPython/numpy (add, sub, mul, abs, leb, eqb, sqrt, of_uint63)",
    "numpy array construction (shape discovery, dtype inference, casting), elementwise ==, unary minus and np.isclose's formula are "
    "modelled, not verified; complex |z| is modelled as sqrt(re^2+im^2) (C hypot may differ by an ulp: complex correspondence cases "
    "are axis-aligned at the edge (exact) or judged when at least 2^-46 (relative) away from it; generated down to 2^-44)",
    "message texts are not modelled (only which error names exist); sorted() in the forgive loops is modelled as list order",
    "compare_molrecs' normalisation (massage_dicts) is modelled and compared through vm_compute (stream molrecs-model) for str "
    "fragment_files, None/bool/int fragment_separators, dict provenance and integer-atom bonds; copy.deepcopy and pydantic's "
    "BaseModel.dict (field selection by exclude / exclude_unset at top level is modelled in Model/ModelDict.v base_dict and observed by "
    "stream dict-kwargs; nested conversion, aliases and encoders are trusted; a model is represented by the tree of its dict) are "
    "trusted; relative_geoms='align' is not covered",
    "the Python oracle (spec_values/spec_compare/spec_rec in this file)",
]
ASSUMPTIONS = [
    "Python ints in compared data are below 2^53 in magnitude; strings handed to compare_values do not look numeric (no digit, "
    "n, N, j, J); dict keys are str; no ndarray nested inside a list handed to compare_values/compare; object arrays hold no dicts: "
    "outside these the model answers Unmodelled and the theorems do not speak",
    "for the segment reading of forgive/equal_phase (key-boundary theorem): keys contain no '.'",
]
TECHNIQUE = ("Coq proof over a hand-written Gallina model with binary64 leaves as kernel primitive floats (structural induction over "
             "trees of any depth and width) + glue of testing.py regenerated into Coq by a fail-closed translator and proved equal to the "
             "model + bit-exact differential correspondence against the implementation + independent Python oracle")
DESIGN_REF = "DESIGN.md §6 C19"
LEVEL_TEXT = (
    "Machine-checked (Coq 8.16.1) theorems about Model/Compare.v, whose leaves are binary64 kernel floats and whose trees have any "
    "depth and width: C19_isclose_real_band (through Flocq's semantics of the primitive floats: for finite inputs, non-negative "
    "tolerances and no intermediate overflow, the binary64 closeness test true implies |c-e| <= (T+2^-1075)(1+2^-51) and false implies "
    "|c-e| >= (T-2^-1074)(1-2^-51) with T = atol+rtol*|e| over the reals), C19_modulus_model_error (the model's complex modulus "
    "sqrt(re*re+im*im) in binary64 is within (1-2^-53)^2..(1+2^-53)^2 of the exact modulus when the squares neither underflow nor "
    "overflow), C19_compare_values_spec (True <-> passnone-both-None, or usable atol and both casts succeed with equal shape and "
    "all elements close by numpy's binary64 formula, or all close against the negated computed data when equal_phase; real and complex), "
    "C19_compare_values_false_spec (the False verdict, exactly), C19_compare_values_total, C19_compare_values_raise_spec / "
    "C19_compare_values_raises_only (only an unusable atol raises; never a TypeError on a mismatch), C19_ragged_is_false (a ragged "
    "nest on either side is a cast failure), C19_complex_computed_counts (complex as soon as either input is "
    "complex), C19_compare_spec (exact equality with phase retry), "
    "C19_compare_never_raises, C19_recursive_errors_are_failing_sites (by induction over the tree: the collected error names are "
    "exactly the failing sites below matching keys/positions), C19_recursive_spec (True <-> every failing site is covered by a forgive "
    "entry or selected by equal_phase with no failing site of that name in the sign-flipped run), C19_recursive_spec_sites / "
    "C19_name_is_site (for dot-free keys the same, site by site: every node failing its rule is forgiven or passes with the sign "
    "flipped where selected), C19_no_false_pass, C19_no_false_fail, "
    "C19_recursive_raise_spec, C19_float_leaf_spec, C19_forgive_key_boundary / C19_forgive_by_segments / C19_forgiven_by_segments / "
    "C19_forgive_descends (entries select whole keys, never string prefixes), C19_options_inert / "
    "C19_handler_receives_verdict, C19_bool_leaf_exact (bool and numpy.bool_ leaves are exact leaves), C19_molrecs_is_recursive "
    "(compare_molrecs, exact mode, is compare_recursive on the normalised records), C19_molrecs_normalise_idempotent (files to str, "
    "separators to int, version popped, bonds as (min, max, order) stably sorted on the first atom: normalising twice changes "
    "nothing), C19_molrecs_version_forgiven, C19_molrecs_bond_orientation, C19_protomodel_compare. Companions (wave 3): "
    "C19_compare_values_no_phase_spec (equal_phase off: True <-> all elements close, no sign flip), C19_nan_only_on_request (either side "
    "NaN: the binary64 test is true exactly when equal_nan and both are NaN; FloatAxioms), C19_complex_real_axis_is_real_rule (complex "
    "data with zero imaginary parts are judged by the real rule, all values; FloatAxioms), C19_compare_false_spec (the False verdict of "
    "the exact comparison, exactly), C19_options_inert_molrecs / C19_handler_receives_verdict_molrecs (compare_molrecs incl. "
    "quiet=(verbose == 0), ProtoModel.compare), C19_public_verdicts (for all five entry points the value returned through the default "
    "handler carries verdict b exactly when the core says b), C19_molrecs_other_keys_untouched. Generated glue (Gen/CompareGlue.v, from "
    "the source on every run) proved equal to the hand model for all inputs: C19_glue_defaults (atol=1e-6, rtol=1e-16 as binary64, flags "
    "off, verbose=1, relative_geoms='exact'), C19_glue_ladder (what cmp_rec does at a node is what the source's isinstance ladder, with "
    "the running numpy's subclass facts, selects for the node's type; floating-dtype ndarrays through compare_values, others through "
    "compare), C19_glue_tuple_as_list, C19_glue_leaf_options, C19_glue_isclose_calls (np.isclose(computed, expected, rtol, atol, "
    "equal_nan), retry on -computed), C19_glue_matching (entry normalisation, match test, atol >= 1), C19_glue_compare_recursive, "
    "C19_glue_child_names, C19_glue_return_sites, C19_glue_molrecs. Wave 4 (Model/ModelDict.v: ProtoModel.dict / serialize / json "
    "with the class-level exclude set shared by every model class as explicit state): C19_dict_leaves_shared_config (any history of "
    "conversions, any classes and keywords, leaves the shared set unchanged), C19_dict_exclude_spec (a name is excluded from one "
    "conversion iff that call names it or the shared set holds it), C19_model_compare_history_free (Model.compare after any history = "
    "comparison of all fields / all set fields for skip-defaults classes), C19_model_no_false_pass_after_history, C19_glue_model_dict "
    "(ProtoModel.dict's statements, Config defaults and serialize's forwarding as generated from basemodels.py = hand model). "
    "The model is tied to testing.py on every run by bit-exact differential execution through vm_compute (floats cross as hex "
    "literals): tolerance-edge perturbations built with nextafter over atol 1e-12..1e-1 x rtol x flags x dtypes x shapes 0-3d, "
    "non-finite values, uncastable/ragged inputs, complex data, exact comparison, nested structures of depth <= 4 with perturbed "
    "leaves, extra/missing keys, type confusion, forgive / equal_phase lists incl. overlapping and prefix-but-not-parent entries, "
    "ProtoModel.compare, and the reporting options varied on every case; every entry point also with its option keywords omitted "
    "(signature defaults), the full flag products, the isinstance ladder type by type, non-tolerance boundaries (atol >= 1 refusal, "
    "unusable tolerances, empty containers and keys, entries naming the root), one object passed as both arguments, sequences of calls "
    "with changing options on one pair of live objects (verdict independent of earlier calls) and a check on every call that the "
    "caller's objects are unchanged; ProtoModel.dict's keywords as they reach pydantic, the class-level set afterwards and the "
    "keys of the result for classes with every Config flag combination (stream dict-kwargs, model = Model/ModelDict.v); histories of "
    "dict / json / serialize / copy / compare / parse / schema calls with include / exclude / skip options on models of seven schema "
    "classes and free-form models, followed by comparisons of models that differ exactly in a named field, in another field, or not at "
    "all (stream model-history: judged by the property and against the same comparisons in a fresh interpreter; the shared "
    "configuration is inspected after every history); an independent Python specification judges the "
    "implementation's verdicts and yields the replays; compare_molrecs' normalisation is judged on the implementation.")
LEVEL_NOTE = (
    "Clause map: S1 numeric rule -> C19_compare_values_spec/_false_spec/_total/_raise_spec/_raises_only/_no_phase_spec, "
    "C19_ragged_is_false, C19_glue_isclose_calls; over the reals C19_isclose_real_band (real data), "
    "C19_complex_real_axis_is_real_rule + C19_modulus_model_error (complex; the band off the axes is correspondence/oracle only), "
    "C19_nan_only_on_request. S2 exact rule -> C19_compare_spec/_false_spec/_never_raises. S3 recursion -> "
    "C19_recursive_errors_are_failing_sites, C19_recursive_spec(_sites), C19_no_false_pass/_fail, C19_glue_ladder (leaf rule per type), "
    "forgive: C19_forgive_key_boundary/_by_segments/_descends, C19_glue_matching; compare_molrecs: C19_molrecs_* (exact mode only), "
    "Model.compare: C19_protomodel_compare, and independent of earlier model-to-dict conversions: C19_model_compare_history_free, "
    "C19_model_no_false_pass_after_history, C19_dict_leaves_shared_config, C19_dict_exclude_spec, C19_glue_model_dict. S4 options -> C19_options_inert(_molrecs), C19_handler_receives_verdict(_molrecs), "
    "C19_glue_return_sites, C19_public_verdicts. "
    "Trusted: Coq kernel + vm_compute incl. its IEEE-754 binary64 primitives (listed by Print Assumptions as PrimFloat/PrimInt63 "
    "constants; no FloatAxioms except under the four theorems named below, no declared axiom); the hand-written model (its glue is "
    "regenerated from the source and proved equal; see TRUSTED for what the translator only checks textually); numpy's array construction / casting / == / unary minus "
    "and np.isclose's formula are modelled, not verified. The structural theorems state the closeness test as numpy's formula "
    "evaluated in binary64 (what the code computes); C19_isclose_real_band relates it to the real-number inequality (real data; it and "
    "C19_modulus_model_error rest on the FloatAxioms specifications of the kernel primitives, the classical-reals axioms and excluded middle, all "
    "allow-listed; C19_nan_only_on_request and C19_complex_real_axis_is_real_rule on FloatAxioms only) and the Python oracle re-checks that band in exact rational arithmetic on every real case it applies to. Complex |z| is modelled as "
    "sqrt(re^2+im^2) (exact when axis-aligned); complex cases off the axes are generated down to 2^-44 (relative) from the edge and "
    "judged when at least 2^-46 away (C hypot and the modelled formula are both within 2 ulp of |z|; not proved in Coq). Outside the model "
    "(answer Unmodelled, excluded by every statement): ints >= 2^53, numeric-looking strings handed to compare_values, ndarrays "
    "nested in lists, object arrays holding dicts, sets under a list, exact leaves against ndarrays, non-str keys. Message texts and "
    "sorted() order are not modelled (they do not influence the verdict: proved for the removal loops by a counting argument). "
    "equal_phase excuses a site when no error of the same NAME remains in the flipped run (as the code does); names are unique per "
    "site when keys have no dots, which is assumed by the segment reading only. compare_molrecs is modelled in exact mode only "
    "(relative_geoms='align' is not covered; bonds are sorted on the first atom only, as the code does, so two bonds sharing their "
    "first atom listed in a different order compare unequal); pydantic's BaseModel.dict is trusted (ProtoModel.dict's own keyword handling is generated and proved). The only exceptions compare_values can "
    "raise are those of an unusable atol (<= 0, NaN, infinite), which is outside the property's quantifier (modelled; the oracle "
    "abstains).")
