"""C05 — charge/multiplicity completion: correspondence of Model/ChgMult.v with
qcelemental.molparse.validate_and_fill_chgmult, and the property oracle on the implementation."""
import itertools

import numpy as np

from .. import coqrun
from ..core import Corr
from ..coqrun import cz, clist, copt, cbool

PID = "C05"
ALLOWED_AXIOMS = set()
TRUSTED = [
    "hand-written model coq/Model/ChgMult.v of chgmult.validate_and_fill_chgmult, tied by differential execution (this file)",
    "numpy np.split/np.sum on small integer arrays, itertools.product order, CPython int arithmetic (modelled, not verified)",
    "model covers integer zeff/charges/multiplicities only; float (fractional) charges are outside the model",
]
ASSUMPTIONS = [
    "fragment_charges / fragment_multiplicities have one entry per fragment (wf_in); callers in from_arrays guarantee it",
]


def translate(ctx):
    return None


def impl_call(felez, c, fc, m, fm, zgf):
    from qcelemental.molparse import validate_and_fill_chgmult
    from qcelemental.exceptions import ValidationError
    zeff = np.array([z for f in felez for z in f], dtype=float)
    seps = list(itertools.accumulate(len(f) for f in felez))[:-1]
    try:
        r = validate_and_fill_chgmult(zeff, np.array(seps, dtype=int), c, list(fc), m, list(fm),
                                      zero_ghost_fragments=zgf, verbose=-1)
    except ValidationError:
        return ("Err", "Validation")
    except Exception as e:  # any other exception class is itself a finding (fails_closed)
        return ("Err", type(e).__name__)
    return ("Ok", (r["molecular_charge"], list(r["fragment_charges"]), r["molecular_multiplicity"],
                   list(r["fragment_multiplicities"])))


def _is_int(x):
    return isinstance(x, (int, np.integer)) or (isinstance(x, float) and x.is_integer())


def case_term(case, out):
    felez, c, fc, m, fm, zgf = case
    inp = ("{| felez := %s; ic := %s; ifc := %s; im := %s; ifm := %s; zgf := %s |}" % (
        clist(felez, lambda f: clist(f, cz)), copt(c, cz), clist(fc, lambda x: copt(x, cz)), copt(m, cz),
        clist(fm, lambda x: copt(x, cz)), cbool(zgf)))
    if out[0] == "Ok":
        rc, rfc, rm, rfm = out[1]
        o = "(Ok {| oc := %s; ofc := %s; om := %s; ofm := %s |})" % (cz(rc), clist(rfc, cz), cz(rm), clist(rfm, cz))
    else:
        kind = {"Validation": "Validation", "ValueError": "PyValueError", "IndexError": "PyIndexError",
                "TypeError": "PyTypeError", "KeyError": "PyKeyError", "AttributeError": "PyAttributeError"}.get(out[1], "PyAssertion")
        o = f"(Err {kind})"
    return f"({inp}, {o})"


def oracle(case, out):
    """The property, evaluated on the implementation's answer. Returns None or a description."""
    felez, c, fc, m, fm, zgf = case
    if out[0] == "Err":
        return None if out[1] == "Validation" else f"raised {out[1]} instead of ValidationError"
    rc, rfc, rm, rfm = out[1]
    nfr = len(felez)
    ghost = [all(z == 0 for z in f) for f in felez]
    fz = [sum(f) for f in felez]
    if len(rfc) != nfr or len(rfm) != nfr:
        return "wrong number of fragments in the answer"
    if not all(_is_int(x) for x in [rc, rm] + list(rfc) + list(rfm)):
        return "non-integer value returned for integer input"
    overridden = zgf and any(ghost)
    # supplied values kept
    if not overridden:
        if c is not None and rc != c:
            return "total charge not kept"
        if m is not None and rm != m:
            return "total multiplicity not kept"
    for i in range(nfr):
        if not (overridden and ghost[i]):
            if fc[i] is not None and rfc[i] != fc[i]:
                return f"fragment charge {i} not kept"
            if fm[i] is not None and rfm[i] != fm[i]:
                return f"fragment multiplicity {i} not kept"
    if rc != sum(rfc):
        return "total charge is not the sum of fragment charges"
    if rm < 1 or any(x < 1 for x in rfm):
        return "non-positive multiplicity"
    if rm - 1 > sum(fz) - rc or any(rfm[i] - 1 > fz[i] - rfc[i] for i in range(nfr)):
        return "not enough electrons for multiplicity"
    if (rm % 2) == ((sum(fz) - rc) % 2) or any((rfm[i] % 2) == ((fz[i] - rfc[i]) % 2) for i in range(nfr)):
        return "wrong electron parity"
    for i in range(nfr):
        if ghost[i] and not (rfc[i] == 0 and rfm[i] == 1):
            return "ghost fragment not neutral singlet"
    fully = (m is not None and all(x is not None for x in fm)) and not overridden
    if not fully and rm != 1 + sum(x - 1 for x in rfm):
        return "not high-spin although total/fragment multiplicities were not all given"
    return None


def oracle_extra(case, out, rerun):
    """fixed point, acceptance of valid full specs, default, determinism."""
    felez, c, fc, m, fm, zgf = case
    if out[0] != "Ok":
        return None
    rc, rfc, rm, rfm = out[1]
    again = rerun((felez, rc, list(rfc), rm, list(rfm), zgf))
    if again != out:
        return f"completed assignment fed back is not returned unchanged: {again}"
    if c is None and m is None and all(x is None for x in fc) and all(x is None for x in fm) and \
            all(z >= 0 for f in felez for z in f):
        fz = [sum(f) for f in felez]
        low = [1 if z % 2 == 0 else 2 for z in fz]
        if not (rc == 0 and all(x == 0 for x in rfc) and list(rfm) == low):
            return "blank specification is not neutral / lowest multiplicity per fragment"
    return None


def gen_cases(ctx):
    rng = ctx.rng
    chg = [None, -3, -2, -1, 0, 1, 2, 3]
    mult = [None, 1, 2, 3, 4, 5, 6]
    cases = []
    # stream A: one fragment, exhaustive over electrons 0..20 (as one atom, or split over two atoms)
    els = range(0, 21) if ctx.thorough else [0, 1, 2, 3, 7, 8, 10, 20]
    for z in els:
        for c, fc, m, fm in itertools.product(chg, chg, mult, mult):
            for zg in ((False, True) if (ctx.thorough or z == 0) else (False,)):
                f = [z] if z < 2 else [z - 1, 1]
                cases.append(("1frag", ([f], c, [fc], m, [fm], zg)))
    # stream B: two fragments, exhaustive over a small scope
    els2 = [0, 1, 2, 7, 10] if ctx.thorough else [0, 1, 2, 7]
    chg2 = [None, -2, -1, 0, 1, 2] if ctx.thorough else [None, -1, 0, 1, 2]
    mult2 = [None, 1, 2, 3, 4] if ctx.thorough else [None, 1, 2, 3]
    for z1, z2 in itertools.product(els2, els2):
        for c, f1, f2 in itertools.product(chg2, chg2, chg2):
            for m, m1, m2 in itertools.product(mult2, mult2, mult2):
                zg = (z1 == 0 or z2 == 0) and rng.random() < 0.5
                cases.append(("2frag", ([[z1], [z2]], c, [f1, f2], m, [m1, m2], zg)))
    if not ctx.thorough:
        two = [x for x in cases if x[0] == "2frag"]
        keep = set(rng.sample(range(len(two)), 20000))
        cases = [x for x in cases if x[0] != "2frag"] + [two[k] for k in sorted(keep)]
    # stream C: 3-4 fragments sampled, incl. ghost fragments, multi-atom fragments, non-positive multiplicities
    n = 60000 if ctx.thorough else 6000
    for _ in range(n):
        nfr = rng.choice([3, 3, 4])
        felez = []
        for _f in range(nfr):
            k = rng.choice([1, 1, 2, 3])
            felez.append([rng.choice([0, 0, 1, 1, 2, 6, 7, 8, 9, 10, 11, 20]) for _a in range(k)])
        pc = rng.choice([0.2, 0.5, 0.8])
        c = rng.choice(chg) if rng.random() < pc else None
        m = rng.choice(mult + [0, -1]) if rng.random() < pc else None
        fc = [rng.choice(chg) if rng.random() < pc else None for _f in range(nfr)]
        fm = [rng.choice(mult + [0, -2]) if rng.random() < pc else None for _f in range(nfr)]
        cases.append(("nfrag", (felez, c, fc, m, fm, rng.random() < 0.3)))
    # stream D (history): the same flat electron list and the same arguments, split into fragments at
    # different places one call after the other (a result cache keyed without the separators, or any other
    # state kept between calls, shows up as a disagreement with the split-aware model)
    flats = list(itertools.product([1, 2, 3, 7, 8], repeat=3)) + [(3, 1, 2, 1), (6, 7, 8, 1), (1, 1, 1, 1)]
    if not ctx.thorough:
        flats = rng.sample(flats, 40) + [(3, 1, 2), (6, 7, 8)]
    for flat in flats:
        nat = len(flat)
        for args in ((None, None, None, None), (1, None, None, None), (None, None, None, 1), (0, 0, 1, None)):
            for sep in range(1, nat):
                felez = [list(flat[:sep]), list(flat[sep:])]
                c, f1, m, m2 = args
                cases.append(("resplit", (felez, c, [f1, None], m, [None, m2], False)))
    # corpus: docstring examples and edge cases found earlier
    corpus = [
        ([[7], [10], [7]], 1, [None, None, None], 4, [None, 3, None], False),
        ([[0, 0]], 1, [None], None, [None], False),
        ([[0], [2], [0]], 1, [None, None, None], None, [None, None, None], False),
        ([[0], [2], [0]], 1, [None, None, None], None, [None, None, None], True),
        ([[0], [2]], 3, [1, 1], 3, [2, 2], True),
        ([[-1]], None, [None], None, [None], False),
        ([[1], [2]], None, [None, None], 0, [None, None], False),
        ([[2]], None, [None], None, [0], False),
    ]
    return [("corpus", c) for c in corpus] + cases


def correspond(ctx):
    corr = Corr()
    corr.rule = ("exhaustive 1-fragment scope (electrons x c x fc x m x fm x zgf), exhaustive-or-sampled 2-fragment scope, "
                 "sampled 3-4 fragment systems incl. ghosts and non-positive multiplicities; a case is non-trivial if the "
                 "implementation returned an assignment (not an error); distinct = distinct inputs")
    cases = gen_cases(ctx)
    memo = {}

    def run(case):
        key = repr(case)
        if key not in memo:
            memo[key] = impl_call(*case)
        return memo[key]

    terms, meta = [], []
    for stream, case in cases:
        out = run(case)
        corr.count(stream)
        corr.hit("impl_" + (out[0] if out[0] == "Ok" else "Err_" + out[1]))
        if out[0] == "Ok":
            corr.nontriv(case)
            if stream != "corpus" and ctx.rng.random() < 0.0005:
                corr.sample({"input": case, "output": out})
        bad = oracle(case, out)
        if bad is None:
            bad = oracle_extra(case, out, run)
        if bad:
            corr.failures.append({"stream": "oracle", "case": {"input": case}, "what": bad, "observed": out})
        terms.append(case_term(case, out))
        meta.append((stream, case, out))
    corr.sample({"input": cases[0][1], "output": run(cases[0][1])})
    # determinism / history independence: replay a shuffled sample after everything else ran
    idx = list(range(len(cases)))
    ctx.rng.shuffle(idx)
    for k in idx[:3000]:
        again = impl_call(*cases[k][1])
        corr.count("determinism")
        if again != memo[repr(cases[k][1])]:
            corr.failures.append({"stream": "determinism", "case": {"input": cases[k][1]},
                                  "what": "same input gave a different answer later in the run",
                                  "observed": [memo[repr(cases[k][1])], again]})
    ctx.log(f"{len(terms)} cases through the implementation; evaluating the model")
    bad, errors = coqrun.eval_bad_indices("C05", ["QV.Common.Outcome", "QV.Model.ChgMult"], "", "check_case", terms,
                                          shard=1500, ty="cm_in * outcome cm_out")
    corr.errors.extend(f"shard {k}: {e}" for k, e in errors)
    for b in bad[:8]:
        stream, case, out = meta[b]
        got, _ = coqrun.eval_terms("C05", ["QV.Common.Outcome", "QV.Model.ChgMult"], "",
                                   [f"fill (fst {terms[b]})"])
        corr.disagreements.append({"stream": stream, "case": {"input": case}, "impl": out, "model": got})
    corr.exhaustive = False
    return corr


def search(ctx, corr, reasons):
    """Oracle on the implementation for the disagreeing cases (the corpus and the full sample were
    already judged by the oracle inside correspond)."""
    found = []
    for d in corr.disagreements:
        case = tuple(d["case"]["input"])
        out = impl_call(*case)
        bad = oracle(case, out) or oracle_extra(case, out, lambda c: impl_call(*c))
        if bad:
            found.append({"stream": "search", "case": {"input": case}, "what": bad, "observed": out})
    return found


def replay(ctx, rp):
    case = rp["case"]["input"]
    felez, c, fc, m, fm, zgf = case
    out = impl_call(felez, c, fc, m, fm, zgf)
    bad = oracle(case, out) or oracle_extra(case, out, lambda cc: impl_call(*cc))
    return {"input": case, "implementation": out, "oracle": bad, "fails": bool(bad)}


KNOWN = {}

TECHNIQUE = "Coq proof over a hand-written Gallina model (induction over fragment lists) + differential correspondence against the implementation"
DESIGN_REF = "DESIGN.md §6 C05"
LEVEL_TEXT = (
    "Machine-checked (Coq 8.16.1) theorems about Model/ChgMult.v, for any number of fragments and any partial "
    "specification: C05_sound (every rule of the property holds of whatever is returned, incl. supplied values kept, "
    "c = sum fc, positive multiplicities, electron sufficiency and parity total and per fragment, ghost fragments (0,1), "
    "high-spin unless fully specified), C05_fixed_point, C05_accepts_valid_full_spec, C05_default_neutral_lowspin, "
    "C05_fails_closed. The model is tied to chgmult.py on every run by exact differential execution over the exhaustive "
    "1-fragment scope, an exhaustive/sampled 2-fragment scope and sampled 3-4 fragment systems, plus a determinism "
    "(history) stream and the property oracle evaluated directly on the implementation's answers.")
LEVEL_NOTE = (
    "Trusted: Coq kernel + vm_compute; the hand-written model (integer charges/multiplicities only; fractional "
    "charges are outside the model); numpy split/sum, itertools.product order and CPython int arithmetic are modelled, "
    "not verified; the correspondence harness harness/props/c05.py. No axioms (all theorems closed under the global context).")
