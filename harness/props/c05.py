"""C05 — charge/multiplicity completion: correspondence of Model/ChgMult.v with
qcelemental.molparse.validate_and_fill_chgmult, and the property oracle on the implementation."""
import contextlib
import io
import json
import itertools
from fractions import Fraction

import numpy as np

from .. import coqrun, histseq, histshrink
from ..core import Corr
from ..coqrun import cz, clist, copt, cbool

PID = "C05"
ALLOWED_AXIOMS = set()
EXTRA_TARGETS = ["Model/ChgMultD.vo"]
TRUSTED = [
    "hand-written models coq/Model/ChgMult.v (integer data) and coq/Model/ChgMultD.v (rational charges/electron counts x/D; "
    "proved equal to the former at D = 1) of chgmult.validate_and_fill_chgmult, tied by differential execution (this file)",
    "numpy np.split/np.sum on small arrays, itertools.product order, CPython int arithmetic and binary64 arithmetic on dyadic "
    "values with exact results (modelled by Z / rationals, not verified)",
    "non-integral multiplicities are outside the model (the code raises TypeError or ValidationError depending on the path)",
]
ASSUMPTIONS = [
    "fragment_charges / fragment_multiplicities have one entry per fragment (wf_in); callers in from_arrays guarantee it",
]


def translate(ctx):
    from ..translate import chgmult_rules
    return chgmult_rules.generate(ctx.repo)


def _outcome(fn):
    from qcelemental.exceptions import ValidationError
    try:
        with contextlib.redirect_stdout(io.StringIO()):
            r = fn()
    except ValidationError:
        return ("Err", "Validation")
    except Exception as e:  # any other exception class is itself a finding (fails_closed)
        return ("Err", type(e).__name__)
    return ("Ok", (r["molecular_charge"], list(r["fragment_charges"]), r["molecular_multiplicity"],
                   list(r["fragment_multiplicities"])))


_LOG = []        # every call made on the implementation in this process, in order (JSON-able steps): the history of a failure
_LOG_CAP = 1024  # the part of it that is searched for the shortest reproducing history


def _fail(corr, d):
    d["_at"] = len(_LOG)
    corr.failures.append(d)


def impl_call(felez, c, fc, m, fm, zgf):
    from qcelemental.molparse import validate_and_fill_chgmult
    _LOG.append({"input": (felez, c, fc, m, fm, zgf)})
    zeff = np.array([z for f in felez for z in f], dtype=float)
    seps = list(itertools.accumulate(len(f) for f in felez))[:-1]
    return _outcome(lambda: validate_and_fill_chgmult(zeff, np.array(seps, dtype=int), c, list(fc), m, list(fm),
                                                      zero_ghost_fragments=zgf, verbose=-1))


GHOST_Z = [1, 3, 7, 2]     # a ghost atom keeps its element; only real atoms contribute electrons (odd Z first)


def _atoms(felez):
    flat = [z for f in felez for z in f]
    elez = [int(z) if z > 0 else GHOST_Z[k % len(GHOST_Z)] for k, z in enumerate(flat)]
    real = [z > 0 for z in flat]
    geom = [[0.0, 0.0, 4.0 * k] for k in range(len(flat))]
    return flat, elez, real, geom


def entry_ok(entry, case):
    """can this case be expressed at this entry point? (atoms have integral non-negative Z; Molecule has no zgf switch)"""
    felez, c, fc, m, fm, zgf = case
    if any((z < 0 or z != int(z) or z > 36) for f in felez for z in f) or any(len(f) == 0 for f in felez):
        return False
    return entry == "from_arrays" or not zgf


def impl_from_arrays(felez, c, fc, m, fm, zgf):
    from qcelemental.molparse import from_arrays
    _LOG.append({"input": (felez, c, fc, m, fm, zgf), "entry": "from_arrays"})
    flat, elez, real, geom = _atoms(felez)
    seps = list(itertools.accumulate(len(f) for f in felez))[:-1]
    return _outcome(lambda: from_arrays(geom=geom, elez=elez, real=real, fragment_separators=seps, molecular_charge=c,
                                        fragment_charges=list(fc), molecular_multiplicity=m,
                                        fragment_multiplicities=list(fm), zero_ghost_fragments=zgf, units="Bohr",
                                        verbose=0))


def impl_molecule(felez, c, fc, m, fm, zgf):
    from qcelemental.models import Molecule
    from qcelemental import periodictable
    _LOG.append({"input": (felez, c, fc, m, fm, zgf), "entry": "Molecule"})
    flat, elez, real, geom = _atoms(felez)
    frags, k = [], 0
    for f in felez:
        frags.append(list(range(k, k + len(f))))
        k += len(f)
    kw = dict(symbols=[periodictable.to_E(z) for z in elez], geometry=geom, real=real, fragments=frags)
    if c is not None:
        kw["molecular_charge"] = c
    if m is not None:
        kw["molecular_multiplicity"] = m
    if any(x is not None for x in fc):
        kw["fragment_charges"] = list(fc)
    if any(x is not None for x in fm):
        kw["fragment_multiplicities"] = list(fm)

    def build():
        M = Molecule(**kw)
        return {"molecular_charge": M.molecular_charge, "fragment_charges": M.fragment_charges,
                "molecular_multiplicity": M.molecular_multiplicity, "fragment_multiplicities": M.fragment_multiplicities}
    return _outcome(build)


# ---- the same specification handed over in other legal ways (direct entry point): every verbosity level, numpy
# scalars instead of Python numbers, tuples / arrays instead of lists, integer element counts, keyword arguments

VARIANTS = ["verbose=0", "verbose=1", "verbose=2", "np-scalars", "tuples", "arrays", "keywords"]


def _np_num(x):
    if x is None or isinstance(x, bool):
        return x
    if isinstance(x, int):
        return np.int64(x)
    if isinstance(x, float):
        return np.float64(x)
    return x


def impl_variant(variant, felez, c, fc, m, fm, zgf):
    from qcelemental.molparse import validate_and_fill_chgmult
    _LOG.append({"input": (felez, c, list(fc), m, list(fm), zgf), "variant": variant})
    flat = [z for f in felez for z in f]
    integral = all(float(z).is_integer() for z in flat)
    zeff = np.array(flat, dtype=float)
    seps = np.array(list(itertools.accumulate(len(f) for f in felez))[:-1], dtype=int)
    fc, fm = list(fc), list(fm)
    kw = dict(zero_ghost_fragments=zgf, verbose=-1)
    if variant.startswith("verbose="):
        kw["verbose"] = int(variant[8:])
        if kw["verbose"] == 1:
            del kw["verbose"]                       # the default
    elif variant == "np-scalars":
        c, m, fc, fm = _np_num(c), _np_num(m), [_np_num(x) for x in fc], [_np_num(x) for x in fm]
        if integral:
            zeff = np.array([int(z) for z in flat], dtype=np.int32)
        seps = seps.astype(np.int16)
    elif variant == "tuples":
        fc, fm, seps = tuple(fc), tuple(fm), [int(x) for x in seps]
        if integral:
            zeff = np.array([int(z) for z in flat], dtype=np.int64)
    elif variant == "arrays":
        fc = np.array(fc, dtype=object if any(x is None for x in fc) else None)
        fm = np.array(fm, dtype=object if any(x is None for x in fm) else None)
        zeff = np.asfortranarray(np.array([flat, flat], dtype=float).T)[:, 1]       # a strided view
    elif variant == "keywords":
        return _outcome(lambda: validate_and_fill_chgmult(fragment_multiplicities=fm, molecular_multiplicity=m,
                                                          fragment_charges=fc, molecular_charge=c,
                                                          fragment_separators=seps, zeff=zeff, **kw))
    return _outcome(lambda: validate_and_fill_chgmult(zeff, seps, c, fc, m, fm, **kw))


def _same_outcome(a, b):
    """equal canonical outcomes (numpy scalars compare by value; the multiplicities must stay integers)"""
    if a[0] != b[0]:
        return False
    if a[0] == "Err":
        return a[1] == b[1]
    (c1, fc1, m1, fm1), (c2, fc2, m2, fm2) = a[1], b[1]
    try:
        return bool(c1 == c2 and list(fc1) == list(fc2) and m1 == m2 and list(fm1) == list(fm2)
                    and all(_is_int(x) for x in [m1] + list(fm1)))
    except Exception:
        return False


ENTRY = {"validate_and_fill_chgmult": impl_call, "from_arrays": impl_from_arrays, "Molecule": impl_molecule}


# ---- answers and arguments are the caller's: whatever the caller does to them must not change later answers

def _scramble(obj, depth=0):
    """modify a mutable object in place (every list / ndarray / dict reachable from it)"""
    if depth > 4:
        return
    if isinstance(obj, list):
        for k in range(len(obj)):
            v = obj[k]
            if isinstance(v, (list, dict, np.ndarray)):
                _scramble(v, depth + 1)
            elif v is None:
                obj[k] = 7
            elif isinstance(v, (int, float, np.integer, np.floating)) and not isinstance(v, (bool, np.bool_)):
                obj[k] = v + 1
        obj.append(99)
    elif isinstance(obj, np.ndarray):
        if obj.flags.writeable and obj.size:
            if obj.dtype.kind in "iuf":
                obj += 1
            elif obj.dtype.kind == "b":
                np.logical_not(obj, out=obj)
    elif isinstance(obj, dict):
        for v in list(obj.values()):
            if isinstance(v, (list, dict, np.ndarray)):
                _scramble(v, depth + 1)


def _raw_args(entry, case):
    """fresh argument objects for one call: (callable taking them, dict of the mutable ones)"""
    felez, c, fc, m, fm, zgf = case
    seps = list(itertools.accumulate(len(f) for f in felez))[:-1]
    if entry == "from_arrays":
        from qcelemental.molparse import from_arrays
        flat, elez, real, geom = _atoms(felez)
        mut = {"geom": np.array(geom), "elez": np.array(elez), "real": np.array(real), "seps": list(seps), "fc": list(fc), "fm": list(fm)}
        return (lambda: from_arrays(geom=mut["geom"], elez=mut["elez"], real=mut["real"], fragment_separators=mut["seps"],
                                    molecular_charge=c, fragment_charges=mut["fc"], molecular_multiplicity=m,
                                    fragment_multiplicities=mut["fm"], zero_ghost_fragments=zgf, units="Bohr", verbose=0)), mut
    from qcelemental.molparse import validate_and_fill_chgmult
    mut = {"zeff": np.array([z for f in felez for z in f], dtype=float), "seps": np.array(seps, dtype=int), "fc": list(fc), "fm": list(fm)}
    return (lambda: validate_and_fill_chgmult(mut["zeff"], mut["seps"], c, mut["fc"], m, mut["fm"],
                                              zero_ghost_fragments=zgf, verbose=-1)), mut


def alias_probe(entry, case, rounds=2):
    """call; modify the returned answer and the supplied argument objects in place; call again with fresh equal
    arguments.  Returns the list of canonical outcomes (all must be equal)."""
    outs = []
    _LOG.append({"input": case, "entry": entry, "probe": "alias"})
    for _ in range(rounds + 1):
        fn, mut = _raw_args(entry, case)
        box = {}

        def call():
            box["r"] = fn()
            return box["r"]
        outs.append(_outcome(call))
        if "r" in box:
            _scramble(box["r"])
        _scramble(mut)
    return outs


def run_entry(entry, case):
    return ENTRY[entry or "validate_and_fill_chgmult"](*case)


def _is_int(x):
    return isinstance(x, (int, np.integer)) or (isinstance(x, float) and x.is_integer())


def _scaled(x, D):
    fr = Fraction(x) * D
    if fr.denominator != 1:
        raise ValueError(f"{x!r} is not a multiple of 1/{D}")
    return int(fr)


def case_term(case, out, D=None):
    """Gallina term (input, expected) — or (D, input, expected) with charges and electron counts scaled by D"""
    felez, c, fc, m, fm, zgf = case
    sc = (lambda x: _scaled(x, D)) if D else (lambda x: x)
    czs = lambda x: cz(sc(x))
    inp = ("{| felez := %s; ic := %s; ifc := %s; im := %s; ifm := %s; zgf := %s |}" % (
        clist(felez, lambda f: clist(f, czs)), copt(c, czs), clist(fc, lambda x: copt(x, czs)), copt(m, cz),
        clist(fm, lambda x: copt(x, cz)), cbool(zgf)))
    if out[0] == "Ok":
        rc, rfc, rm, rfm = out[1]
        o = "(Ok {| oc := %s; ofc := %s; om := %s; ofm := %s |})" % (czs(rc), clist(rfc, czs), cz(rm), clist(rfm, cz))
    else:
        kind = {"Validation": "Validation", "ValueError": "PyValueError", "IndexError": "PyIndexError",
                "TypeError": "PyTypeError", "KeyError": "PyKeyError", "AttributeError": "PyAttributeError"}.get(out[1], "PyAssertion")
        o = f"(Err {kind})"
    return f"({cz(D)}, {inp}, {o})" if D else f"({inp}, {o})"


def oracle(case, out):
    """The property, evaluated on the implementation's answer. Returns None or a description."""
    felez, c, fc, m, fm, zgf = case
    if out[0] == "Err":
        return None if out[1] == "Validation" else f"raised {out[1]} instead of ValidationError"
    rc, rfc, rm, rfm = out[1]
    nfr = len(felez)
    ghost = [all(z == 0 for z in f) for f in felez]
    if len(rfc) != nfr or len(rfm) != nfr:
        return "wrong number of fragments in the answer"
    if not all(_is_int(x) for x in [rm] + list(rfm)):
        return "non-integer multiplicity returned"
    integral_in = all(_is_int(z) for f in felez for z in f) and all(x is None or _is_int(x) for x in [c] + list(fc))
    if integral_in and not all(_is_int(x) for x in [rc] + list(rfc)):
        return "non-integer charge returned for integer input"
    try:
        rcq, rfcq = Fraction(rc), [Fraction(x) for x in rfc]
    except (TypeError, ValueError, OverflowError):
        return "non-finite or non-numeric charge returned"
    fz = [sum(Fraction(z) for z in f) for f in felez]
    overridden = zgf and any(ghost)
    # supplied values kept
    if not overridden:
        if c is not None and rc != c:
            return "total charge not kept"
        if m is not None and rm != m:
            return "total multiplicity not kept"
    for i in range(nfr):
        if not (overridden and ghost[i]):
            if fc[i] is not None and rfc[i] != fc[i]:
                return f"fragment charge {i} not kept"
            if fm[i] is not None and rfm[i] != fm[i]:
                return f"fragment multiplicity {i} not kept"
    if rcq != sum(rfcq):
        return "total charge is not the sum of fragment charges"
    if rm < 1 or any(x < 1 for x in rfm):
        return "non-positive multiplicity"
    if rm - 1 > sum(fz) - rcq or any(rfm[i] - 1 > fz[i] - rfcq[i] for i in range(nfr)):
        return "not enough electrons for multiplicity"

    def parity_bad(mm, ne):      # electron count ne; a constraint only when it is integral
        return ne.denominator == 1 and (int(mm) % 2) == (ne.numerator % 2)
    if parity_bad(rm, sum(fz) - rcq) or any(parity_bad(rfm[i], fz[i] - rfcq[i]) for i in range(nfr)):
        return "wrong electron parity"
    for i in range(nfr):
        if ghost[i] and not (rfc[i] == 0 and rfm[i] == 1):
            return "ghost fragment not neutral singlet"
    fully = (m is not None and all(x is not None for x in fm)) and not overridden
    if not fully and rm != 1 + sum(x - 1 for x in rfm):
        return "not high-spin although total/fragment multiplicities were not all given"
    return None


def searched_space(case, limit=4000):
    """the assignments the documented search S1-S7 ranges over (Props/C05.v C05_searched_space, [in_space] of the adjusted
    specification), as an unordered product; None if larger than `limit`"""
    felez, c, fc, m, fm, zgf = case
    nfr = len(felez)
    if len(fc) != nfr or len(fm) != nfr:
        return None
    ghost = [all(z == 0 for z in f) for f in felez]
    if zgf and any(ghost):
        c, m = None, None
        fc = [0 if g else x for g, x in zip(ghost, fc)]
        fm = [1 if g else x for g, x in zip(ghost, fm)]
    known = sum(x for x in fc if x is not None)
    cs = ([c] if c is not None else []) + [known]
    missing = (0 if c is None else c) - known
    fcs = [[x] if x is not None else [missing, 0] for x in fc]
    hs = lambda l: 1 + sum(int(x) - 1 for x in l)
    if m is not None:
        ms = [m]
    else:
        ms = list(range(hs([1 if x is None else x for x in fm]), hs([2 if x is None else x for x in fm]) + 1))
    lo = hi = 0
    if m is not None and any(x is None for x in fm):
        rest = list(fm)
        rest.remove(None)
        hi = int(m) - hs([1 if x is None else x for x in rest]) + 1
        lo = int(m) - hs([2 if x is None else x for x in rest]) + 1
    fms = [[x] if x is not None else sorted(set([1, 2] + list(range(max(lo, 1), hi + 1)))) for x in fm]
    size = len(cs) * len(ms)
    for l in fcs + fms:
        size *= len(l)
    if size > limit:
        return None
    return [(cc, list(fcc), mm, list(fmm)) for cc in dict.fromkeys(cs) for fcc in itertools.product(*fcs)
            for mm in ms for fmm in itertools.product(*fms)]


def oracle_refusal(case, out):
    """a validation error is justified only if no assignment of the documented search space obeys the rules
    (C05_error_iff_no_solution_in_searched_space); non-positive supplied multiplicities are refused outright"""
    felez, c, fc, m, fm, zgf = case
    if out != ("Err", "Validation"):
        return None
    if any(x is not None and x != 0 and x < 1 for x in [m] + list(fm)):
        return None
    if any(x is not None and not _is_int(x) for x in [m] + list(fm)):
        return None
    space = searched_space(case)
    if space is None:
        return None
    for r in space:
        if oracle(case, ("Ok", r)) is None:
            return (f"refused with a validation error although {r} obeys every rule, keeps every supplied value and lies in the "
                    f"documented search space S1-S7")
    return None


def oracle_extra(case, out, rerun):
    """fixed point, acceptance of valid full specs, default, determinism."""
    felez, c, fc, m, fm, zgf = case
    if c is not None and m is not None and all(x is not None for x in fc) and all(x is not None for x in fm) \
            and len(fc) == len(felez) and len(fm) == len(felez):
        # a complete assignment: if it obeys every rule it has to be accepted as is
        if oracle(case, ("Ok", (c, list(fc), m, list(fm)))) is None:
            if out[0] != "Ok":
                return f"a fully specified assignment that obeys every rule was refused ({out[1]})"
            if not (out[1][0] == c and list(out[1][1]) == list(fc) and out[1][2] == m and list(out[1][3]) == list(fm)):
                return "a fully specified assignment that obeys every rule was not returned as is"
    if out[0] != "Ok":
        return None
    rc, rfc, rm, rfm = out[1]
    again = rerun((felez, rc, list(rfc), rm, list(rfm), zgf))
    if again != out:
        return f"completed assignment fed back is not returned unchanged: {again}"
    if c is None and m is None and all(x is None for x in fc) and all(x is None for x in fm) and \
            all(z >= 0 and _is_int(z) for f in felez for z in f):
        fz = [int(sum(f)) for f in felez]
        low = [1 if z % 2 == 0 else 2 for z in fz]
        if not (rc == 0 and all(x == 0 for x in rfc) and list(rfm) == low):
            return "blank specification is not neutral / lowest multiplicity per fragment"
    return None


def gen_cases(ctx):
    rng = ctx.rng
    chg = [None, -3, -2, -1, 0, 1, 2, 3]
    mult = [None, 1, 2, 3, 4, 5, 6]
    cases = []
    # stream A: one fragment, exhaustive over electrons 0..20 (as one atom, or split over two atoms)
    els = range(0, 21) if ctx.thorough else [0, 1, 2, 3, 7, 8, 10, 20]
    for z in els:
        for c, fc, m, fm in itertools.product(chg, chg, mult, mult):
            for zg in ((False, True) if (ctx.thorough or z == 0) else (False,)):
                f = [z] if z < 2 else [z - 1, 1]
                cases.append(("1frag", ([f], c, [fc], m, [fm], zg)))
    # stream B: two fragments, exhaustive over a small scope
    els2 = [0, 1, 2, 7, 10] if ctx.thorough else [0, 1, 2, 7]
    chg2 = [None, -2, -1, 0, 1, 2] if ctx.thorough else [None, -1, 0, 1, 2]
    mult2 = [None, 1, 2, 3, 4] if ctx.thorough else [None, 1, 2, 3]
    for z1, z2 in itertools.product(els2, els2):
        for c, f1, f2 in itertools.product(chg2, chg2, chg2):
            for m, m1, m2 in itertools.product(mult2, mult2, mult2):
                zg = (z1 == 0 or z2 == 0) and rng.random() < 0.5
                cases.append(("2frag", ([[z1], [z2]], c, [f1, f2], m, [m1, m2], zg)))
    if not ctx.thorough:
        two = [x for x in cases if x[0] == "2frag"]
        keep = set(rng.sample(range(len(two)), 20000))
        cases = [x for x in cases if x[0] != "2frag"] + [two[k] for k in sorted(keep)]
    # stream C: 3-4 fragments sampled, incl. ghost fragments, multi-atom fragments, non-positive multiplicities
    n = 60000 if ctx.thorough else 6000
    for _ in range(n):
        nfr = rng.choice([3, 3, 4])
        felez = []
        for _f in range(nfr):
            k = rng.choice([1, 1, 2, 3])
            felez.append([rng.choice([0, 0, 1, 1, 2, 6, 7, 8, 9, 10, 11, 20]) for _a in range(k)])
        pc = rng.choice([0.2, 0.5, 0.8])
        c = rng.choice(chg) if rng.random() < pc else None
        m = rng.choice(mult + [0, -1]) if rng.random() < pc else None
        fc = [rng.choice(chg) if rng.random() < pc else None for _f in range(nfr)]
        fm = [rng.choice(mult + [0, -2]) if rng.random() < pc else None for _f in range(nfr)]
        cases.append(("nfrag", (felez, c, fc, m, fm, rng.random() < 0.3)))
    # stream D (history): the same flat electron list and the same arguments, split into fragments at
    # different places one call after the other (a result cache keyed without the separators, or any other
    # state kept between calls, shows up as a disagreement with the split-aware model)
    flats = list(itertools.product([1, 2, 3, 7, 8], repeat=3)) + [(3, 1, 2, 1), (6, 7, 8, 1), (1, 1, 1, 1)]
    if not ctx.thorough:
        flats = rng.sample(flats, 40) + [(3, 1, 2), (6, 7, 8)]
    for flat in flats:
        nat = len(flat)
        for args in ((None, None, None, None), (1, None, None, None), (None, None, None, 1), (0, 0, 1, None)):
            for sep in range(1, nat):
                felez = [list(flat[:sep]), list(flat[sep:])]
                c, f1, m, m2 = args
                cases.append(("resplit", (felez, c, [f1, None], m, [None, m2], False)))
    # stream E: fragments WITHOUT atoms (repeated / leading / trailing separators: np.split yields empty pieces, which
    # count as ghost fragments), alone, next to real and next to ghost fragments
    for _ in range(4000 if ctx.thorough else 500):
        nfr = rng.choice([1, 2, 2, 3, 3, 4])
        felez = [[rng.choice([0, 1, 2, 7, 8, 10]) for _a in range(rng.choice([0, 0, 1, 2]))] for _f in range(nfr)]
        pc = rng.choice([0.0, 0.3, 0.6])
        cases.append(("emptyfrag", (felez, rng.choice(chg) if rng.random() < pc else None,
                                    [rng.choice(chg) if rng.random() < pc else None for _f in range(nfr)],
                                    rng.choice(mult) if rng.random() < pc else None,
                                    [rng.choice(mult) if rng.random() < pc else None for _f in range(nfr)], rng.random() < 0.4)))
    # stream F: far from the origin -- heavy atoms, many atoms per fragment, large charges and multiplicities; and
    # stream G: five and six fragments.  Both start from an assignment that obeys the rules and blank out / perturb
    # some of its entries (about half of the cases are completed, the rest refused)
    def blanked(felez, cr, mmax, keep):
        fcs, fms = [], []
        for f in felez:
            z = sum(f)
            if all(x == 0 for x in f):
                fcs.append(0)
                fms.append(1)
                continue
            cc = rng.randint(-cr, min(cr, z))
            ne = z - cc
            top = min(ne + 1, mmax)
            ok_m = [mm for mm in range(1, top + 1) if mm % 2 != ne % 2] or [1]
            fcs.append(cc)
            fms.append(rng.choice(ok_m[:3] + ok_m[-2:]))
        ctot, hs = sum(fcs), 1 + sum(x - 1 for x in fms)
        mtot = hs if rng.random() < 0.8 else max(1, hs - 2 * rng.randint(1, 3))
        if rng.random() < 0.15:                       # perturb one entry (mostly towards a refusal)
            k = rng.randrange(len(felez))
            if rng.random() < 0.5:
                fcs[k] += rng.choice([-1, 1, 2])
            else:
                fms[k] += rng.choice([-1, 1])
        hide = lambda x: x if rng.random() < keep else None
        return (felez, hide(ctot), [hide(x) for x in fcs], hide(mtot), [hide(x) for x in fms], rng.random() < 0.25)
    for _ in range(4000 if ctx.thorough else 600):
        nfr = rng.choice([1, 2, 2, 3])
        felez = [[rng.choice([0, 26, 54, 79, 92, 118, 200]) for _a in range(rng.choice([1, 2, 6]))] for _f in range(nfr)]
        cases.append(("big", blanked(felez, rng.choice([3, 40, 400]), rng.choice([4, 12, 60]), rng.choice([0.5, 0.8, 1.0]))))
    for _ in range(600 if ctx.thorough else 120):
        nfr = rng.choice([5, 5, 6])
        felez = [[rng.choice([0, 1, 2, 7, 8, 11])] for _f in range(nfr)]
        cases.append(("5frag", blanked(felez, 2, 4, rng.choice([0.7, 0.85, 1.0]))))
    # corpus: docstring examples and edge cases found earlier
    corpus = [
        ([[]], None, [None], None, [None], False),            # no atoms at all: one empty (ghost) fragment
        ([[], [1]], None, [None, None], None, [None, None], False),
        ([[1], []], 1, [None, None], None, [None, None], True),
        ([[8, 1, 1], [], [0]], -1, [None, None, None], None, [None, None, None], False),
        ([[7], [10], [7]], 1, [None, None, None], 4, [None, 3, None], False),
        ([[0, 0]], 1, [None], None, [None], False),
        ([[0], [2], [0]], 1, [None, None, None], None, [None, None, None], False),
        ([[0], [2], [0]], 1, [None, None, None], None, [None, None, None], True),
        ([[0], [2]], 3, [1, 1], 3, [2, 2], True),
        ([[-1]], None, [None], None, [None], False),
        ([[1], [2]], None, [None, None], 0, [None, None], False),
        ([[2]], None, [None], None, [0], False),
    ]
    return [("corpus", c) for c in corpus] + cases


def gen_frac_cases(ctx):
    """fractional (float) charges: every value is a multiple of 1/D, D in {2,4,8}, so that the binary64 arithmetic of
    the implementation is exact; float-typed integral multiplicities (2.0); some fractional electron counts (direct
    entry point only).  Returns [(stream, case, D)]."""
    rng = ctx.rng
    out = []
    n = 24000 if ctx.thorough else 4000
    for _ in range(n):
        D = rng.choice([2, 2, 4, 8])
        nfr = rng.choice([1, 1, 2, 2, 3])
        felez = []
        for _f in range(nfr):
            k = rng.choice([1, 1, 2])
            f = [float(rng.choice([0, 0, 1, 1, 2, 3, 7, 8, 10])) for _a in range(k)]
            if rng.random() < 0.12:
                f[0] = rng.randint(0, 4 * D) / D
            felez.append(f)

        def chg():
            r = rng.random()
            if r < 0.45:
                return rng.randint(-3 * D, 3 * D) / D
            if r < 0.6:
                return float(rng.randint(-3, 3))
            return rng.randint(-2, 2)

        def mult():
            v = rng.choice([1, 1, 2, 2, 3, 4, 5, 0, -1])
            return float(v) if rng.random() < 0.4 else v
        pc = rng.choice([0.25, 0.5, 0.8])
        c = chg() if rng.random() < pc else None
        m = mult() if rng.random() < pc else None
        fc = [chg() if rng.random() < pc else None for _f in range(nfr)]
        fm = [mult() if rng.random() < pc else None for _f in range(nfr)]
        out.append(("frac", (felez, c, fc, m, fm, rng.random() < 0.25), D))
    corpus = [
        ([[2.0]], None, [0.5], None, [None], False),          # He(+1/2): singlet, no parity constraint
        ([[1.0]], 0.5, [None], None, [None], False),
        ([[1.0], [1.0]], 0.5, [None, None], None, [None, None], False),
        ([[7.0], [7.0]], 1.0, [0.5, 0.5], 2.0, [None, None], False),
        ([[0.5]], None, [None], None, [None], False),         # fractional electron count
        ([[0.0], [3.0]], 0.5, [0.25, None], None, [None, 2.0], True),
        ([[2.0]], None, [None], 3.0, [None], False),          # float-typed multiplicity
    ]
    # complete assignments that obey every rule (by rejection sampling against the oracle): acceptance stream
    want, tries = (6000 if ctx.thorough else 1200), 0
    full = []
    while len(full) < want and tries < 60 * want:
        tries += 1
        D = rng.choice([1, 1, 2, 4, 8])
        nfr = rng.choice([1, 2, 2, 3])
        felez = [[float(rng.choice([0, 1, 2, 3, 7, 8, 10])) for _a in range(rng.choice([1, 1, 2]))] for _f in range(nfr)]
        fz = [sum(f) for f in felez]
        fcs, fms = [], []
        for z in fz:
            if z == 0:
                fcs.append(rng.choice([0.0, 0]))
                fms.append(1)
                continue
            cc = rng.randint(-2 * D, min(2 * D, int(z * D))) / D
            ne = Fraction(z) - Fraction(cc)
            top = int(ne) + 1
            if top < 1:
                break
            if ne.denominator == 1:
                ok_m = [mm for mm in range(1, min(top, 6) + 1) if mm % 2 != int(ne) % 2]
            else:
                ok_m = list(range(1, min(top, 6) + 1))
            if not ok_m:
                break
            fcs.append(cc)
            mm = rng.choice(ok_m)
            fms.append(float(mm) if rng.random() < 0.2 else mm)
        if len(fcs) != nfr:
            continue
        ctot = sum(fcs)
        hs = 1 + sum(int(x) - 1 for x in fms)
        net = Fraction(sum(fz)) - Fraction(ctot)
        ms = [mm for mm in range(1, hs + 1) if mm - 1 <= net and (net.denominator != 1 or mm % 2 != int(net) % 2)]
        mtot = hs if (rng.random() < 0.6 or not ms) else rng.choice(ms)
        case = (felez, ctot, fcs, mtot, fms, rng.random() < 0.2)
        if oracle(case, ("Ok", (ctot, fcs, mtot, fms))) is None:
            full.append(("fullspec", case, 8))
    return [("frac-corpus", cs, 8) for cs in corpus] + out + full


def _classify(case):
    """which branches of the model the case drives (input-side classification, mirrored from Model/ChgMult.v)"""
    felez, c, fc, m, fm, zgf = case
    tags = []
    if any(x is not None and x != 0 and x < 1 for x in [m] + list(fm)):
        return ["precheck_bad_mult"]
    ghost = [all(z == 0 for z in f) for f in felez]
    over = zgf and any(ghost)
    tags.append("adjust_override" if over else "adjust_id")
    mm = None if over else m
    ffm = [1 if (over and g) else x for g, x in zip(ghost, fm)]
    tags.append("r8_active" if (mm is None or any(x is None for x in ffm)) else "r8_off")
    if mm is not None and any(x is None for x in ffm):
        tags.append("missing_mult_range")
    if mm is None:
        tags.append("exact_m_range")
    if any(ghost):
        tags.append("ghost_rule")
    if any(x == 0 for x in [m] + list(fm) if x is not None):
        tags.append("zero_mult_passes_precheck")
    return tags


def correspond(ctx):
    corr = Corr()
    corr.rule = ("exhaustive 1-fragment scope (electrons x c x fc x m x fm x zgf), exhaustive-or-sampled 2-fragment scope, "
                 "sampled 3-4 fragment systems incl. ghosts and non-positive multiplicities, sampled fractional-charge systems; "
                 "a case is non-trivial if the implementation returned an assignment (not an error); distinct = distinct inputs")
    cases = [(s, c, None) for s, c in gen_cases(ctx)] + gen_frac_cases(ctx)
    memo = {}

    def run(case):
        key = repr(case)
        if key not in memo:
            memo[key] = impl_call(*case)
        return memo[key]

    terms, meta, termsD, metaD = [], [], [], []
    nref, ref_quota = 0, (10 ** 9 if ctx.thorough else 12000)
    for stream, case, D in cases:
        out = run(case)
        corr.count(stream)
        corr.hit("impl_" + (out[0] if out[0] == "Ok" else "Err_" + out[1]))
        for t in _classify(case):
            corr.hit("model_" + t)
        if out[0] == "Ok":
            corr.nontriv(case)
            if not stream.endswith("corpus") and ctx.rng.random() < 0.0005:
                corr.sample({"input": case, "output": out})
        bad = oracle(case, out)
        if bad is None:
            bad = oracle_extra(case, out, run)
        if bad is None and out[0] == "Err" and nref < ref_quota:
            nref += 1
            bad = oracle_refusal(case, out)
            corr.count("refusal-justified")
        if bad:
            _fail(corr, {"stream": "oracle", "case": {"input": case}, "what": bad, "observed": out})
        try:
            if D is None:
                terms.append(case_term(case, out))
                meta.append((stream, case, out))
            else:
                termsD.append(case_term(case, out, D))
                metaD.append((stream, case, out, D))
        except (ValueError, TypeError, OverflowError) as e:     # an answer that is not a multiple of 1/D, nan, ...
            _fail(corr, {"stream": "oracle", "case": {"input": case}, "what": f"answer not representable: {e}",
                                  "observed": out})
    corr.sample({"input": cases[0][1], "output": run(cases[0][1])})

    # the other public entry points: from_arrays(...) and Molecule(...) on the same specification (atoms with the same
    # electron counts; ghost atoms keep an element but are not real) must complete it the same way
    ep_diffs = []
    pool = [(k, cs) for k, (_s, cs, _D) in enumerate(cases)]
    ctx.rng.shuffle(pool)
    quota = {"from_arrays": 40000 if ctx.thorough else 9000, "Molecule": 12000 if ctx.thorough else 3000}
    head = [(k, cs) for k, (s_, cs, _D) in enumerate(cases) if s_.endswith("corpus")]
    for entry, fn in (("from_arrays", impl_from_arrays), ("Molecule", impl_molecule)):
        done = 0
        for k, case in head + pool:
            if done >= quota[entry]:
                break
            if not entry_ok(entry, case):
                continue
            if entry == "Molecule" and cases[k][2] is not None:
                continue        # Molecule rounds charges to CHARGE_NOISE decimals; fractional charges go through from_arrays only
            done += 1
            out = fn(*case)
            corr.count("entry-" + entry)
            ref = memo[repr(case)]
            bad = oracle(case, out)
            if bad is None and out != ref:
                bad = f"{entry} completes the specification differently from validate_and_fill_chgmult: {ref}"
                ep_diffs.append(k)
            if bad:
                _fail(corr, {"stream": "oracle-" + entry, "case": {"input": case, "entry": entry}, "what": bad,
                                      "observed": out})
    # the same specification handed over in other legal ways: verbosity levels (0, the default 1, 2), numpy scalars,
    # tuples / arrays for the lists, integer element counts, keyword arguments -- same completion required
    nvar = 9000 if ctx.thorough else 2200
    for k, case in (head + pool)[:nvar]:
        ref = memo[repr(case)]
        for variant in VARIANTS:
            out = impl_variant(variant, *case)
            corr.count("variant-" + variant)
            bad = oracle(case, out)
            if bad is None and not _same_outcome(out, ref):
                bad = f"called with {variant} the specification is completed differently from the plain call: {ref}"
            if bad:
                _fail(corr, {"stream": "oracle-variant", "case": {"input": case, "variant": variant}, "what": bad,
                                      "observed": out})
    # answers handed out earlier (and argument objects handed in) are modified in place, then the identical query is
    # issued again with fresh equal arguments: a memo that shares its lists with the caller shows up here
    npro = 6000 if ctx.thorough else 1500
    for entry in ("validate_and_fill_chgmult", "from_arrays"):
        done = 0
        for k, case in head + pool:
            if done >= npro:
                break
            if entry == "from_arrays" and not entry_ok(entry, case):
                continue
            if memo[repr(case)][0] != "Ok" and done % 8:
                continue
            done += 1
            outs = alias_probe(entry, case)
            corr.count("alias-" + entry)
            if any(o != memo[repr(case)] for o in outs):
                _fail(corr, {"stream": "alias-" + entry, "case": {"input": case, "entry": entry, "probe": "alias"},
                                      "what": "the same query gave a different answer after the caller modified an earlier "
                                              "answer / the argument lists in place (or differs from the first answer of the run)",
                                      "observed": outs})
    # determinism / history independence: replay a shuffled sample after everything else ran
    idx = list(range(len(cases)))
    ctx.rng.shuffle(idx)
    for k in idx[:3000]:
        again = impl_call(*cases[k][1])
        corr.count("determinism")
        if again != memo[repr(cases[k][1])]:
            _fail(corr, {"stream": "determinism", "case": {"input": cases[k][1]},
                                  "what": "same input gave a different answer later in the run",
                                  "observed": [memo[repr(cases[k][1])], again]})
    ctx.log(f"{len(terms)} integer + {len(termsD)} fractional cases through the implementation; evaluating the model")
    REQ = ["QV.Common.Outcome", "QV.Model.ChgMult", "QV.Model.ChgMultD"]
    bad, errors = coqrun.eval_bad_indices("C05", REQ, "", "check_case", terms, shard=1500, ty="cm_in * outcome cm_out")
    corr.errors.extend(f"shard {k}: {e}" for k, e in errors)
    for b in bad[:8]:
        stream, case, out = meta[b]
        got, _ = coqrun.eval_terms("C05", REQ, "", [f"fill (fst {terms[b]})"])
        corr.disagreements.append({"stream": stream, "case": {"input": case}, "impl": out, "model": got})
    if termsD:
        bad, errors = coqrun.eval_bad_indices("C05D", REQ, "", "check_caseD", termsD, shard=1500,
                                              ty="Z * cm_in * outcome cm_out")
        corr.errors.extend(f"fractional shard {k}: {e}" for k, e in errors)
        for b in bad[:8]:
            stream, case, out, D = metaD[b]
            got, _ = coqrun.eval_terms("C05D", REQ, "", [f"fillD (fst (fst {termsD[b]})) (snd (fst {termsD[b]}))"])
            corr.disagreements.append({"stream": stream, "case": {"input": case, "D": D}, "impl": out,
                                       "model": f"(charges and electron counts in units of 1/{D}) {got}"})
    # a failure may depend on earlier calls (a cache keyed too coarsely, a shared list): record the shortest history of calls
    # that reproduces it in a fresh interpreter, so that the replay file is self-contained; reproducing failures first
    def steps_of(f):
        at = f.get("_at")
        if at is None:
            return None
        return json.loads(json.dumps(_LOG[max(0, at - _LOG_CAP):at] + [f["case"]]))
    corr.failures = histshrink.order_and_attach("c05", corr.failures, steps_of, log=ctx.log)
    for f in corr.failures:
        f.pop("_at", None)
    corr.exhaustive = False
    return corr


def run_history(steps):
    """histseq interface: the recorded calls one after the other in this interpreter; complaints about the LAST one"""
    for st in steps[:-1]:
        try:
            _judge(st)
        except Exception:
            pass
    _out, bad = _judge(steps[-1])
    return [bad] if bad else []


def _judge(case_d):
    case = tuple(case_d["input"])
    entry = case_d.get("entry")
    if case_d.get("probe") == "alias":
        outs = alias_probe(entry, case)
        bad = None
        if any(o != outs[0] for o in outs):
            bad = "the same query gave a different answer after the caller modified an earlier answer / the argument lists in place"
        else:
            bad = oracle(case, outs[0])
        return outs, bad
    if case_d.get("variant"):
        out, ref = impl_variant(case_d["variant"], *case), impl_call(*case)
        bad = oracle(case, out)
        if bad is None and not _same_outcome(out, ref):
            bad = f"called with {case_d['variant']} the specification is completed differently from the plain call: {ref}"
        return out, bad
    out = run_entry(entry, case)
    bad = oracle(case, out) or oracle_extra(case, out, lambda c: run_entry(entry, c)) or oracle_refusal(case, out)
    if not bad and entry:
        ref = impl_call(*case)
        if ref != out:
            bad = f"{entry} completes the specification differently from validate_and_fill_chgmult: {ref}"
    return out, bad


def search(ctx, corr, reasons):
    """Oracle on the implementation for the disagreeing cases (the corpus and the full sample were
    already judged by the oracle inside correspond)."""
    found = []
    if corr.failures:        # the oracle inside correspond already produced concrete (and, where needed, history-carrying) failing inputs
        return found
    for d in corr.disagreements:
        out, bad = _judge(d["case"])
        if bad:
            found.append({"stream": "search", "case": d["case"], "what": bad, "observed": out})
    return found


def replay(ctx, rp):
    if rp["case"].get("history"):
        last = {k: v for k, v in rp["case"].items() if k != "history"}
        got = histseq.fresh_run("c05", list(rp["case"]["history"]) + [last])
        return {"input": rp["case"], "oracle": got, "fails": bool(got),
                "note": "history replay: the earlier calls are re-run in a fresh interpreter before the case"}
    out, bad = _judge(rp["case"])
    return {"input": rp["case"], "implementation": out, "oracle": bad, "fails": bool(bad)}


KNOWN = {}

TECHNIQUE = ("Coq proofs over hand-written Gallina models (induction over fragment lists; integer and rational charges) + fail-closed "
             "translation of the rule helper functions with a proved generated = model lemma + differential correspondence against "
             "the implementation at every public entry point")
DESIGN_REF = "DESIGN.md §6 C05"
LEVEL_TEXT = (
    "Machine-checked (Coq 8.16.1, closed under the global context) theorems about Model/ChgMult.v ([fill], integer data) and "
    "Model/ChgMultD.v ([fillD D], charges and electron counts as rationals x/D = the float path; C05_integer_case_of_rational: "
    "fillD 1 = fill), for any number of fragments and any partial specification: C05_sound / C05_sound_rational (every rule of the "
    "property holds of whatever is returned: supplied values kept, c = sum fc, positive multiplicities, electron sufficiency and "
    "parity total and per fragment -- for fractional electron counts parity is no constraint, C05_parity_rule_rational --, ghost "
    "fragments (0,1), high-spin unless fully specified), C05_inputs_kept_verbatim + C05_ghost_override_keeps_real_fragments (what "
    "zero_ghost_fragments changes), C05_fixed_point(_rational), C05_accepts_valid_full_spec, C05_accepts_spec(_rational) (acceptance "
    "as the exact converse of soundness), C05_default_neutral_lowspin, C05_default_zgf_partial, C05_default_zgf + C05_default_entries (blank specification with "
    "zero_ghost_fragments, ghost fragments or not), C05_fails_closed(_rational), "
    "C05_error_iff_no_solution_in_searched_space / C05_error_iff_rational + C05_searched_space (a validation error is raised exactly "
    "when a non-positive multiplicity was supplied or no assignment of the searched space, characterised as a proposition, obeys the "
    "rules), C05_complete_unrestricted_refuted (the unrestricted reading is false: documented S1-S7 search), "
    "C05_first_match(_rational) (the first candidate in product order that satisfies the specification is returned), "
    "C05_generated_rules_are_the_model (the helper functions translated from chgmult.py on every run equal the model's). "
    "The models are tied to chgmult.py on every run by exact differential execution over the exhaustive 1-fragment scope, an "
    "exhaustive/sampled 2-fragment scope, sampled 3-4 fragment systems, sampled fractional-charge systems (dyadic values, "
    "float-typed multiplicities, fractional electron counts), fragments without atoms (repeated separators), heavy / highly charged / "
    "high-multiplicity systems, 5-6 fragment systems, re-split/determinism (history) streams, the same specifications "
    "through from_arrays(...) and Molecule(...), the same specifications handed over in other legal ways (verbose = 0 / default / 2, "
    "numpy scalars, tuples, object/numeric arrays, strided and integer zeff, keyword arguments), and the property oracle (exact "
    "rationals) on every answer of every entry point and variant.")
LEVEL_NOTE = (
    "Clause map: kept values / c = sum fc / positive multiplicity, sufficiency, parity / ghost (0,1) / high-spin = C05_sound "
    "(+ _rational, + the two adjust theorems); fed back unchanged = C05_fixed_point; valid full spec accepted = "
    "C05_accepts_valid_full_spec, C05_accepts_spec; blank default = C05_default_neutral_lowspin (zgf=False), C05_default_zgf_partial "
    "(zgf=True without ghost fragment), C05_default_zgf (zgf=True in every case, incl. ghost fragments), C05_default_entries; error instead of a violating answer = "
    "C05_fails_closed + C05_sound, and exactly when = C05_error_iff_no_solution_in_searched_space; same input same answer = "
    "definitional for the model, determinism/re-split/entry-point streams for the implementation. Integrality of multiplicities is by "
    "typing; non-integral multiplicities are outside the model (observed: the code raises TypeError from range() when a non-integral "
    "total multiplicity meets an unspecified fragment multiplicity -- outside the property's quantifier, reported, not alarmed). "
    "Trusted: Coq kernel + vm_compute; the hand-written candidate construction S1-S7, rule list and search (the five helper functions "
    "are generated and proved equal); numpy split/sum, itertools.product order, CPython int arithmetic and exact binary64 arithmetic "
    "on dyadic values are modelled, not verified; the correspondence harness harness/props/c05.py. No axioms.")
