"""C07 / C08 — order-independence ("history") oracle.

A result of from_string / to_string must depend on the arguments of that call only — not on what the process was asked
before (memo tables keyed too coarsely, state left on a live Molecule, class-level containers, a caller's array
modified in place).  A sequence of calls is executed in this process in the given order (after everything else the
check has already done) and once more in a FRESH interpreter in REVERSED order; the canonical outcome of every call must
be identical.  `python -m harness.props.text_history` is the fresh-interpreter side (JSON on stdin / stdout)."""
import copy
import json
import os
import subprocess
import sys


def _json(x):
    return json.dumps(x, sort_keys=True, default=repr)


# ---------------------------------------------------------------- from_string
def run_from_string(calls):
    """calls: [[text, dtype-or-None], ...] -> [canonical outcome as a JSON string]"""
    from . import c07
    out = []
    for text, dtype in calls:
        ob = c07.observe(text, dtype)
        f = ob["final"]
        out.append(_json(["Ok", c07.canon(f[1])] if f[0] == "Ok" else ["Err", f[1]]))
    return out


# ---------------------------------------------------------------- to_string
def run_to_string(spec):
    """spec: {"arrays": kwargs of from_arrays, "cfgs": [cfg, ...], "live": bool}.  All calls go to ONE molrec dict
    (or ONE live Molecule).  Returns the outcomes and whether the molrec / Molecule was left unchanged."""
    from . import c08
    molrec = c08.build_molrec(spec["arrays"])
    mol = None
    if spec.get("live"):
        from qcelemental.models import Molecule
        from qcelemental.molparse import from_schema, to_schema
        mol = Molecule(**to_schema(molrec, dtype=2))
        molrec = from_schema(mol.dict(), nonphysical=True)
        before = _json(c08_canon(mol.dict()))
    else:
        before = _json(c08_canon(copy.deepcopy(molrec)))
    out = []
    for cfg in spec["cfgs"]:
        out.append(_json(list(c08.impl_call(molrec, cfg, mol))))
    after = _json(c08_canon(mol.dict() if mol is not None else molrec))
    return out, before == after


def c08_canon(x):
    import numpy as np
    if isinstance(x, dict):
        return {str(k): c08_canon(v) for k, v in sorted(x.items(), key=lambda kv: str(kv[0])) if k != "provenance"}
    if isinstance(x, np.ndarray):
        return ["ndarray", str(x.dtype), x.tolist()]
    if isinstance(x, (list, tuple)):
        return [c08_canon(v) for v in x]
    if isinstance(x, np.generic):
        return x.item()
    return x


# ---------------------------------------------------------------- to_file / from_file
# the library's documented table of file extensions -> format (hand-written here, independent of molecule.py)
BUILTIN_EXT = {".npy": "numpy", ".json": "json", ".xyz": "xyz", ".psimol": "psi4", ".psi4": "psi4", ".msgpack": "msgpack-ext"}
TEXT_DTYPES = ("xyz", "xyz+", "psi4")


def _mol_outcome(fn, keep=None):
    """canonical outcome of a call that returns a Molecule: hash + the unhashed fields a psi4 text carries, or the exception class"""
    import contextlib
    import io
    try:
        with contextlib.redirect_stdout(io.StringIO()):
            m = fn()
    except Exception as e:
        return ["Err", type(e).__name__]
    if keep is not None:
        keep.append(m)
    return ["Ok", m.get_hash(), bool(m.fix_com), bool(m.fix_orientation), [str(x) for x in m.atom_labels]]


def run_files(spec, scratch):
    """spec: {"mols": [kwargs of from_arrays], "steps": [{"who", "name", "wdtype", "reads": [dtype-or-None, ...]}]}.
    Every step writes ONE molecule to its own file `name` with Molecule.to_file(path, dtype=wdtype) and reads that file back
    with Molecule.from_file(path, dtype=r) for every r in reads.  Returns ([canonical outcome of each step as JSON], [failures
    of the history-free oracles: (step index, description)])."""
    import shutil
    import tempfile
    from qcelemental.models import Molecule
    from qcelemental.molparse import from_schema, to_schema
    from . import c07, c08
    mols, recs = [], []
    for a in spec["mols"]:
        m = Molecule(**to_schema(c08.build_molrec(a), dtype=2))
        mols.append(m)
        recs.append(from_schema(m.dict(), nonphysical=True))
    os.makedirs(scratch, exist_ok=True)
    tmp = tempfile.mkdtemp(prefix="files-", dir=scratch)
    out, bad = [], []
    try:
        for k, st in enumerate(spec["steps"]):
            mol, rec = mols[st["who"]], recs[st["who"]]
            path = os.path.join(tmp, st["name"])
            ext = os.path.splitext(st["name"])[1]
            wd = st["wdtype"]
            eff_w = wd if wd is not None else BUILTIN_EXT.get(ext)
            try:
                mol.to_file(path, dtype=wd)
                w = ["Ok"]
            except Exception as e:
                w = ["Err", type(e).__name__]
            if (w[0] == "Ok") != (eff_w is not None):
                bad.append((k, f"2to_file({st['name']!r}, dtype={wd!r}) " + ("raised " + w[1] if w[0] == "Err" else
                               "wrote a file although neither dtype nor a known extension names a format")))
            text, reads = None, []
            if w[0] == "Ok" and os.path.exists(path):
                with open(path) as fh:
                    text = fh.read()
                if eff_w in TEXT_DTYPES and text != mol.to_string(eff_w):
                    bad.append((k, f"1file written by to_file({st['name']!r}, dtype={wd!r}) is not to_string({eff_w!r})"))
                for r in st["reads"]:
                    back = []
                    got = _mol_outcome(lambda: Molecule.from_file(path, dtype=r), back)
                    reads.append([r, got])
                    eff_r = r if r is not None else BUILTIN_EXT.get(ext)
                    call = f"to_file({st['name']!r}, dtype={wd!r}); from_file({st['name']!r}" + (f", dtype={r!r})" if r else ")")
                    if eff_r in TEXT_DTYPES or eff_r is None:
                        # reading a text file = reading its characters (format named by dtype, else by a KNOWN extension, else detected)
                        want = _mol_outcome(lambda: Molecule.from_data(text, dtype=eff_r))
                        if got != want:
                            bad.append((k, ("0" if got[0] == "Err" and want[0] == "Ok" else "1") + f"{call} gives {got[:2]} but the characters of that file read with "
                                           f"from_data(text, dtype={eff_r!r}) give {want[:2]}"))
                            continue
                    readable = eff_w in TEXT_DTYPES and c07.fits(eff_w, rec) and (eff_r == eff_w or (eff_r is None and eff_w != "xyz+"))
                    if readable or (eff_w == "json" and eff_r == "json"):
                        diff = c07.hash_difference(mol, back[0]) if got[0] == "Ok" else "raised " + got[1]
                        if diff:
                            bad.append((k, f"0{call}: Molecule -> file -> Molecule " + (diff if got[0] == "Err" else f"changed the hash ({diff})")))
            out.append(_json([w, text, reads]))
    finally:
        shutil.rmtree(tmp, ignore_errors=True)
    return out, bad


def check_files(spec, scratch):
    """-> None or (step index, description, spec to replay): the history-free oracles in this process (descriptions carry a
    severity digit in front: a readable file that raises comes first), then every step against the same steps in REVERSED order
    in a fresh interpreter."""
    here, bad = run_files(spec, scratch)
    prior = lambda k: "; ".join(f"to_file({s['name']!r}, dtype={s['wdtype']!r})" for s in spec["steps"][:k]) or "nothing"
    if bad:
        k, what = min(bad, key=lambda b: (b[1][0], b[0]))
        return k, f"step {k}, after [{prior(k)}]: {what[1:]}", dict(spec, steps=spec["steps"][:k + 1])
    there = fresh({"kind": "files", "spec": dict(spec, steps=spec["steps"][::-1]), "scratch": scratch})[::-1]
    for k, (a, b) in enumerate(zip(here, there)):
        if a != b:
            st = spec["steps"][k]
            return k, (f"step {k} (to_file({st['name']!r}, dtype={st['wdtype']!r}) then from_file with dtype in {st['reads']}) answers "
                       f"differently after [{prior(k)}] than in a fresh interpreter running the steps in reverse order: "
                       f"{a[-300:]} / {b[-300:]}", spec)
    return None


# ---------------------------------------------------------------- the fresh interpreter
def fresh(job):
    """run `job` in a new interpreter; returns the decoded answer or raises RuntimeError (machinery problem)."""
    env = dict(os.environ)
    for attempt in range(3):
        p = subprocess.run([sys.executable, "-m", "harness.props.text_history"], input=json.dumps(job), capture_output=True,
                           text=True, env=env, cwd=os.path.dirname(os.path.dirname(os.path.dirname(os.path.abspath(__file__)))))
        if p.returncode == 0:
            try:
                return json.loads(p.stdout.strip().splitlines()[-1])
            except Exception:
                pass
    raise RuntimeError(f"fresh interpreter failed (exit {p.returncode}): {p.stderr[-400:]}")


def check_from_string(calls):
    """-> None or (index, in-process outcome, fresh outcome)"""
    here = run_from_string(calls)
    there = fresh({"kind": "from_string", "calls": calls[::-1]})[::-1]
    for i, (a, b) in enumerate(zip(here, there)):
        if a != b:
            return i, a[:600], b[:600]
    return None


def check_to_string(spec):
    """-> None or a description"""
    here, same_here = run_to_string(spec)
    rev = dict(spec, cfgs=spec["cfgs"][::-1])
    ans = fresh({"kind": "to_string", "spec": rev})
    there = ans["out"][::-1]
    if not same_here:
        return "to_string modified the molecule it was given"
    for i, (a, b) in enumerate(zip(here, there)):
        if a != b:
            return (f"call {i} ({spec['cfgs'][i]['dtype']}, units={spec['cfgs'][i]['units']}) answers differently after the "
                    f"preceding calls than first thing in a fresh interpreter: {a[:300]} / {b[:300]}")
    return None


def main():
    job = json.loads(sys.stdin.read())
    if job["kind"] == "from_string":
        ans = run_from_string(job["calls"])
    elif job["kind"] == "cases":
        from . import c08
        ans = c08.run_calls(job["calls"])
    elif job["kind"] == "files":
        ans = run_files(job["spec"], job["scratch"])[0]
    else:
        out, same = run_to_string(job["spec"])
        ans = {"out": out, "same": same}
    sys.stdout.write("\n" + json.dumps(ans) + "\n")


if __name__ == "__main__":
    main()
