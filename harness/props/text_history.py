"""C07 / C08 — order-independence ("history") oracle.

A result of from_string / to_string must depend on the arguments of that call only — not on what the process was asked
before (memo tables keyed too coarsely, state left on a live Molecule, class-level containers, a caller's array
modified in place).  A sequence of calls is executed in this process in the given order (after everything else the
check has already done) and once more in a FRESH interpreter in REVERSED order; the canonical outcome of every call must
be identical.  `python -m harness.props.text_history` is the fresh-interpreter side (JSON on stdin / stdout)."""
import copy
import json
import os
import subprocess
import sys


def _json(x):
    return json.dumps(x, sort_keys=True, default=repr)


# ---------------------------------------------------------------- from_string
def run_from_string(calls):
    """calls: [[text, dtype-or-None], ...] -> [canonical outcome as a JSON string]"""
    from . import c07
    out = []
    for text, dtype in calls:
        ob = c07.observe(text, dtype)
        f = ob["final"]
        out.append(_json(["Ok", c07.canon(f[1])] if f[0] == "Ok" else ["Err", f[1]]))
    return out


# ---------------------------------------------------------------- to_string
def run_to_string(spec):
    """spec: {"arrays": kwargs of from_arrays, "cfgs": [cfg, ...], "live": bool}.  All calls go to ONE molrec dict
    (or ONE live Molecule).  Returns the outcomes and whether the molrec / Molecule was left unchanged."""
    from . import c08
    molrec = c08.build_molrec(spec["arrays"])
    mol = None
    if spec.get("live"):
        from qcelemental.models import Molecule
        from qcelemental.molparse import from_schema, to_schema
        mol = Molecule(**to_schema(molrec, dtype=2))
        molrec = from_schema(mol.dict(), nonphysical=True)
        before = _json(c08_canon(mol.dict()))
    else:
        before = _json(c08_canon(copy.deepcopy(molrec)))
    out = []
    for cfg in spec["cfgs"]:
        out.append(_json(list(c08.impl_call(molrec, cfg, mol))))
    after = _json(c08_canon(mol.dict() if mol is not None else molrec))
    return out, before == after


def c08_canon(x):
    import numpy as np
    if isinstance(x, dict):
        return {str(k): c08_canon(v) for k, v in sorted(x.items(), key=lambda kv: str(kv[0])) if k != "provenance"}
    if isinstance(x, np.ndarray):
        return ["ndarray", str(x.dtype), x.tolist()]
    if isinstance(x, (list, tuple)):
        return [c08_canon(v) for v in x]
    if isinstance(x, np.generic):
        return x.item()
    return x


# ---------------------------------------------------------------- the fresh interpreter
def fresh(job):
    """run `job` in a new interpreter; returns the decoded answer or raises RuntimeError (machinery problem)."""
    env = dict(os.environ)
    for attempt in range(3):
        p = subprocess.run([sys.executable, "-m", "harness.props.text_history"], input=json.dumps(job), capture_output=True,
                           text=True, env=env, cwd=os.path.dirname(os.path.dirname(os.path.dirname(os.path.abspath(__file__)))))
        if p.returncode == 0:
            try:
                return json.loads(p.stdout.strip().splitlines()[-1])
            except Exception:
                pass
    raise RuntimeError(f"fresh interpreter failed (exit {p.returncode}): {p.stderr[-400:]}")


def check_from_string(calls):
    """-> None or (index, in-process outcome, fresh outcome)"""
    here = run_from_string(calls)
    there = fresh({"kind": "from_string", "calls": calls[::-1]})[::-1]
    for i, (a, b) in enumerate(zip(here, there)):
        if a != b:
            return i, a[:600], b[:600]
    return None


def check_to_string(spec):
    """-> None or a description"""
    here, same_here = run_to_string(spec)
    rev = dict(spec, cfgs=spec["cfgs"][::-1])
    ans = fresh({"kind": "to_string", "spec": rev})
    there = ans["out"][::-1]
    if not same_here:
        return "to_string modified the molecule it was given"
    for i, (a, b) in enumerate(zip(here, there)):
        if a != b:
            return (f"call {i} ({spec['cfgs'][i]['dtype']}, units={spec['cfgs'][i]['units']}) answers differently after the "
                    f"preceding calls than first thing in a fresh interpreter: {a[:300]} / {b[:300]}")
    return None


def main():
    job = json.loads(sys.stdin.read())
    if job["kind"] == "from_string":
        ans = run_from_string(job["calls"])
    else:
        out, same = run_to_string(job["spec"])
        ans = {"out": out, "same": same}
    sys.stdout.write("\n" + json.dumps(ans) + "\n")


if __name__ == "__main__":
    main()
