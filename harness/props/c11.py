"""C11 — the molecular hash is a canonical identity.

Correspondence of Model/Hash.v with qcelemental.models.Molecule.get_hash / float_prep / __eq__ and
from_arrays' bond canonicalisation, and the property oracle evaluated directly on the implementation
(pairs that agree on the listed fields after the documented rounding must hash equal, and conversely)."""
import contextlib
import copy
import hashlib as _hashlib
import io
import itertools
import json
import math
import os
import re
import shutil
from decimal import Decimal, ROUND_HALF_EVEN
from fractions import Fraction

import numpy as np

from .. import coqrun
from ..core import Corr
from ..coqrun import cz, cstr, clist, copt, cbool
from ..translate import hashconsts

PID = "C11"
ALLOWED_AXIOMS = set()
EXTRA_TARGETS = ["Model/Hash.vo"]
REQ = ["QV.Common.Outcome", "QV.Common.HFHash", "QV.Gen.HashConsts", "QV.Model.Hash"]

NOISE = {"geometry": 8, "masses": 6, "charges": 4}      # the documented rounding (class docstring / property)
_INFO = {}


def translate(ctx):
    _INFO.clear()
    _INFO.update(hashconsts.generate(ctx.repo))


def info(ctx=None):
    """what the translator extracted; None when the source no longer has the modelled shape (then only the oracle runs)"""
    if not _INFO:
        repo = ctx.repo if ctx else os.environ.get("VERIF_REPO", "/repo")
        try:
            _INFO.update(hashconsts.parse_molecule(repo))
            _INFO.update(hashconsts.parse_bonds(repo))
        except Exception:
            _INFO.clear()
            return None
    return _INFO


# ------------------------------------------------------------------------------------------------
# the implementation

def _mod():
    import qcelemental.models.molecule as mm
    return mm


class _Sha1Tap:
    """Stands in for the `hashlib` name inside qcelemental.models.molecule while a hash is computed, to observe
    the exact text fed to SHA-1 (the digest itself is still computed by the real hashlib)."""

    def __init__(self):
        self.texts = []

    def sha1(self, *a, **k):
        real = _hashlib.sha1(*a, **k)
        tap = self

        class W:
            def update(self, b):
                tap.texts.append(bytes(b))
                real.update(b)

            def hexdigest(self):
                return real.hexdigest()

            def digest(self):
                return real.digest()
        return W()

    def __getattr__(self, name):
        return getattr(_hashlib, name)


@contextlib.contextmanager
def tapped():
    mm = _mod()
    tap = _Sha1Tap()
    old = mm.hashlib
    mm.hashlib = tap
    try:
        yield tap
    finally:
        mm.hashlib = old


def hash_and_text(m):
    with tapped() as tap:
        h = m.get_hash()
    if len(tap.texts) != 1:
        raise RuntimeError("get_hash did not feed exactly one text to SHA-1")
    return h, tap.texts[0].decode("utf-8")


def build(spec):
    """spec: JSON-able dict of Molecule keyword arguments (geometry flat list of floats, Bohr)."""
    from qcelemental.models import Molecule
    kw = dict(spec)
    if "connectivity" in kw and kw["connectivity"] is not None:
        kw["connectivity"] = [tuple(b) for b in kw["connectivity"]]
    for field, kind in (kw.pop("_as", None) or {}).items():
        if kw.get(field) is not None:
            kw[field] = as_container(field, kind, kw[field])
    with contextlib.redirect_stdout(io.StringIO()):      # chgmult prints its search log when it refuses
        return Molecule(**kw)


# the same values handed over in another container / memory layout / dtype (all of them accepted by the constructor)
CONTAINERS = {
    "geometry": ["N3", "F", ">f8", "flat>f8", "tuple", "nested", "strided", "longdouble"],
    "real": ["int8", "ints", "npbool"],
    "masses": [">f8", "tuple", "np"],
    "fragments": ["int64", ">i4", "mixed"],
    "fragment_charges": ["np", ">f8", "ints"],
    "fragment_multiplicities": ["int8", "floats"],
    "molecular_charge": ["np0d", "int"],
    "molecular_multiplicity": ["float", "np"],
    "connectivity": ["lists", "np", "array", "intorder"],
    "symbols": ["np", "tuple"],
}


def as_container(field, kind, v):
    if field == "geometry":
        flat = [float(x) for x in np.asarray(v, dtype=float).ravel()]
        G = np.array(flat).reshape(-1, 3)
        return {"N3": lambda: G, "F": lambda: np.asfortranarray(G), ">f8": lambda: G.astype(">f8"), "flat>f8": lambda: np.array(flat, dtype=">f8"),
                "tuple": lambda: tuple(flat), "nested": lambda: G.tolist(), "strided": lambda: np.array([flat, flat]).T[:, 0],
                "longdouble": lambda: np.array(flat, dtype=np.longdouble)}[kind]()
    if field == "real":
        return {"int8": lambda: np.array([1 if x else 0 for x in v], dtype=np.int8), "ints": lambda: [1 if x else 0 for x in v],
                "npbool": lambda: np.array([bool(x) for x in v])}[kind]()
    if field == "masses":
        return {">f8": lambda: np.array(v, dtype=">f8"), "tuple": lambda: tuple(v), "np": lambda: np.array(v, dtype=float)}[kind]()
    if field == "fragments":
        return {"int64": lambda: [np.array(f, dtype=np.int64) for f in v], ">i4": lambda: [np.array(f, dtype=">i4") for f in v],
                "mixed": lambda: [np.array(f, dtype=np.int16) if i % 2 else list(f) for i, f in enumerate(v)]}[kind]()
    if field == "fragment_charges":
        if kind == "ints":
            return [int(x) if float(x).is_integer() else x for x in v]
        return np.array(v, dtype=">f8" if kind == ">f8" else float)
    if field == "fragment_multiplicities":
        return np.array(v, dtype=np.int8) if kind == "int8" else [float(x) for x in v]
    if field == "molecular_charge":
        return np.float64(v) if kind == "np0d" or not float(v).is_integer() else int(v)
    if field == "molecular_multiplicity":
        return float(v) if kind == "float" else np.int64(v)
    if field == "connectivity":
        if kind == "lists":
            return [list(b) for b in v]
        if kind == "np":
            return [(np.int64(a), np.int64(b), np.float64(o)) for a, b, o in v]
        if kind == "array":
            return np.array([[float(a), float(b), float(o)] for a, b, o in v])
        return [(a, b, int(o)) if float(o).is_integer() else (a, b, o) for a, b, o in v]
    if field == "symbols":
        return np.array(list(v)) if kind == "np" else tuple(v)
    raise KeyError(field)


def ekind(e):
    from qcelemental.exceptions import ValidationError
    if isinstance(e, ValidationError):
        return "Validation"
    return type(e).__name__


# ------------------------------------------------------------------------------------------------
# rendering for the model

def cfl(x):
    x = float(x)
    if x == 0.0 and math.copysign(1.0, x) < 0:
        return "FNegZero"
    if not math.isfinite(x):
        raise ValueError("non-finite value is outside the modelled domain")
    fr = Fraction(x)
    return f"(FQ (({fr.numerator})%Z # {fr.denominator}))"


def cqq(x):
    fr = Fraction(float(x))
    return f"(({fr.numerator})%Z # {fr.denominator})"


def cbond(b):
    return f"({cz(b[0])}, {cz(b[1])}, {cqq(b[2])})"


def mol_state(m):
    """the part of the object's state the getters read"""
    d = m.__dict__

    def arr(v, f):
        return None if v is None else [f(x) for x in np.asarray(v).ravel().tolist()]
    return {
        "symbols": [str(s) for s in d["symbols"].tolist()],
        "masses_": arr(d.get("masses_"), float),
        "mcharge": float(d["molecular_charge"]),
        "mmult": d["molecular_multiplicity"],
        "real_": arr(d.get("real_"), bool),
        "geometry": [float(x) for x in np.asarray(d["geometry"]).ravel().tolist()],
        "fragments_": None if d.get("fragments_") is None else [[int(i) for i in np.asarray(f).tolist()] for f in d["fragments_"]],
        "fcharges_": None if d.get("fragment_charges_") is None else [float(x) for x in d["fragment_charges_"]],
        "fmults_": None if d.get("fragment_multiplicities_") is None else list(d["fragment_multiplicities_"]),
        "connectivity_": None if d.get("connectivity_") is None else [(int(a), int(b), float(o)) for a, b, o in d["connectivity_"]],
    }


def state_ok_for_model(st):
    if not isinstance(st["mmult"], (int, np.integer)) or isinstance(st["mmult"], bool):
        return False
    if st["fmults_"] is not None and not all(isinstance(x, (int, np.integer)) for x in st["fmults_"]):
        return False
    return all(all(32 <= ord(ch) < 127 for ch in s) for s in st["symbols"])


def cmol(st):
    return ("{| symbols := %s; masses_ := %s; mcharge := %s; mmult := %s; real_ := %s; geometry := %s; "
            "fragments_ := %s; fcharges_ := %s; fmults_ := %s; connectivity_ := %s; others := [] |}" % (
                clist(st["symbols"], cstr),
                copt(st["masses_"], lambda l: clist(l, cfl)),
                cfl(st["mcharge"]), cz(st["mmult"]),
                copt(st["real_"], lambda l: clist(l, cbool)),
                clist(st["geometry"], cfl),
                copt(st["fragments_"], lambda l: clist(l, lambda f: clist(f, cz))),
                copt(st["fcharges_"], lambda l: clist(l, cfl)),
                copt(st["fmults_"], lambda l: clist(l, cz)),
                copt(st["connectivity_"], lambda l: clist(l, cbond))))


def cenv(symbols):
    from qcelemental import periodictable
    out = []
    for s in sorted(set(symbols)):
        out.append(f"({cstr(s)}, {cfl(periodictable.to_mass(s))})")
    return "[" + "; ".join(out) + "]"


_NUM = re.compile(r"-?\d+(\.\d+)?([eE][-+]?\d+)?")


def _tok_value(txt, n, out):
    """tokens of one json.dumps value (lists, strings, numbers, true/false/null)"""
    i = 0
    L = len(txt)
    while i < L:
        ch = txt[i]
        if ch == "[":
            out.append("TOpen"); i += 1
        elif ch == "]":
            out.append("TClose"); i += 1
        elif txt.startswith(", ", i):
            out.append("TSep"); i += 2
        elif ch == '"':
            j = txt.index('"', i + 1)
            s = txt[i + 1:j]
            if "\\" in s:
                raise ValueError("escaped string in the hashed text is outside the modelled domain")
            out.append(f"(TStr {cstr(s)})"); i = j + 1
        elif txt.startswith("true", i):
            out.append("(TBool true)"); i += 4
        elif txt.startswith("false", i):
            out.append("(TBool false)"); i += 5
        elif txt.startswith("null", i):
            out.append("TNull"); i += 4
        else:
            mt = _NUM.match(txt, i)
            if not mt:
                raise ValueError(f"cannot tokenise hashed text at {txt[i:i + 20]!r}")
            t = mt.group(0)
            if mt.group(1) is None and mt.group(2) is None:
                out.append(f"(TInt {cz(int(t))})")
            elif Decimal(t).is_zero() and t.startswith("-"):
                out.append("TNegZero")
            elif n is None:
                out.append(f"(TRaw {cqq(float(t))})")
            else:
                k = Decimal(t).scaleb(n)
                if k != k.to_integral_value():
                    out.append(f"(TRaw {cqq(float(t))})")     # more decimals than the field's rounding allows
                else:
                    out.append(f"(TFlt {cz(int(k))} {cz(n)})")
            i = mt.end()


def tokens_of_text(text, inf):
    """the text fed to SHA-1 -> Gallina `list token`, chunk by chunk in hash_fields order"""
    fields = inf["fields"]
    consts = inf["consts"]
    dec = json.JSONDecoder()
    out = []
    pos = 0
    scalar = {"molecular_charge", "molecular_multiplicity"}
    idx = 0
    while idx < len(fields):
        f = fields[idx]
        if f in scalar:
            # a run of bare scalars: raw characters up to the next bracketed value / null / end
            j = idx
            while j < len(fields) and fields[j] in scalar:
                j += 1
            end = len(text)
            for stop in ("[", "n"):
                p = text.find(stop, pos)
                if p != -1:
                    end = min(end, p)
            for ch in text[pos:end]:
                out.append(f'(TChar "{ch}"%char)')
            pos = end
            idx = j
            continue
        val, end = dec.raw_decode(text, pos)
        n = consts[inf["prep"][f]] if f in inf["prep"] else None
        _tok_value(text[pos:end], n, out)
        pos = end
        idx += 1
    if pos != len(text):
        raise ValueError("trailing text after the last hash field")
    return "[" + "; ".join(out) + "]"


# ------------------------------------------------------------------------------------------------
# the property oracle (independent of float_prep: exact decimal arithmetic on the getters' values)

def _q(x, n):
    """documented rounding: nearest multiple of 10^-n of the exact value of the double (ties to even), sign of zero dropped"""
    d = Decimal(float(x)).quantize(Decimal(1).scaleb(-n), rounding=ROUND_HALF_EVEN)
    return int(d.scaleb(n))


def near_tie(x, n, tol=1e-3):
    """is the exact value within tol·10^-n of a rounding boundary (numpy's around multiplies in binary64, so only
    values away from a boundary are guaranteed to round like the exact value)"""
    s = Fraction(float(x)) * 10 ** n
    fr = s - math.floor(s)
    return abs(fr - Fraction(1, 2)) < Fraction(tol)


def listed_fields(m, geometry=None):
    """the listed fields after the documented rounding, as a comparable value; `geometry` = the coordinates the
    molecule was built from (Bohr), when known — the object itself stores them already passed through float_prep"""
    conn = m.connectivity
    if geometry is not None and len(geometry) != 3 * len(m.symbols):
        geometry = None
    return (
        tuple(str(s) for s in m.symbols),
        tuple(_q(x, NOISE["masses"]) for x in m.masses),
        _q(m.molecular_charge, NOISE["charges"]),
        m.molecular_multiplicity,
        tuple(bool(x) for x in m.real),
        tuple(_q(x, NOISE["geometry"]) for x in (geometry if geometry is not None else np.asarray(m.geometry).ravel())),
        tuple(tuple(int(i) for i in f) for f in m.fragments),
        tuple(_q(x, NOISE["charges"]) for x in m.fragment_charges),
        tuple(m.fragment_multiplicities),
        # a bond list is a multiset of unoriented bonds: listing order and orientation are not part of the molecule
        None if conn is None else tuple(sorted((min(int(a), int(b)), max(int(a), int(b)), float(o)) for a, b, o in conn)),
    )


def any_near_tie(m, geometry=None, tol=1e-3):
    return (any(near_tie(x, NOISE["geometry"], tol) for x in list(np.asarray(m.geometry).ravel()) + list(geometry or []))
            or any(near_tie(x, NOISE["masses"]) for x in m.masses)
            or any(near_tie(x, NOISE["charges"]) for x in list(m.fragment_charges) + [m.molecular_charge]))


def diff_report(fa, fb):
    names = ["symbols", "masses", "molecular_charge", "molecular_multiplicity", "real", "geometry", "fragments",
             "fragment_charges", "fragment_multiplicities", "connectivity"]
    out = []
    for nm, x, y in zip(names, fa, fb):
        if x == y:
            continue
        if nm in ("masses", "geometry", "fragment_charges") and len(x) == len(y):
            n = {"masses": NOISE["masses"], "geometry": NOISE["geometry"], "fragment_charges": NOISE["charges"]}[nm]
            for i, (p, q) in enumerate(zip(x, y)):
                if p != q:
                    out.append([nm, i, p, q, n])
        else:
            out.append([nm, None, None, None, None])
    return out


# ------------------------------------------------------------------------------------------------
# routes and perturbations

ROUTES = ["dict", "from_data_dict", "json", "json-ext", "msgpack", "msgpack-ext", "psi4_bohr", "psi4_angstrom",
          "file_json", "file_msgpack", "file_psimol", "file_xyz"]
FILEDIR = os.path.join(coqrun.VERIF, "build", "c11_files")


def via_route(m, route, tag="x"):
    with contextlib.redirect_stdout(io.StringIO()):
        return _via_route(m, route, tag)


def _via_route(m, route, tag="x"):
    from qcelemental.models import Molecule
    if route == "dict":
        return Molecule(**m.dict())
    if route == "from_data_dict":
        return Molecule.from_data(m.dict())
    if route in ("json", "json-ext", "msgpack", "msgpack-ext"):
        return Molecule.parse_raw(m.serialize(route), encoding=route)
    if route == "psi4_bohr":
        return Molecule.from_data(m.to_string("psi4", units="Bohr"), dtype="psi4")
    if route == "psi4_angstrom":
        return Molecule.from_data(m.to_string("psi4", units="Angstrom"), dtype="psi4")
    if route.startswith("file_"):
        ext = {"file_json": ".json", "file_msgpack": ".msgpack", "file_psimol": ".psimol", "file_xyz": ".xyz"}[route]
        os.makedirs(FILEDIR, exist_ok=True)
        path = os.path.join(FILEDIR, f"{tag}{ext}")
        m.to_file(path)
        try:
            return Molecule.from_file(path)
        finally:
            try:
                os.remove(path)
            except OSError:
                pass
    raise KeyError(route)


SYMS = ["H", "He", "Li", "C", "N", "O", "F", "Ne", "Na", "Cl", "Ar"]
SAME_PARITY = {"H": "Li", "Li": "Na", "Na": "H", "He": "Ne", "Ne": "Ar", "Ar": "He", "C": "O", "O": "C", "N": "F", "F": "Cl", "Cl": "N"}
ISOTOPE = {"H": 2.01410177812, "C": 13.00335483507, "O": 17.99915961286, "He": 3.0160293201, "Li": 6.0151228874,
           "N": 15.00010889888, "Cl": 36.965902602}
ORDERS = [1.0, 1.5, 2.0, 3.0, 0.5, 2.25, 1.0000001, 0.0, 5.0]


def gen_coord(rng, grid):
    r = rng.random()
    if r < 0.10:
        return grid + 0.0
    if r < 0.14 and grid == 0.0:
        return rng.choice([-0.0, 1e-9, -1e-9, 3e-9, -4e-9, 4.9e-9])
    if r < 0.30:
        # 10 decimals, digits 9-10 away from a tie
        base = rng.randint(-40000000, 40000000)
        tail = rng.choice(list(range(3, 45)) + list(range(56, 98)))
        return grid + float(f"{base / 1e8:.8f}") + (tail / 1e10 if base >= 0 else -tail / 1e10)
    d = rng.choice([1, 2, 3, 4, 5, 6, 7])
    return grid + round(rng.uniform(-0.4, 0.4), d)


def gen_spec(rng, max_atoms=6):
    nat = rng.choice([1, 2, 2, 3, 3, 4, 5, max_atoms])
    syms = [rng.choice(SYMS) for _ in range(nat)]
    geom = []
    for i in range(nat):
        gx, gy, gz = (i % 2) * 2.0, ((i // 2) % 2) * 2.0, (i // 4) * 2.5
        geom += [gen_coord(rng, gx), gen_coord(rng, gy), gen_coord(rng, gz)]
    if rng.random() < 0.06:
        # far from the origin (|x| up to ~1e3 Bohr: the Angstrom text round trip still delivers values within 1e-4 rounding units)
        sh = [rng.choice([50.0, -300.0, 1000.0, -1000.0]) + round(rng.uniform(-1, 1), 3) for _ in range(3)]
        geom = [x + sh[i % 3] for i, x in enumerate(geom)]
    spec = {"symbols": [s if rng.random() < 0.85 else rng.choice([s.lower(), s.upper()]) for s in syms], "geometry": geom}
    if rng.random() < 0.35 and nat > 1:
        real = [rng.random() < 0.7 for _ in range(nat)]
        if not any(real) and rng.random() < 0.6:        # ghost-only molecules are legal: keep some
            real[0] = True
        spec["real"] = real
    if rng.random() < 0.3:
        spec["masses"] = [ISOTOPE[s] if (s in ISOTOPE and rng.random() < 0.6) else None for s in syms]
        from qcelemental import periodictable
        spec["masses"] = [x if x is not None else (periodictable.to_mass(s) if rng.random() < 0.5 else
                                                   round(periodictable.to_mass(s) + rng.choice([0.5, 0.123456, 0.0001234]), 7))
                          for x, s in zip(spec["masses"], syms)]
    nfr = 1
    if nat > 1 and rng.random() < 0.45:
        nfr = rng.choice([2, 2, 3]) if nat > 2 else 2
        cuts = sorted(rng.sample(range(1, nat), nfr - 1))
        bounds = [0] + cuts + [nat]
        spec["fragments"] = [list(range(bounds[i], bounds[i + 1])) for i in range(nfr)]
        if rng.random() < 0.5:
            spec["fragment_charges"] = [float(rng.choice([0, 0, 0, 1, -1, 2])) for _ in range(nfr)]
    if "fragment_charges" not in spec and rng.random() < 0.4:
        spec["molecular_charge"] = float(rng.choice([0, 1, -1, 2, -2]))
    if rng.random() < 0.3 and nat > 1:
        nb = rng.randint(1, min(4, nat * (nat - 1) // 2))
        bonds = set()
        while len(bonds) < nb:
            a, b = rng.sample(range(nat), 2)
            bonds.add((min(a, b), max(a, b)))
        spec["connectivity"] = [[a, b, rng.choice(ORDERS)] if rng.random() < 0.5 else [b, a, rng.choice(ORDERS)] for a, b in sorted(bonds)]
        rng.shuffle(spec["connectivity"])
    if rng.random() < 0.4:
        spec["name"] = rng.choice(["mol", "water?", "x y z", ""])
    if rng.random() < 0.2:
        spec["comment"] = "generated"
    if rng.random() < 0.2:
        spec["extras"] = {"k": rng.randint(0, 9)}
    return spec


def perturbations(rng, spec, m):
    """(label, expected, new spec) — `expected` is only what the generator intends ('equal' / 'different'); the verdict
    is always the oracle's (listed fields after the documented rounding)."""
    out = []
    nat = len(spec["symbols"])
    g = list(spec["geometry"])

    def with_(**kw):
        s = dict(spec)
        s.update(kw)
        return s
    # noise <= 1e-10 on every coordinate
    out.append(("noise", "equal", with_(geometry=[x + rng.uniform(-1e-10, 1e-10) if x != 0 else x for x in g])))
    # sign of zero and |x| < 5e-9
    tiny = [-0.0, 0.0, 1e-9, -1e-9, 4e-9, -4.9e-9, 1e-12, -3e-10]
    if any(abs(x) < 5e-9 for x in g):
        out.append(("zero_sign", "equal", with_(geometry=[rng.choice(tiny) if abs(x) < 5e-9 else x for x in g])))
    # bonds permuted and reversed
    if spec.get("connectivity"):
        c = [list(b) for b in spec["connectivity"]]
        rng.shuffle(c)
        c = [[b[1], b[0], b[2]] if rng.random() < 0.5 else b for b in c]
        out.append(("bond_listing", "equal", with_(connectivity=c)))
        out.append(("bond_reversed", "equal", with_(connectivity=[[b[1], b[0], b[2]] for b in reversed(spec["connectivity"])])))
        c2 = [list(b) for b in spec["connectivity"]]
        k = rng.randrange(len(c2))
        c2[k][2] = rng.choice([o for o in ORDERS if o != c2[k][2]])
        out.append(("bond_order", "different", with_(connectivity=c2)))
        if len(c2) > 1:
            out.append(("bond_removed", "different", with_(connectivity=c2[:-1])))
    elif nat > 1:
        out.append(("bond_added", "different", with_(connectivity=[[0, 1, 1.0]])))
    # fields outside the list
    out.append(("non_hash", "equal", with_(name="renamed " + str(rng.randint(0, 99)), comment="c" * rng.randint(0, 5),
                                           extras={"note": [1, 2, {"a": rng.random()}]},
                                           identifiers={"smiles": "C" * rng.randint(1, 4)},
                                           atom_labels=[rng.choice(["", "a", "x1"]) for _ in range(nat)],
                                           provenance={"creator": "verif", "version": "1.0", "routine": "c11"})))
    h0 = m.get_hash()
    out.append(("identifiers_own_hash", "equal", with_(identifiers={"molecule_hash": h0})))
    out.append(("identifiers_junk_hash", "equal", with_(identifiers={"molecule_hash": rng.choice(["junk", "f" * 40]), "smiles": "C"})))
    out.append(("geometry_noise_13", "equal", with_(geometry_noise=13)))
    out.append(("geometry_noise_13+noise", "equal", with_(geometry_noise=13, geometry=[x + rng.uniform(-1e-10, 1e-10) if x != 0 else x for x in g])))
    out.append(("symbol_case", "equal", with_(symbols=[rng.choice([s.lower(), s.upper(), s.title()]) for s in spec["symbols"]])))
    # defaults written out
    out.append(("explicit_defaults", "equal", with_(masses=[float(x) for x in m.masses], real=[bool(x) for x in m.real],
                                                    fragments=[[int(i) for i in f] for f in m.fragments],
                                                    fragment_charges=[float(x) for x in m.fragment_charges],
                                                    fragment_multiplicities=[int(x) for x in m.fragment_multiplicities],
                                                    molecular_charge=float(m.molecular_charge),
                                                    molecular_multiplicity=int(m.molecular_multiplicity))))
    # the same values in other containers / layouts / dtypes (a few fields at once; also on top of the written-out defaults)
    for full in (False, True):
        src = dict(out[-1][2]) if full else dict(spec)
        fields = [f for f in CONTAINERS if src.get(f) is not None]
        pick = rng.sample(fields, min(len(fields), rng.randint(1, 3)))
        if "geometry" not in pick and rng.random() < 0.5:
            pick.append("geometry")
        out.append(("containers", "equal", dict(src, _as={f: rng.choice(CONTAINERS[f]) for f in pick})))
    out.append(("mass_noise", "equal", with_(masses=[float(x) + rng.uniform(-1e-9, 1e-9) for x in m.masses])))
    # edits above the rounding unit
    k = rng.randrange(len(g))
    for sgn in (1, -1):
        g2 = list(g)
        g2[k] = g2[k] + sgn * 1e-6
        out.append(("coord_1e-6", "different", with_(geometry=g2)))
    big = [i for i, x in enumerate(g) if abs(x) > 1e-3]     # away from float_prep's zero-flush zone
    if big:
        k = rng.choice(big)
        g2 = list(g)
        g2[k] = g2[k] + rng.choice([3e-8, -3e-8])          # three rounding units
        out.append(("coord_3e-8", "different", with_(geometry=g2)))
    if float(m.molecular_charge) == 0.0:
        out.append(("charge_neg_zero", "equal", with_(molecular_charge=-0.0)))
    if all(float(x) == 0.0 for x in m.fragment_charges):
        out.append(("fragment_charge_neg_zero", "equal", with_(fragments=[[int(i) for i in f] for f in m.fragments],
                                                               fragment_charges=[rng.choice([-0.0, 0.0, 1e-6, -2e-6]) for _ in m.fragment_charges])))
    k = rng.randrange(nat)
    s2 = [x.title() for x in spec["symbols"]]
    s2[k] = SAME_PARITY[s2[k]]
    sp = with_(symbols=s2)
    sp.pop("masses", None)
    out.append(("symbol", "different", sp))
    ms = [float(x) for x in m.masses]
    ms[k] += 2e-6
    out.append(("mass_2e-6", "different", with_(masses=ms)))
    base_c = float(m.molecular_charge)
    sp = with_(molecular_charge=base_c + 2.0)
    sp.pop("fragment_charges", None)
    out.append(("charge", "different", sp))
    sp = with_(molecular_multiplicity=int(m.molecular_multiplicity) + 2)
    sp.pop("fragment_multiplicities", None)
    out.append(("multiplicity", "different", sp))
    if nat > 1:
        r2 = [bool(x) for x in m.real]
        k = rng.randrange(nat)
        r2[k] = not r2[k]
        if any(r2):
            sp = with_(real=r2)
            for key in ("molecular_charge", "fragment_charges", "molecular_multiplicity", "fragment_multiplicities"):
                sp.pop(key, None)
            out.append(("ghost_flag", "different", sp))
        fr = [[int(i) for i in f] for f in m.fragments]
        if len(fr) == 1:
            cut = rng.randrange(1, nat)
            newfr = [list(range(0, cut)), list(range(cut, nat))]
        else:
            newfr = [fr[0] + fr[1]] + fr[2:]
        sp = with_(fragments=newfr)
        for key in ("fragment_charges", "fragment_multiplicities", "molecular_multiplicity"):
            sp.pop(key, None)
        out.append(("fragment_boundary", "different", sp))
    # the same edits on a molecule that carries the (now stale) hash of the original in identifiers.molecule_hash
    for label, intended, sp in list(out):
        if intended == "different" and label in ("coord_1e-6", "coord_3e-8", "symbol", "charge", "multiplicity", "ghost_flag", "mass_2e-6"):
            out.append((label + "+stale_hash", "different", dict(sp, identifiers={"molecule_hash": h0})))
    return out


ZONE_CASES = [
    # coordinates inside float_prep's zero-flush zone |round(x, 8)| < 5**-9 = 5.12e-7 (known finding C11-zero-flip-threshold)
    ({"symbols": ["He", "He"], "geometry": [0, 0, 1e-7, 0, 0, 3]}, {"symbols": ["He", "He"], "geometry": [0, 0, 3e-7, 0, 0, 3]}),
    ({"symbols": ["He", "He"], "geometry": [0, 0, -5e-7, 0, 0, 3]}, {"symbols": ["He", "He"], "geometry": [0, 0, 5e-7, 0, 0, 3]}),
    ({"symbols": ["He", "Ne"], "geometry": [0, 0, 0, 0, 0, 3], "fragments": [[0], [1]], "fragment_charges": [0.0003, -0.0003]},
     {"symbols": ["He", "Ne"], "geometry": [0, 0, 0, 0, 0, 3], "fragments": [[0], [1]], "fragment_charges": [0.0, 0.0]}),
]

CORPUS = [
    # C11-bond-order (fixed by 95cbbdc): same bonds, two listings
    ("corpus_bond_order", {"symbols": ["C", "H", "H", "H"], "geometry": [0, 0, 0, 2, 0, 0, 0, 2, 0, 0, 0, 2], "connectivity": [[1, 0, 1.0], [0, 2, 1.0], [0, 3, 1.0]]},
     {"symbols": ["C", "H", "H", "H"], "geometry": [0, 0, 0, 2, 0, 0, 0, 2, 0, 0, 0, 2], "connectivity": [[0, 3, 1.0], [0, 2, 1.0], [1, 0, 1.0]]}),
    ("corpus_bond_order2", {"symbols": ["C", "H", "H", "H"], "geometry": [0, 0, 0, 2, 0, 0, 0, 2, 0, 0, 0, 2], "connectivity": [[1, 0, 1.0], [1, 2, 2.0], [1, 3, 1.5]]},
     {"symbols": ["C", "H", "H", "H"], "geometry": [0, 0, 0, 2, 0, 0, 0, 2, 0, 0, 0, 2], "connectivity": [[3, 1, 1.5], [2, 1, 2.0], [0, 1, 1.0]]}),
    ("corpus_same_pair_two_orders", {"symbols": ["C", "O"], "geometry": [0, 0, 0, 0, 0, 2], "connectivity": [[0, 1, 2.0], [1, 0, 1.0]]},
     {"symbols": ["C", "O"], "geometry": [0, 0, 0, 0, 0, 2], "connectivity": [[0, 1, 1.0], [0, 1, 2.0]]}),
    ("corpus_neg_zero", {"symbols": ["He"], "geometry": [0.0, -0.0, 0.0]}, {"symbols": ["He"], "geometry": [-0.0, 0.0, -1e-9]}),
    ("corpus_charge_vs_mult", {"symbols": ["Li"], "geometry": [0, 0, 0], "molecular_charge": 1.0}, {"symbols": ["Li"], "geometry": [0, 0, 0], "molecular_charge": -1.0}),
    ("corpus_docstring", {"symbols": ["He", "He"], "geometry": [0, 0, -3, 0, 0, 3]}, {"symbols": ["He", "He"], "geometry": [0, 0, -3, 0, 0, 3.000001]}),
    ("corpus_ghost_only", {"symbols": ["He"], "geometry": [0, 0, 0], "real": [False]}, {"symbols": ["He"], "geometry": [0, 0, 0]}),
    ("corpus_ghost_only_defaults", {"symbols": ["He", "H"], "geometry": [0, 0, 0, 0, 0, 2], "real": [False, False]},
     {"symbols": ["He", "H"], "geometry": [0, 0, 0, 0, 0, 2], "real": [False, False], "molecular_charge": 0.0, "molecular_multiplicity": 1}),
    # charges are resolved to 1e-4: two and three rounding units apart inside one 1e-3 bin
    ("corpus_fractional_charge", {"symbols": ["He", "Ne"], "geometry": [0, 0, 0, 0, 0, 3], "molecular_charge": 0.3},
     {"symbols": ["He", "Ne"], "geometry": [0, 0, 0, 0, 0, 3], "molecular_charge": 0.3002}),
    ("corpus_fractional_fragment_charges", {"symbols": ["He", "Ne", "Ar"], "geometry": [0, 0, 0, 0, 0, 3, 0, 3, 0], "fragments": [[0], [1], [2]], "fragment_charges": [0.3, -0.3, 0.0]},
     {"symbols": ["He", "Ne", "Ar"], "geometry": [0, 0, 0, 0, 0, 3, 0, 3, 0], "fragments": [[0], [1], [2]], "fragment_charges": [0.3003, -0.3003, 0.0]}),
]


# ------------------------------------------------------------------------------------------------
# the oracle on one pair

def eq_dict_check(ma, mb):
    """Molecule.__eq__ accepts a dict: `a == b.dict()` must be the verdict on the molecule that dict denotes.
    Returns None (consistent / not applicable) or a description."""
    from qcelemental.models import Molecule
    try:
        with contextlib.redirect_stdout(io.StringIO()):
            d = mb.dict()
            md = Molecule(orient=False, **d)
    except Exception:
        return None                      # the dict does not denote a molecule (unvalidated copies): nothing to compare
    want = ma.get_hash() == md.get_hash()
    try:
        with contextlib.redirect_stdout(io.StringIO()):
            got = (ma == d)
    except Exception as e:
        return f"a == b.dict() raised {type(e).__name__} although Molecule(**b.dict()) is accepted"
    if bool(got) != want:
        return f"a == b.dict() is {bool(got)} but the hashes of a and Molecule(**b.dict()) are {'equal' if want else 'different'}"
    return None


def judge_pair(ma, mb, ga=None, gb=None, tol=1e-3, with_dict=True, bond_mode=None):
    """returns (verdict dict, failure text or None, skipped?); ga/gb: the input coordinates when the molecule was
    built from keyword arguments; tol: how close (in rounding units) to a rounding boundary a coordinate may lie
    before the pair is left unjudged (0.03 for pairs that differ by <= 1e-10 noise on arbitrary coordinates)"""
    fa, fb = listed_fields(ma, ga), listed_fields(mb, gb)
    ha, hb = ma.get_hash(), mb.get_hash()
    same_fields = fa == fb
    same_hash = ha == hb
    eq1, eq2 = (ma == mb), (mb == ma)
    obs = {"same_fields_after_rounding": same_fields, "same_hash": same_hash, "eq": eq1, "hash_a": ha, "hash_b": hb}
    if not same_fields:
        obs["differing"] = diff_report(fa, fb)[:12]
    if bond_mode:
        obs["stored_connectivity"] = [None if m.connectivity is None else [[int(a), int(b), float(o)] for a, b, o in m.connectivity] for m in (ma, mb)]
    if eq1 != same_hash or eq2 != same_hash:
        return obs, "__eq__ disagrees with equality of hashes", False
    if with_dict:
        bad = eq_dict_check(ma, mb)
        if bad:
            obs["eq_dict"] = bad
            return obs, "__eq__ against a dict disagrees with equality of hashes", False
    if bond_mode == "caller":
        return obs, None, False          # the caller vouched for the stored bond list: 'validated molecules' does not cover it
    if any_near_tie(ma, ga, tol) or any_near_tie(mb, gb, tol):
        return obs, None, True
    if same_fields and not same_hash:
        return obs, "the listed fields agree after the documented rounding but the hashes differ", False
    if not same_fields and same_hash:
        return obs, "the listed fields differ after the documented rounding but the hashes are equal", False
    return obs, None, False


def judge_sequential(case):
    """history across objects: molecule a is built, hashed and dropped before molecule b exists (so that state keyed on a dead
    object — its address, a weak slot — would be found again by b); b's answer must be that of a b built in isolation, i.e.
    differ from a's exactly when the listed fields differ. Returns (observed, failure text or None)."""
    import gc
    ma = build(case["a"])
    fa, ha = listed_fields(ma, [float(x) for x in case["a"]["geometry"]]), ma.get_hash()
    tie = any_near_tie(ma, [float(x) for x in case["a"]["geometry"]])
    del ma
    for _ in range(case.get("churn", 12)):          # more dead instances of a, each one hashed
        mx = build(case["a"])
        mx.get_hash()
        del mx
    gc.collect()
    # several instances of b, kept alive together: some of them are likely to occupy what the dead ones left behind
    mbs = [build(case["b"]) for _ in range(case.get("instances", 8))]
    mb = mbs[0]
    fb = listed_fields(mb, [float(x) for x in case["b"]["geometry"]])
    hbs = [x.get_hash() for x in mbs]
    hb = ha if ha in hbs else (hbs[0] if len(set(hbs)) == 1 else sorted(set(hbs))[0] + "|" + sorted(set(hbs))[-1])
    tie = tie or any_near_tie(mb, [float(x) for x in case["b"]["geometry"]])
    obs = {"same_fields_after_rounding": fa == fb, "same_hash": ha == hb, "hash_a": ha, "hash_b": hb}
    if tie:
        return obs, None
    if fa != fb and ha == hb:
        obs["differing"] = diff_report(fa, fb)[:12]
        return obs, "the listed fields differ after the documented rounding but the hashes are equal"
    if fa == fb and ha != hb:
        return obs, "the listed fields agree after the documented rounding but the hashes differ"
    if len(set(hbs)) != 1:
        return obs, "instances built from the same arguments have different hashes"
    return obs, None


# ------------------------------------------------------------------------------------------------
# history through shared mutable values: everything a live molecule hands out (property values, dict() values) and everything it
# was handed (the arrays it was built from) is modified in place; molecules that were not touched must answer as before

MUT_PROPS = ["masses", "geometry", "atomic_numbers", "mass_numbers", "real", "fragments", "fragment_charges",
             "fragment_multiplicities", "symbols", "atom_labels", "connectivity"]
MUT_ISOTOPE = 3.0160293201


def _mutate_in_place(v, k=0):
    """modify the value obtained from a molecule in place (entry k modulo its size); returns an undo closure, or None when
    there is nothing to modify (None, empty, read-only, immutable)"""
    try:
        if isinstance(v, np.ndarray):
            if v.size == 0 or not v.flags.writeable:
                return None
            flat = v.reshape(-1)                      # a view for contiguous arrays
            if not np.shares_memory(flat, v):
                return None
            i = k % flat.size
            old = flat[i].copy() if hasattr(flat[i], "copy") else flat[i]
            kind = v.dtype.kind
            if kind in "fc":
                flat[i] = MUT_ISOTOPE if abs(float(flat[i]) - MUT_ISOTOPE) > 0.5 else MUT_ISOTOPE + 1.0
            elif kind == "b":
                flat[i] = not bool(flat[i])
            elif kind in "iu":
                flat[i] = flat[i] + 1
            elif kind in "US":
                flat[i] = "Ne" if str(flat[i]) != "Ne" else "Ar"
            else:
                return None

            def undo(flat=flat, i=i, old=old):
                flat[i] = old
            return undo
        if isinstance(v, list):
            if not v:
                return None
            i = k % len(v)
            x = v[i]
            if isinstance(x, np.ndarray) or isinstance(x, list):
                inner = _mutate_in_place(x, k // len(v))
                if inner is not None:
                    return inner
            old = x
            if isinstance(x, bool):
                v[i] = not x
            elif isinstance(x, (int, float, np.number)):
                v[i] = x + 1
            elif isinstance(x, tuple) and len(x) == 3:
                v[i] = (x[0], x[1], float(x[2]) + 1.0)
            elif isinstance(x, str):
                v[i] = "Ne"
            else:
                return None

            def undo_l(v=v, i=i, old=old):
                v[i] = old
            return undo_l
        if isinstance(v, dict):
            for key in sorted(v, key=str):
                inner = _mutate_in_place(v[key], k)
                if inner is not None:
                    return inner
    except (ValueError, TypeError):
        return None
    return None


def _np_spec(spec):
    """the keyword arguments of `spec` as the numpy arrays / fresh lists a caller might hold on to"""
    kw = dict(spec)
    kw["symbols"] = np.array(list(spec["symbols"]))
    kw["geometry"] = np.array([float(x) for x in spec["geometry"]]).reshape(-1, 3)
    if spec.get("masses") is not None:
        kw["masses"] = np.array([float(x) for x in spec["masses"]])
    if spec.get("real") is not None:
        kw["real"] = np.array([bool(x) for x in spec["real"]])
    if spec.get("fragments") is not None:
        kw["fragments"] = [np.array(f, dtype=np.int32) for f in spec["fragments"]]
    for key in ("fragment_charges", "fragment_multiplicities"):
        if spec.get(key) is not None:
            kw[key] = list(spec[key])
    if spec.get("connectivity") is not None:
        kw["connectivity"] = [tuple(b) for b in spec["connectivity"]]
    return kw


def judge_mutation(case):
    """case: {"a": spec, "mutate": [where, name, k]} with where = "property" | "dict" | "supplied".
    Molecule A (and an independent twin C) are built from the same keyword arguments and hashed; the value A hands out through the
    property / inside dict() — or the array A was built from — is then modified in place. Afterwards: the twin, and molecules built
    afresh from the same arguments / from the JSON and psi4 texts written before the modification, must hash as before; A itself
    must hash as before when it was not handed the value by reference, i.e. for "supplied" (validated construction copies) and
    for a property of a field A does not store (defaults computed on access). The modification is undone before returning.
    Returns (observed, failure text or None, applicable?)."""
    from qcelemental.models import Molecule
    spec = case["a"]
    where, name, k = case["mutate"]
    with contextlib.redirect_stdout(io.StringIO()):
        kw = _np_spec(spec) if where == "supplied" else None
        ma = Molecule(**kw) if where == "supplied" else build(spec)
        mc = build(spec)
        ha, hc = ma.get_hash(), mc.get_hash()
        texts = {"json": ma.json()}
        try:
            texts["psi4"] = ma.to_string("psi4", units="Bohr")
        except Exception:
            pass

        def fresh():
            out = {"kwargs": build(spec).get_hash(), "json": Molecule.from_data(texts["json"], dtype="json").get_hash()}
            if "psi4" in texts:
                try:
                    out["psi4"] = Molecule.from_data(texts["psi4"], dtype="psi4").get_hash()
                except Exception:
                    pass
            return out
        before = fresh()
        stored = ma.dict()
        if where == "property":
            value = getattr(ma, name)
            a_must_keep = name not in stored
        elif where == "dict":
            value = stored.get(name)
            a_must_keep = False
        else:
            value = kw.get(name)
            a_must_keep = True
        dflt = None
        if where == "supplied" and value is not None:
            # does the supplied value say what the molecule would have assumed anyway (known finding: then the caller's array is kept)
            try:
                d0 = getattr(build({kk: vv for kk, vv in spec.items() if kk != name}), name)
                if name == "fragments":
                    dflt = len(d0) == len(value) and all(np.array_equal(x, y) for x, y in zip(d0, value))
                elif name == "masses":
                    dflt = bool(np.allclose(np.asarray(d0, dtype=float), np.asarray(value, dtype=float)))
                else:
                    dflt = bool(np.array_equal(np.asarray(d0), np.asarray(value)))
            except Exception:
                dflt = None
        undo = _mutate_in_place(value, k)
        if undo is None:
            return {}, None, False
        try:
            after = fresh()
            ha2, hc2 = ma.get_hash(), mc.get_hash()
            eq_ac = (ma == mc)
        finally:
            undo()
    obs = {"hash_before": ha, "hash_after": ha2, "twin_before": hc, "twin_after": hc2, "fresh_before": before, "fresh_after": after,
           "modified": f"{where}:{name}[{k}]"}
    if dflt is not None:
        obs["supplied_equals_default"] = dflt
    what = {"property": f"the array returned by the molecule's {name} property", "dict": f"the value under {name!r} in the molecule's dict()",
            "supplied": f"the {name} array the molecule had been built from"}[where]
    if hc2 != hc:
        return obs, f"the hash of an independently built molecule changed after {what} was modified in place", True
    for route in sorted(before):
        if after.get(route) != before[route]:
            return obs, f"a molecule built afresh ({route}) from the same input hashes differently after {what} was modified in place", True
    if a_must_keep and ha2 != ha:
        return obs, f"the hash of the molecule changed after {what} (not stored by the molecule) was modified in place", True
    if eq_ac != (ha2 == hc2):
        return obs, "__eq__ disagrees with equality of hashes", True
    return obs, None, True


def mutation_cases(rng, spec, m0, n=3):
    """a few (where, name, k) choices for one base molecule"""
    out = []
    stored = sorted(k for k, v in m0.dict().items() if isinstance(v, (np.ndarray, list, dict)))
    supplied = sorted(k for k in ("symbols", "geometry", "masses", "real", "fragments", "fragment_charges", "fragment_multiplicities",
                                  "connectivity") if spec.get(k) is not None)
    for _ in range(n):
        r = rng.random()
        if r < 0.6:
            out.append(["property", rng.choice(MUT_PROPS), rng.randrange(12)])
        elif r < 0.8 and stored:
            out.append(["dict", rng.choice(stored), rng.randrange(12)])
        elif supplied:
            out.append(["supplied", rng.choice(supplied), rng.randrange(12)])
    return out


def zone_limit(n):
    """largest |k| (units of 10^-n) that float_prep's array branch flushes to zero with the 5**-(n+1) threshold"""
    k = 0
    while (k + 1) * 5 ** (n + 1) < 10 ** n:
        k += 1
    return k


def _known_zone(f):
    if f.get("what") != "the listed fields differ after the documented rounding but the hashes are equal":
        return False
    diff = (f.get("observed") or {}).get("differing") or []
    if not diff:
        return False
    for nm, i, p, q, n in diff:
        if nm not in ("geometry", "masses", "fragment_charges") or i is None:
            return False
        lim = zone_limit(n)
        if abs(p) > lim or abs(q) > lim:
            return False
    return True


def _known_text_bonds(f):
    """only: same bonds, one listing stored as given by from_data(text, connectivity=...), hashes differ"""
    if f.get("what") != "the listed fields agree after the documented rounding but the hashes differ":
        return False
    if case_bond_mode(f.get("case") or {}) != "library":
        return False
    obs = f.get("observed") or {}
    sc = obs.get("stored_connectivity")
    if not sc or sc[0] is None or sc[1] is None or obs.get("eq") is not False:
        return False
    ca, cb = _canon_bonds(sc[0]), _canon_bonds(sc[1])
    as_stored = [[(int(a), int(b), float(o)) for a, b, o in x] for x in sc]
    return ca == cb and (as_stored[0] != ca or as_stored[1] != cb)


def _known_default_alias(f):
    """only: the molecule's own hash follows the caller's masses / real / fragments array, and that array held the default values"""
    case = f.get("case") or {}
    mut = case.get("mutate") or [None, None, None]
    return (mut[0] == "supplied" and mut[1] in ("masses", "real", "fragments")
            and str(f.get("what", "")).startswith("the hash of the molecule changed after the ")
            and (f.get("observed") or {}).get("supplied_equals_default") is True)


KNOWN = {"C11-zero-flip-threshold": _known_zone, "C11-text-keyword-bonds-unvalidated": _known_text_bonds,
         "C11-default-valued-array-kept-by-reference": _known_default_alias}

WATER = {"symbols": ["O", "H", "H"], "geometry": [0, 0, 0, 0, 1.5, 1.1, 0, -1.5, 1.1], "connectivity": [[0, 1, 1.0], [0, 2, 1.0]]}
WATER_ALT = [[2, 0, 1.0], [1, 0, 1.0]]
UNVALIDATED_CORPUS = [
    ("text_conn", {"a": WATER, "chain_a": [["text_conn", WATER["connectivity"]]], "chain_b": [["text_conn", WATER_ALT]]}),
    ("text_conn_vs_kwargs", {"a": WATER, "chain_b": [["text_conn", WATER_ALT]]}),
    ("json_payload", {"a": WATER, "chain_b": [["payload_conn", "json", WATER_ALT]]}),
    ("dict_payload", {"a": WATER, "chain_b": [["payload_conn", "dict", WATER_ALT]]}),
    ("msgpack_payload", {"a": WATER, "chain_b": [["payload_conn", "msgpack", WATER_ALT]]}),
    ("copy_update", {"a": WATER, "chain_b": [["copy_conn", WATER_ALT]]}),
    ("copy_update_bond_order", {"a": WATER, "chain_b": [["copy_conn", [[2, 0, 2.0], [1, 0, 1.0]]]]}),
]
HE2 = {"symbols": ["He", "He"], "geometry": [0.0, 0.0, -1.5, 0.0, 0.0, 1.5]}
HE2_FULL = {"symbols": ["He", "He", "Ne"], "geometry": [0, 0, 0, 0, 0, 3, 0, 2, 0], "fragments": [[0, 1], [2]], "masses": [4.00260325413, 3.0160293201, 19.9924401762],
            "real": [True, True, False], "fragment_charges": [0.0, 0.0], "fragment_multiplicities": [1, 1], "connectivity": [[0, 1, 1.0]]}
MUTATION_CORPUS = ([{"a": HE2, "mutate": ["property", nm, 0]} for nm in MUT_PROPS]
                   + [{"a": HE2_FULL, "mutate": ["property", nm, 1]} for nm in MUT_PROPS]
                   + [{"a": HE2_FULL, "mutate": ["dict", nm, 0]} for nm in ("geometry", "masses", "real", "fragments", "fragment_charges", "connectivity", "symbols")]
                   + [{"a": HE2_FULL, "mutate": ["supplied", nm, 0]} for nm in ("geometry", "masses", "real", "fragments", "fragment_charges", "fragment_multiplicities", "connectivity", "symbols")]
                   + [{"a": dict(HE2, real=[True, True]), "mutate": ["supplied", "real", 0]}])


def apply_recipe(m, rec):
    """object-level derivations and re-validations (all JSON-able, so that a replay can redo them)"""
    import random as _random
    from qcelemental.models import Molecule
    kind = rec[0]
    with contextlib.redirect_stdout(io.StringIO()):
        if kind == "touch_hash":                   # history: the object has answered get_hash / __eq__ before it is derived from
            m.get_hash()
            m == m
            return m
        if kind == "scramble":                     # geometry_noise=13 inside
            return m.scramble(do_shift=rec[1], do_rotate=rec[2], do_resort=False, do_mirror=bool(rec[3]), do_test=False, verbose=0)[0]
        if kind == "align_to_scrambled":           # geometry_noise=13 inside
            ref = m.scramble(do_shift=rec[1], do_rotate=rec[2], do_resort=False, do_test=False, verbose=0)[0]
            return m.align(ref, atoms_map=True, verbose=0)[0]
        if kind == "orient_molecule":
            return m.orient_molecule()
        if kind == "from_data_orient":
            return Molecule.from_data(m.dict(), orient=True)
        if kind == "get_fragment":
            return m.get_fragment(list(rec[1]), list(rec[2]) if rec[2] else None, group_fragments=bool(rec[3]))
        if kind == "dict_roundtrip":               # carries validated=True: no re-validation, geometry untouched
            return Molecule(**m.dict())
        if kind == "revalidate_dict":
            d = m.dict()
            d.pop("validated", None)
            return Molecule(**d)
        if kind == "revalidate_json":
            d = json.loads(m.json())
            d.pop("validated", None)
            return Molecule(**d)
        if kind == "kwargs_fields":
            kw = {"symbols": [str(x) for x in m.symbols], "geometry": np.asarray(m.geometry).ravel().tolist(),
                  "masses": [float(x) for x in m.masses], "real": [bool(x) for x in m.real],
                  "fragments": [[int(i) for i in f] for f in m.fragments],
                  "fragment_charges": [float(x) for x in m.fragment_charges],
                  "fragment_multiplicities": [int(x) for x in m.fragment_multiplicities],
                  "molecular_charge": float(m.molecular_charge), "molecular_multiplicity": int(m.molecular_multiplicity)}
            if m.connectivity is not None:
                kw["connectivity"] = [tuple(b) for b in m.connectivity]
            return Molecule(**kw)
        if kind == "revalidate_noise":             # <= 1e-10 on every coordinate
            rr = _random.Random(rec[1])
            d = m.dict()
            d.pop("validated", None)
            d["geometry"] = [float(x) + rr.uniform(-1e-10, 1e-10) for x in np.asarray(m.geometry).ravel()]
            return Molecule(**d)
        if kind == "copy_update":                  # pydantic copy: no validation at all
            return m.copy(update=_update_of(m, rec[1]))
        if kind == "dict_update":                  # Molecule(**{**mol.dict(), ...}) (validated=True is carried along)
            return Molecule(**{**m.dict(), **_update_of(m, rec[1], for_dict=True)})
        if kind == "dict_update_revalidate":
            d = {**m.dict(), **_update_of(m, rec[1], for_dict=True)}
            d.pop("validated", None)
            return Molecule(**d)
        # bond lists that reach the object WITHOUT passing the validator (which would canonicalise them)
        if kind == "text_conn":                    # text cannot carry bonds: keyword override next to a psi4 text
            return Molecule.from_data(m.to_string("psi4", units="Bohr"), dtype="psi4", connectivity=[tuple(b) for b in rec[1]])
        if kind == "payload_conn":                 # a payload some other producer wrote (validated flag kept), bonds listed its own way
            enc = rec[1]
            if enc == "dict":
                return Molecule(**{**m.dict(), "connectivity": [tuple(b) for b in rec[2]]})
            if enc == "from_data_dict":
                return Molecule.from_data({**m.dict(), "connectivity": [tuple(b) for b in rec[2]]})
            if enc == "json":
                payload = json.loads(m.json())
                payload["connectivity"] = [list(b) for b in rec[2]]
                return Molecule.from_data(json.dumps(payload), dtype="json")
            if enc == "msgpack":
                from qcelemental.util import msgpackext_dumps, msgpackext_loads
                payload = msgpackext_loads(m.serialize("msgpack-ext"))
                payload["connectivity"] = [list(b) for b in rec[2]]
                return Molecule.from_data(msgpackext_dumps(payload), dtype="msgpack")
            raise KeyError(enc)
        if kind == "copy_conn":
            return m.copy(update={"connectivity_": [tuple(b) for b in rec[1]]})
    raise KeyError(kind)


UNVALIDATED_BOND_RECIPES = ("text_conn", "payload_conn", "copy_conn")


def case_bond_mode(case):
    """None: validated molecules (the whole oracle applies). "library": a bond list reached the object through
    from_data(text, connectivity=...), where the LIBRARY marks the molecule validated (whole oracle; known finding
    C11-text-keyword-bonds-unvalidated). "caller": the caller vouched for the payload (validated=True / copy(update)): only
    'hash equality and == coincide' is judged."""
    kinds = [r[0] for r in case.get("chain_a", []) + case.get("chain_b", [])]
    if any(k in ("payload_conn", "copy_conn") for k in kinds):
        return "caller"
    if "text_conn" in kinds:
        return "library"
    return None


def _canon_bonds(conn):
    return None if conn is None else sorted((min(int(a), int(b)), max(int(a), int(b)), float(o)) for a, b, o in conn)


def relisted(rng, conn):
    """the same bonds listed in another order / orientation (differs from the canonical listing whenever possible)"""
    c = [[int(a), int(b), float(o)] for a, b, o in conn]
    canon = [list(x) for x in _canon_bonds(c)]
    for _ in range(8):
        c2 = [list(b) for b in c]
        rng.shuffle(c2)
        c2 = [[b[1], b[0], b[2]] if rng.random() < 0.6 else b for b in c2]
        if c2 != canon:
            return c2
    return [[b[1], b[0], b[2]] for b in reversed(canon)]


def unvalidated_bond_cases(rng, spec, m0):
    """pairs in which at least one molecule holds a stored bond list that never went through the validator"""
    conn = m0.connectivity
    if not conn:
        return []
    out = []

    def recipe(listing):
        r = rng.random()
        if r < 0.4:
            return ["text_conn", listing]
        if r < 0.8:
            return ["payload_conn", rng.choice(["dict", "from_data_dict", "json", "msgpack"]), listing]
        return ["copy_conn", listing]
    l1, l2 = relisted(rng, conn), relisted(rng, conn)
    changed = [list(b) for b in l2]
    kk = rng.randrange(len(changed))
    changed[kk][2] = rng.choice([o for o in ORDERS if o != changed[kk][2]])
    # validated listing against the same bonds re-listed without validation
    ra = recipe(l1)
    out.append(("unvalidated_bonds:" + ra[0] + ":relisted", {"a": spec, "chain_b": [ra]}))
    # two unvalidated listings of the same bonds; and one with a changed bond order
    ra, rb = recipe(l1), recipe(l2)
    out.append(("unvalidated_bonds:" + ra[0] + "+" + rb[0] + ":relisted", {"a": spec, "chain_a": [ra], "chain_b": [rb]}))
    rb = recipe(changed)
    out.append(("unvalidated_bonds:" + rb[0] + ":bond_order", {"a": spec, "chain_a": [recipe(l1)], "chain_b": [rb]}))
    return out


def _update_of(m, upd, for_dict=False):
    """upd: ['name', text] | ['identifiers', dict] | ['geometry', k, delta] | ['symbol', k, sym] | ['real', k] |
    ['charge', delta] | ['multiplicity', delta]"""
    from qcelemental.models.molecule import Identifiers
    what = upd[0]
    if what == "name":
        return {"name": upd[1]}
    if what == "identifiers":
        return {"identifiers": dict(upd[1]) if for_dict else Identifiers(**upd[1])}
    if what == "geometry":
        g = np.array(m.geometry, dtype=float).reshape(-1, 3).copy()
        g.ravel()[upd[1]] += upd[2]
        return {"geometry": g}
    if what == "symbol":
        sy = [str(x) for x in m.symbols]
        sy[upd[1]] = upd[2]
        return {"symbols": np.array(sy)}
    if what == "real":
        r = np.array([bool(x) for x in m.real])
        r[upd[1]] = not r[upd[1]]
        return {"real": r} if for_dict else {"real_": r}
    if what == "charge":
        c = float(m.molecular_charge) + upd[1]
        fc = [float(x) for x in m.fragment_charges]
        fc[0] += upd[1]
        return {"molecular_charge": c, "fragment_charges": fc} if for_dict else {"molecular_charge": c, "fragment_charges_": fc}
    if what == "multiplicity":
        mm = int(m.molecular_multiplicity) + upd[1]
        fm = [int(x) for x in m.fragment_multiplicities]
        fm[0] += upd[1]
        return {"molecular_multiplicity": mm, "fragment_multiplicities": fm} if for_dict else {"molecular_multiplicity": mm, "fragment_multiplicities_": fm}
    raise KeyError(what)


OVERRIDE_SOURCES = ["psi4_bohr", "psi4_angstrom", "numpy", "dict", "dict_from_text"]
OVERRIDE_CORPUS = [
    # odd electron count after the override; more than one fragment; totals given alone and together
    ({"symbols": ["O", "H", "H"], "geometry": [0, 0, 0, 0, 1.5, 1.1, 0, -1.5, 1.1]}, "psi4_bohr", {"molecular_charge": 1.0}),
    ({"symbols": ["O", "H", "H"], "geometry": [0, 0, 0, 0, 1.5, 1.1, 0, -1.5, 1.1]}, "dict", {"molecular_charge": 1.0, "molecular_multiplicity": 1}),
    ({"symbols": ["O", "H", "H"], "geometry": [0, 0, 0, 0, 1.5, 1.1, 0, -1.5, 1.1]}, "numpy", {"molecular_multiplicity": 3}),
    ({"symbols": ["He", "Ne", "H", "H"], "geometry": [0, 0, 0, 0, 0, 4, 3, 0, 0, 3, 0, 1.4], "fragments": [[0, 1], [2, 3]]}, "numpy", {"molecular_charge": 1.0}),
    ({"symbols": ["He", "Ne", "H", "H"], "geometry": [0, 0, 0, 0, 0, 4, 3, 0, 0, 3, 0, 1.4], "fragments": [[0], [1], [2, 3]]}, "psi4_angstrom",
     {"molecular_charge": -1.0, "molecular_multiplicity": 2}),
    ({"symbols": ["Li", "H"], "geometry": [0, 0, 0, 0, 0, 3], "fragments": [[0], [1]]}, "dict_from_text", {"molecular_multiplicity": 3}),
    ({"symbols": ["Li", "H"], "geometry": [0, 0, 0, 0, 0, 3], "fragments": [[0], [1]], "fragment_charges": [1.0, -1.0]}, "dict", {"molecular_charge": 2.0}),
]


def _override_source(m, source):
    """what from_data is given: psi4 text (Bohr / Angstrom), a numpy array (Z, x, y, z) with `units` / `frags`, or a record that
    carries validated=True (the molecule's own dict(); the dict of the molecule read from text) -> (data, dtype, extra keywords)"""
    from qcelemental.models import Molecule
    if source == "psi4_bohr":
        return m.to_string("psi4", units="Bohr"), "psi4", {}
    if source == "psi4_angstrom":
        return m.to_string("psi4", units="Angstrom"), "psi4", {}
    if source == "numpy":
        g = np.asarray(m.geometry, dtype=float).reshape(-1, 3)
        arr = np.column_stack([np.asarray(m.atomic_numbers, dtype=float), g])
        seps = list(itertools.accumulate(len(f) for f in m.fragments))[:-1]
        return arr, None, {"units": "Bohr", "frags": [int(x) for x in seps]}
    if source == "dict":
        return m.dict(), None, {}
    if source == "dict_from_text":
        return Molecule.from_data(m.to_string("psi4", units="Bohr"), dtype="psi4").dict(), None, {}
    raise KeyError(source)


def judge_override(case):
    """route independence under total-charge / total-multiplicity keyword overrides: from_data(<already validated input>, molecular_charge=q
    and/or molecular_multiplicity=m) is a REQUEST (atoms, fragments as the input gives them; the totals as given; everything else
    about charge and spin to be derived) and must be answered like the same request made through Molecule(**kwargs): refused by both
    or accepted by both with the same hash (and ==). The keyword route is fed the atoms exactly as from_data(<input>) without
    overrides delivers them, so text precision plays no role. case: {"a": spec, "override": {"source": s, "kw": {...}}}.
    Returns (observed, failure text or None, applicable?)"""
    from qcelemental.exceptions import ValidationError
    from qcelemental.models import Molecule
    source, kw = case["override"]["source"], dict(case["override"]["kw"])
    m0 = build(case["a"])
    with contextlib.redirect_stdout(io.StringIO()):
        data, dtype, extra = _override_source(m0, source)
        plain = Molecule.from_data(copy.deepcopy(data), dtype=dtype, **extra)         # the input as the library reads it
        req = {"symbols": [str(x) for x in plain.symbols], "geometry": np.asarray(plain.geometry).ravel().tolist(),
               "masses": [float(x) for x in plain.masses], "real": [bool(x) for x in plain.real],
               "fragments": [[int(i) for i in f] for f in plain.fragments]}
        if plain.connectivity is not None:
            req["connectivity"] = [tuple(b) for b in plain.connectivity]
        req.update(kw)
        try:
            ma, ea = Molecule(**req), None
        except ValidationError as e:
            ma, ea = None, "Validation"
        try:
            mb, eb = Molecule.from_data(copy.deepcopy(data), dtype=dtype, **extra, **kw), None
        except Exception as e:
            mb, eb = None, ekind(e)
    obs = {"keyword_route": ea or "accepted", "from_data_route": eb or "accepted", "request": {k: v for k, v in req.items() if k != "geometry"}}
    if ma is None and mb is None:
        return obs, (None if eb == "Validation" else f"from_data with keyword overrides raised {eb} where Molecule(**kwargs) raises ValidationError"), True
    if ma is None or mb is None:
        if mb is not None:
            obs["from_data_result"] = {"molecular_charge": float(mb.molecular_charge), "molecular_multiplicity": mb.molecular_multiplicity,
                                       "fragment_charges": [float(x) for x in mb.fragment_charges], "fragment_multiplicities": list(mb.fragment_multiplicities)}
        return obs, ("the same request is refused by Molecule(**kwargs) (charge / multiplicity do not fit the electrons) but accepted by "
                     "from_data(<validated input>, <total charge / multiplicity keywords>)" if ma is None else
                     "the same request is accepted by Molecule(**kwargs) but refused by from_data(<validated input>, <total charge / multiplicity keywords>)"), True
    pobs, bad, _ = judge_pair(ma, mb, with_dict=False)
    obs.update(pobs)
    for nm, m in (("keyword_result", ma), ("from_data_result", mb)):
        obs[nm] = {"molecular_charge": float(m.molecular_charge), "molecular_multiplicity": m.molecular_multiplicity,
                   "fragment_charges": [float(x) for x in m.fragment_charges], "fragment_multiplicities": list(m.fragment_multiplicities)}
    if bad:
        return obs, bad, True
    nfr = len(mb.fragments)
    if len(mb.fragment_charges) != nfr or len(mb.fragment_multiplicities) != nfr:
        return obs, f"from_data with keyword overrides returned {len(mb.fragment_charges)} fragment charges / {len(mb.fragment_multiplicities)} multiplicities for {nfr} fragments", True
    if not obs["same_hash"]:
        return obs, ("the hash depends on the route: the same atoms, fragments and total charge / multiplicity request give different molecules "
                     "through Molecule(**kwargs) and through from_data(<validated input>, <keywords>)"), True
    return obs, None, True


def override_cases(rng, spec, m0):
    """one or two (source, total-charge / total-multiplicity keywords) requests on a generated molecule"""
    out = []
    for _ in range(rng.choice([1, 1, 2])):
        r = rng.random()
        kw = {}
        if r < 0.45 or r >= 0.75:
            kw["molecular_charge"] = float(rng.choice([1, -1, 1, -1, 2, 0, -2]))
        if r >= 0.45:
            kw["molecular_multiplicity"] = rng.choice([1, 2, 2, 3, 3, 4])
        out.append({"a": spec, "override": {"source": rng.choice(OVERRIDE_SOURCES), "kw": kw}})
    return out


def fractional_charge_cases(rng, spec, m0):
    """(label, intended, a, b): fractional total / fragment charges (the constructor accepts them) that differ by 2..4 rounding units
    inside one 1e-3 bin, far from a rounding boundary — the hash resolves 1e-4 on charges — and by less than the rounding unit"""
    base = {k: v for k, v in spec.items() if k not in ("molecular_charge", "fragment_charges", "molecular_multiplicity", "fragment_multiplicities")}
    c0 = rng.choice([0.3, -0.3, 0.7, -0.7, 1.3, 0.1, -1.6, 0.5, 2.2])
    d = rng.choice([2e-4, 3e-4, 4e-4, -2e-4, -3e-4, -4e-4])
    out = [("charge_frac_2to4e-4", "different", dict(base, molecular_charge=c0), dict(base, molecular_charge=round(c0 + d, 4))),
           ("charge_frac_noise", "equal", dict(base, molecular_charge=c0), dict(base, molecular_charge=c0 + rng.choice([2e-5, -3e-5, 1e-6])))]
    nfr = len(m0.fragments)
    if nfr > 1 and "fragments" in base:
        i, j = rng.sample(range(nfr), 2)
        fa, fb = [0.0] * nfr, [0.0] * nfr
        fa[i], fa[j] = c0, -c0
        fb[i], fb[j] = round(c0 + d, 4), -round(c0 + d, 4)
        out.append(("fragment_charge_frac_2to4e-4", "different", dict(base, fragment_charges=fa), dict(base, fragment_charges=fb)))
    return out


def build_pair(case):
    ma = build(case["a"])
    for rec in case.get("chain_a", []):
        ma = apply_recipe(ma, rec)
    if "route" in case:
        mb = via_route(ma, case["route"], tag="replay")
    elif "chain_b" in case:
        mb = ma
        for rec in case["chain_b"]:
            mb = apply_recipe(mb, rec)
    else:
        mb = build(case["b"])
    return ma, mb


def case_geoms(case):
    ga = [float(x) for x in case["a"]["geometry"]] if not case.get("chain_a") else None
    gb = [float(x) for x in case["b"]["geometry"]] if "b" in case else None
    return ga, gb


def case_tol(case):
    return 0.03 if any(r[0] == "revalidate_noise" for r in case.get("chain_b", [])) else 1e-3


def rand_rotation(rng):
    import math as _m
    a, b, c = (rng.uniform(0, 2 * _m.pi) for _ in range(3))
    Rz = np.array([[_m.cos(a), -_m.sin(a), 0], [_m.sin(a), _m.cos(a), 0], [0, 0, 1]])
    Ry = np.array([[_m.cos(b), 0, _m.sin(b)], [0, 1, 0], [-_m.sin(b), 0, _m.cos(b)]])
    Rx = np.array([[1, 0, 0], [0, _m.cos(c), -_m.sin(c)], [0, _m.sin(c), _m.cos(c)]])
    return (Rz @ Ry @ Rx).tolist()


RATIONAL_ROT = [[0.0, -1.0, 0.0], [0.6, 0.0, 0.8], [0.8, 0.0, -0.6]]


def derived_cases(rng, spec, m0):
    """(stream, case) pairs on molecules produced by the library itself (align / scramble build with
    geometry_noise=13 and so store digits below 1e-8) and on molecules carrying identifiers.molecule_hash"""
    out = []
    nat = len(spec["symbols"])
    shift = [round(rng.uniform(-2, 2), 3) for _ in range(3)]
    chains = [[["scramble", shift, RATIONAL_ROT, False]], [["scramble", shift, rand_rotation(rng), rng.random() < 0.3]],
              [["orient_molecule"]], [["from_data_orient"]]]
    if nat > 1:
        chains.append([["align_to_scrambled", shift, rand_rotation(rng) if rng.random() < 0.5 else RATIONAL_ROT]])
    nfr = len(m0.fragments)
    if nfr > 1:
        chains.append([["get_fragment", [0], [1] if rng.random() < 0.5 else [], True]])
    else:
        chains.append([["get_fragment", [0], [], True]])
    sp13 = dict(spec, geometry_noise=13)
    for ch in chains:
        for reval in (["revalidate_dict"], ["revalidate_json"], ["kwargs_fields"], ["dict_roundtrip"], ["revalidate_noise", rng.randrange(10 ** 6)]):
            if rng.random() < 0.22:
                out.append(("derived:" + ch[0][0] + ":" + reval[0], {"a": spec, "chain_a": ch, "chain_b": [reval]}))
    for reval in rng.sample([["revalidate_dict"], ["revalidate_json"], ["kwargs_fields"], ["revalidate_noise", rng.randrange(10 ** 6)]], 2):
        out.append(("derived:geometry_noise_13:" + reval[0], {"a": sp13, "chain_a": [["dict_roundtrip"]], "chain_b": [reval]}))
    # identifiers.molecule_hash (database layers store it; it must never be what get_hash answers with)
    h0 = m0.get_hash()
    for ident in ({"molecule_hash": h0}, {"molecule_hash": "0" * 40, "smiles": "C"}, {"molecule_hash": "junk"}):
        spi = dict(spec, identifiers=ident)
        k = rng.randrange(3 * nat)
        ka = rng.randrange(nat)
        edits = [["geometry", k, rng.choice([1e-6, -1e-6])], ["symbol", ka, SAME_PARITY[spec["symbols"][ka].title()]],
                 ["charge", 2.0], ["multiplicity", 2], ["name", "renamed"], ["identifiers", {"molecule_hash": "other", "inchi": "x"}]]
        if nat > 1:
            edits.append(["real", ka])
        for upd in edits:
            for how in ("copy_update", "dict_update", "dict_update_revalidate"):
                if rng.random() < 0.1:
                    out.append(("identifiers:" + how + ":" + upd[0], {"a": spi, "chain_b": [[how, upd]]}))
                elif rng.random() < 0.05:
                    # ... and the same on an object that has already been hashed / compared (state left behind by a call)
                    out.append(("identifiers_hashed_first:" + how + ":" + upd[0], {"a": spi, "chain_a": [["touch_hash"]], "chain_b": [[how, upd]]}))
    # history on a plain molecule: hash it, then derive an edited molecule from the live object
    k = rng.randrange(3 * nat)
    ka = rng.randrange(nat)
    edits = [["geometry", k, rng.choice([1e-6, -1e-6])], ["symbol", ka, SAME_PARITY[spec["symbols"][ka].title()]],
             ["charge", 2.0], ["multiplicity", 2], ["name", "renamed"]]
    if nat > 1:
        edits.append(["real", ka])
    for upd in edits:
        for how in ("copy_update", "dict_update", "dict_update_revalidate"):
            if rng.random() < 0.12:
                out.append(("history:" + how + ":" + upd[0], {"a": spec, "chain_a": [["touch_hash"]], "chain_b": [[how, upd]]}))
    return out


# ------------------------------------------------------------------------------------------------

def prep_cases(ctx):
    """float_prep called directly on single numbers: (array branch?, n, x)"""
    rng = ctx.rng
    inf = info(ctx)
    ns = sorted(set(inf["consts"].values())) if inf else [4, 6, 8]
    vals = [0.0, -0.0, 1e-9, -1e-9, 4.9e-9, -4.9e-9, 5.1e-9, 1e-7, -1e-7, 5e-7, -5e-7, 5.1e-7, 5.2e-7, -5.2e-7, 6e-7,
            1.2e-5, 1.3e-5, -1.25e-5, 3e-4, 3.3e-4, -3.1e-4, 0.0002, 0.0004, 1.0, -1.0, 2.5, 0.12345678, 1.00782503223,
            15.99491461957, 123.456, -0.00004, 0.00006, -0.4999e-8, 0.5001e-8, 99.99999999, 4.002603254130]
    n_rand = 3000 if ctx.thorough else 600
    for _ in range(n_rand):
        mag = rng.choice([1e-9, 1e-8, 1e-7, 1e-6, 1e-5, 1e-4, 1e-3, 1e-2, 1, 10, 100])
        vals.append(rng.uniform(-1, 1) * mag)
        vals.append(round(rng.uniform(-5, 5), rng.randint(0, 10)))
    for n in ns:
        for k in list(range(-(zone_limit(n) + 3), zone_limit(n) + 4)):
            vals.append(k / 10 ** n)
            vals.append((k + 0.3) / 10 ** n)
    out = []
    for n in ns:
        ties = []
        for _ in range(400 if ctx.thorough else 120):
            k = rng.randrange(-10 ** (n + 1), 10 ** (n + 1))
            ties.append((k + 0.5) / 10 ** n)                         # written as decimal ties
            ties.append(float(np.nextafter((k + 0.5) / 10 ** n, rng.choice([-np.inf, np.inf]))))
        for x in vals + ties:
            out.append((True, n, float(x)))
            out.append((False, n, float(x)))
    return out


def run_prep(arr, n, x):
    mm = _mod()
    if arr:
        r = mm.float_prep(np.array([x]), n)
        v = float(r[0])
    else:
        v = mm.float_prep(float(x), n)
    if v == 0.0 and math.copysign(1.0, v) < 0:
        return "negzero"
    d = Decimal(repr(float(v))).scaleb(n)
    if d != d.to_integral_value():
        return "unrounded:" + repr(v)
    return int(d)


def prep_oracle(arr, n, x, k):
    """float_prep(x, n) = k·10^-n must be the multiple of 10^-n nearest to x (ties to even; the array branch is only judged
    away from ties, where numpy's binary64 product decides), except inside the array branch's zero-flush zone (known finding)"""
    if not isinstance(k, int):
        return "float_prep returned a negative zero or an unrounded value"
    if arr and near_tie(x, n):
        return None
    want = _q(x, n)
    if k == want:
        return None
    if arr and abs(want) <= zone_limit(n) and k == 0:
        return "zone"
    return "float_prep does not return the multiple of 10^-n nearest to its argument"


def correspond(ctx):
    from qcelemental.exceptions import ValidationError
    corr = Corr()
    corr.rule = ("validated molecules (1-6 atoms, ghosts, isotopic masses, 1-3 fragments, charged/open-shell, bonds) built from "
                 "keyword arguments, re-built through 12 routes and through equal-/different-intended perturbations; a case is "
                 "non-trivial if the implementation accepted the molecule; distinct = distinct (state of the object, hashed text)")
    inf = info(ctx)
    use_model = inf is not None
    if not use_model:
        corr.notes.append("the translator refused the source: the model was not evaluated, only the oracle ran")
    rng = ctx.rng
    nbase = 1000 if ctx.thorough else 260
    canon_terms, canon_meta, seen_states = [], [], set()
    pair_terms, pair_meta = [], []
    skipped_tie = 0

    def add_canon(stream, m, case):
        st = mol_state(m)
        if not use_model:
            return st
        if not state_ok_for_model(st):
            corr.hit("outside_model_domain")
            return None
        h, text = hash_and_text(m)
        key = json.dumps(st, sort_keys=True, default=str)
        if key in seen_states:
            return st
        seen_states.add(key)
        if any_near_tie(m):
            corr.hit("model_skipped_near_tie")      # numpy's around is only modelled away from rounding boundaries
            return st
        try:
            toks = tokens_of_text(text, inf)
        except Exception as e:
            corr.errors.append(f"cannot tokenise hashed text {text!r}: {e}")
            return st
        canon_terms.append(f"({cmol(st)}, {cenv(st['symbols'])}, {toks})")
        canon_meta.append((stream, case, text))
        corr.count("canon:" + stream.split(":")[0])
        corr.nontriv([key, text])
        if re.search(r"-0\.0(?![0-9])", text):
            corr.hit("negative_zero_in_hashed_text")
        return st

    def add_pair(stream, case, ma, mb, intended=None):
        nonlocal skipped_tie
        with_dict = rng.random() < 0.2 or stream.startswith("corpus") or stream.startswith("unvalidated_bonds")
        obs, bad, skipped = judge_pair(ma, mb, *case_geoms(case), tol=case_tol(case), with_dict=with_dict, bond_mode=case_bond_mode(case))
        if with_dict:
            corr.count("oracle:eq_against_dict")
        corr.count("oracle:" + stream.split(":")[0])
        corr.hit("pair_same_hash" if obs["same_hash"] else "pair_different_hash")
        if skipped:
            skipped_tie += 1
            corr.hit("oracle_skipped_near_tie")
        if bad:
            fstream = stream if not stream.startswith("unvalidated_bonds") else ("unvalidated_bonds:corpus" if ":corpus:" in stream else "unvalidated_bonds")
            corr.failures.append({"stream": "oracle:" + fstream, "case": case, "what": bad, "observed": obs})
        elif intended and not skipped and (intended == "equal") != obs["same_hash"]:
            # the generator meant something else; only count it (the oracle's verdict stands)
            corr.hit("intent_mismatch:" + stream)
        # the same pair through the model (equality classes)
        sa, sb = mol_state(ma), mol_state(mb)
        if use_model and state_ok_for_model(sa) and state_ok_for_model(sb) and not skipped and (rng.random() < pair_frac or stream.startswith("corpus") or stream.startswith("zone")):
            pair_terms.append(f"({cmol(sa)}, {cmol(sb)}, {cenv(sa['symbols'] + sb['symbols'])}, {cbool(obs['same_hash'])})")
            pair_meta.append((stream, case, obs))
            corr.count("pairs:" + stream.split(":")[0])

    pair_frac = 0.3 if ctx.thorough else 0.1
    # corpus first; the history cases before the pairs (a failure that depends on state left behind by earlier calls is only
    # reproducible from a case that recreates that state)
    for name, a, b in CORPUS:
        if name in ("corpus_charge_vs_mult", "corpus_docstring"):
            case = {"a": a, "b": b, "sequential": True, "churn": 80, "instances": 40}
            obs, bad = judge_sequential(case)
            corr.count("oracle:sequential")
            if bad:
                corr.failures.append({"stream": "oracle:sequential:" + name, "case": case, "what": bad, "observed": obs})
    def add_mutation(case, corpus=False):
        try:
            mobs, mbad, applicable = judge_mutation(case)
        except Exception as e:
            corr.hit(f"mutation_unavailable:{case['mutate'][0]}:{case['mutate'][1]}:{ekind(e)}")
            return
        if not applicable:
            corr.hit("mutation_nothing_to_modify:" + case["mutate"][0] + ":" + case["mutate"][1])
            return
        corr.count("oracle:mutation")
        corr.hit("mutation:" + case["mutate"][0] + ":" + case["mutate"][1])
        if mbad:
            corr.failures.append({"stream": "oracle:mutation:" + case["mutate"][0] + (":corpus" if corpus else ""), "case": case, "what": mbad, "observed": mobs})

    for mcase in MUTATION_CORPUS:
        add_mutation(mcase, corpus=True)
    for name, ucase in UNVALIDATED_CORPUS:
        try:
            ua, ub = build_pair(ucase)
        except Exception as e:
            corr.hit(f"derived_unavailable:{name}:{ekind(e)}")
            continue
        add_pair("unvalidated_bonds:corpus:" + name, ucase, ua, ub)
    def add_override(case, corpus=False):
        src = case["override"]["source"]
        try:
            oobs, obad, _ = judge_override(case)
        except Exception as e:
            corr.hit(f"override_unavailable:{src}:{ekind(e)}")
            return
        corr.count("oracle:route_override")
        corr.hit("route_override:" + src + ":" + "+".join(sorted(k.split("_")[1] for k in case["override"]["kw"])) + ":"
                 + ("both_refuse" if oobs["keyword_route"] != "accepted" and oobs["from_data_route"] != "accepted" else "answered"))
        if oobs.get("keyword_result") and len(oobs["keyword_result"]["fragment_charges"]) > 1:
            corr.hit("route_override_accepted_multi_fragment")
        if oobs.get("keyword_result") and oobs["keyword_result"]["molecular_multiplicity"] % 2 == 0:
            corr.hit("route_override_accepted_odd_electrons")
        if obad:
            corr.failures.append({"stream": "oracle:route_override:" + src + (":corpus" if corpus else ""), "case": case, "what": obad, "observed": oobs})

    for oa, osrc, okw in OVERRIDE_CORPUS:
        add_override({"a": oa, "override": {"source": osrc, "kw": okw}}, corpus=True)
    for name, a, b in CORPUS:
        case = {"a": a, "b": b}
        ma, mb = build(a), build(b)
        add_canon("corpus", ma, {"a": a})
        add_canon("corpus", mb, {"a": b})
        add_pair("corpus:" + name, case, ma, mb)
    for a, b in ZONE_CASES:
        case = {"a": a, "b": b}
        ma, mb = build(a), build(b)
        add_canon("zone", ma, {"a": a})
        add_canon("zone", mb, {"a": b})
        add_pair("zone", case, ma, mb)

    nb = 0
    attempts = 0
    while nb < nbase and attempts < nbase * 6:
        attempts += 1
        spec = gen_spec(rng)
        try:
            m0 = build(spec)
        except ValidationError:
            corr.hit("base_rejected_ValidationError")
            continue
        except Exception as e:
            corr.hit("base_rejected_" + type(e).__name__)
            continue
        nb += 1
        add_canon("base", m0, {"a": spec})
        if nb <= 3:
            corr.sample({"spec": spec, "hashed_text": hash_and_text(m0)[1], "hash": m0.get_hash()})
        wfk = _q(m0.molecular_charge, NOISE["charges"]) == sum(_q(x, NOISE["charges"]) for x in m0.fragment_charges)
        corr.hit("wf_charge_is_sum_of_fragment_charges" if wfk else "wf_violated")
        # determinism / history: hashing twice, and after other calls
        if m0.get_hash() != m0.get_hash():
            corr.failures.append({"stream": "oracle:determinism", "case": {"a": spec, "b": spec}, "what": "get_hash is not deterministic", "observed": {}})
        for route in ROUTES:
            try:
                mr = via_route(m0, route, tag=f"s{ctx.seed}_{nb}")
            except Exception as e:
                corr.hit(f"route_unavailable:{route}:{ekind(e)}")
                continue
            add_canon("route:" + route, mr, {"a": spec, "route": route})
            add_pair("route:" + route, {"a": spec, "route": route}, m0, mr)
        # molecules derived by the library itself, and molecules carrying identifiers.molecule_hash
        for dstream, dcase in derived_cases(rng, spec, m0):
            try:
                da, db = build_pair(dcase)
            except Exception as e:
                corr.hit(f"derived_unavailable:{dstream.split(':')[1]}:{ekind(e)}")
                continue
            if dstream.startswith("derived") and rng.random() < 0.4:
                add_canon(dstream, da, dcase)
            add_pair(dstream, dcase, da, db)
        for dstream, dcase in unvalidated_bond_cases(rng, spec, m0):
            try:
                da, db = build_pair(dcase)
            except Exception as e:
                corr.hit(f"derived_unavailable:{dstream.split(':')[1]}:{ekind(e)}")
                continue
            add_pair(dstream, dcase, da, db)
        for mut in mutation_cases(rng, spec, m0):
            add_mutation({"a": spec, "mutate": mut})
        for ocase in override_cases(rng, spec, m0):
            add_override(ocase)
        for label, intended, fsa, fsb in fractional_charge_cases(rng, spec, m0):
            try:
                fma, fmb = build(fsa), build(fsb)
            except Exception as e:
                corr.hit(f"perturbation_rejected:{label}:{ekind(e)}")
                continue
            add_canon("perturbed:" + label, fmb, {"a": fsb})
            add_pair("perturbed:" + label, {"a": fsa, "b": fsb}, fma, fmb, intended)
        seq_done = False
        for label, intended, sp in perturbations(rng, spec, m0):
            if label in ("coord_1e-6", "symbol", "noise") and not seq_done and rng.random() < 0.4:
                seq_done = True
                scase = {"a": spec, "b": sp, "sequential": True}
                try:
                    sobs, sbad = judge_sequential(scase)
                    corr.count("oracle:sequential")
                    if sbad:
                        corr.failures.append({"stream": "oracle:sequential:" + label, "case": scase, "what": sbad, "observed": sobs})
                except Exception as e:
                    corr.hit(f"perturbation_rejected:{label}:{ekind(e)}")
            try:
                mp = build(sp)
            except Exception as e:
                corr.hit(f"perturbation_rejected:{label}:{ekind(e)}")
                continue
            add_canon("perturbed:" + label, mp, {"a": sp})
            add_pair("perturbed:" + label, {"a": spec, "b": sp}, m0, mp, intended)
            if label in ("coord_1e-6", "noise", "bond_listing") and rng.random() < 0.2:
                # a perturbed molecule through a route is still the same molecule
                route = rng.choice(ROUTES[:6])
                try:
                    mpr = via_route(mp, route, tag=f"s{ctx.seed}_{nb}p")
                    add_pair("perturbed_then_route", {"a": sp, "route": route}, mp, mpr)
                except Exception as e:
                    corr.hit(f"route_unavailable:{route}:{ekind(e)}")
    shutil.rmtree(FILEDIR, ignore_errors=True)
    ctx.log(f"{nb} base molecules, {len(canon_terms)} distinct states for the model, {len(pair_terms)} pairs for the model, "
            f"{sum(v for k, v in corr.streams.items() if k.startswith('oracle:'))} oracle pairs ({skipped_tie} skipped near a rounding boundary)")

    # float_prep on single numbers
    pterms, pmeta = [], []
    p64terms, p64meta, tie_terms, fl_terms, fl_meta = [], [], [], [], []
    for arr, n, x in prep_cases(ctx):
        if arr and use_model and math.isfinite(x):
            # numpy's algorithm at the binary64 level: every value, ties and near-ties included
            try:
                k64 = run_prep(True, n, x)
                if isinstance(k64, int):
                    p64terms.append(f"({cz(n)}, {cfl(x)}, {cz(k64)})")
                    p64meta.append((n, x, k64))
                    corr.count("float_prep_binary64")
                    if near_tie(x, n):
                        tie_terms.append(f"(true, {cz(n)}, {cfl(x)}, {cz(k64)})")
                y = float(x) * 10.0 ** n
                if x != 0 and math.isfinite(y):
                    fl_terms.append(f"({cqq(x)}, {cz(n)}, {cqq(y)})")
                    fl_meta.append((x, n, y))
                    corr.count("binary64_product")
            except Exception:
                pass
        if arr and near_tie(x, n):
            corr.hit("prep_skipped_near_tie")
            continue
        try:
            k = run_prep(arr, n, x)
        except Exception as e:
            corr.errors.append(f"float_prep({x!r}, {n}) raised {e!r}")
            continue
        corr.count("float_prep")
        if not isinstance(k, int):
            corr.failures.append({"stream": "oracle:float_prep", "case": {"prep": [arr, n, x]},
                                  "what": "float_prep returned a negative zero or an unrounded value", "observed": k})
            continue
        bad = prep_oracle(arr, n, x, k)
        if bad == "zone":
            corr.hit("float_prep_value_in_zero_flush_zone")
        elif bad:
            corr.failures.append({"stream": "oracle:float_prep", "case": {"prep": [arr, n, x]}, "what": bad,
                                  "observed": {"float_prep": k, "nearest_multiple": _q(x, n)}})
        corr.hit("float_prep_" + ("array" if arr else "scalar") + ("_to_zero" if k == 0 else "_nonzero"))
        if use_model:
            pterms.append(f"({cbool(arr)}, {cz(n)}, {cfl(x)}, {cz(k)})")
        pmeta.append((arr, n, x, k))

    # bonds: the stored connectivity against validate_bonds
    bterms, bmeta = [], []
    nbonds = 1500 if ctx.thorough else 300
    from qcelemental.models import Molecule
    for _ in range(nbonds):
        nat = 4
        conn = [[rng.randrange(nat) if rng.random() < 0.97 else -1, rng.randrange(nat), rng.choice(ORDERS + [5.5, -0.5] if rng.random() < 0.1 else ORDERS)]
                for _b in range(rng.randint(0, 6))]
        conn = [b for b in conn if b[0] != b[1]]
        try:
            mol = Molecule(symbols=["C", "H", "H", "H"], geometry=[0, 0, 0, 2, 0, 0, 0, 2, 0, 0, 0, 2], connectivity=[tuple(b) for b in conn])
            stored = mol.__dict__.get("connectivity_")
            out = "(Ok %s)" % clist([(int(a), int(b), float(o)) for a, b, o in stored], cbond)
            corr.hit("bonds_ok")
        except ValidationError:
            out = "(Err Validation)"
            corr.hit("bonds_ValidationError")
        except Exception as e:
            corr.hit("bonds_other_" + type(e).__name__)
            continue
        corr.count("bonds")
        if use_model:
            bterms.append(f"({clist(conn, cbond)}, {out})")
        bmeta.append(conn)

    # evaluate the model
    bad, errors = coqrun.eval_bad_indices("C11canon", REQ, "", "check_canon", canon_terms, shard=120, ty="mol * list (string * fl) * list token")
    corr.errors.extend(f"canon shard {k}: {e}" for k, e in errors)
    for b in bad[:6]:
        stream, case, text = canon_meta[b]
        got, _ = coqrun.eval_terms("C11canon", REQ, "", [f"let '(m, e, x) := {canon_terms[b]} in canon (env_mass e) m"])
        corr.disagreements.append({"stream": "canon:" + stream, "case": case, "impl": text, "model": got})
    bad, errors = coqrun.eval_bad_indices("C11pair", REQ, "", "check_pair", pair_terms, shard=120, ty="mol * mol * list (string * fl) * bool")
    corr.errors.extend(f"pair shard {k}: {e}" for k, e in errors)
    for b in bad[:6]:
        stream, case, obs = pair_meta[b]
        corr.disagreements.append({"stream": "pairs:" + stream, "case": case, "impl": obs, "model": "the opposite verdict on equality of the hashed texts"})
    bad, errors = coqrun.eval_bad_indices("C11prep", REQ, "", "check_prep", pterms, shard=1500, ty="bool * Z * fl * Z")
    corr.errors.extend(f"prep shard {k}: {e}" for k, e in errors)
    for b in bad[:6]:
        arr, n, x, k = pmeta[b]
        got, _ = coqrun.eval_terms("C11prep", REQ, "", [f"{'prep_arr' if arr else 'prep_scalar'} {cz(n)} {cfl(x)}"])
        corr.disagreements.append({"stream": "float_prep", "case": {"prep": [arr, n, x]}, "impl": k, "model": got})
    bad, errors = coqrun.eval_bad_indices("C11prep64", REQ, "", "check_prep64", p64terms, shard=1500, ty="Z * fl * Z")
    corr.errors.extend(f"prep64 shard {k}: {e}" for k, e in errors)
    for b in bad[:6]:
        n, x, k = p64meta[b]
        got, _ = coqrun.eval_terms("C11prep64", REQ, "", [f"prep_arr64 {cz(n)} {cfl(x)}"])
        corr.disagreements.append({"stream": "float_prep_binary64", "case": {"prep": [True, n, x]}, "impl": k, "model": got})
    bad, errors = coqrun.eval_bad_indices("C11fl64", REQ + ["QV.Common.HFBin64", "QV.Common.HFRound"], "", "check_fl64", fl_terms, shard=1500, ty="Q * Z * Q")
    corr.errors.extend(f"fl64 shard {k}: {e}" for k, e in errors)
    for b in bad[:6]:
        x, n, y = fl_meta[b]
        corr.disagreements.append({"stream": "binary64_product", "case": {"x": x, "n": n}, "impl": y, "model": "fl64 gives another double"})
    # how often numpy's rounding differs from exact rounding of the value (the characterised exceptional set): not a disagreement
    bad, errors = coqrun.eval_bad_indices("C11ties", REQ, "", "check_prep", tie_terms, shard=1500, ty="bool * Z * fl * Z")
    corr.errors.extend(f"ties shard {k}: {e}" for k, e in errors)
    corr.hit("near_tie_values_checked_at_binary64_level", len(tie_terms))
    corr.hit("near_tie_values_where_numpy_differs_from_exact_rounding", len(bad))
    bad, errors = coqrun.eval_bad_indices("C11bonds", REQ, "", "check_bonds", bterms, shard=500, ty="list bond * outcome (list bond)")
    corr.errors.extend(f"bonds shard {k}: {e}" for k, e in errors)
    for b in bad[:6]:
        got, _ = coqrun.eval_terms("C11bonds", REQ, "", [f"validate_bonds (fst {bterms[b]})"])
        corr.disagreements.append({"stream": "bonds", "case": {"bonds": bmeta[b]}, "impl": bterms[b], "model": got})
    corr.exhaustive = False
    corr.notes.append(f"oracle pairs skipped because a value lies within 1e-3 rounding units of a boundary: {skipped_tie}")
    return corr


def search(ctx, corr, reasons):
    """something broke (proof / translator / disagreement): look for a concrete failing input with the oracle —
    the corpus and every generated pair were already judged inside correspond; re-judge the disagreeing cases and a
    targeted set of bond listings."""
    found = []
    for d in corr.disagreements:
        case = d.get("case") or {}
        try:
            if "bonds" in case:
                conn = case["bonds"]
                a = {"symbols": ["C", "H", "H", "H"], "geometry": [0, 0, 0, 2, 0, 0, 0, 2, 0, 0, 0, 2], "connectivity": conn}
                b = dict(a, connectivity=[[x[1], x[0], x[2]] for x in reversed(conn)])
                case = {"a": a, "b": b}
            if "a" in case and ("b" in case or "route" in case or "chain_b" in case):
                ma, mb = build_pair(case)
                obs, bad, _ = judge_pair(ma, mb, *case_geoms(case), tol=case_tol(case), bond_mode=case_bond_mode(case))
                if bad:
                    found.append({"stream": "search", "case": case, "what": bad, "observed": obs})
        except Exception:
            continue
    rng = ctx.rng
    for _ in range(300):
        nb = rng.randint(2, 5)
        conn = [[rng.randrange(4), rng.randrange(4), rng.choice([1.0, 2.0, 1.5])] for _b in range(nb)]
        conn = [b for b in conn if b[0] != b[1]]
        if not conn:
            continue
        a = {"symbols": ["C", "H", "H", "H"], "geometry": [0, 0, 0, 2, 0, 0, 0, 2, 0, 0, 0, 2], "connectivity": conn}
        c2 = [list(b) for b in conn]
        rng.shuffle(c2)
        b = dict(a, connectivity=[[x[1], x[0], x[2]] if rng.random() < 0.5 else x for x in c2])
        try:
            ma, mb = build(a), build(b)
            obs, bad, _ = judge_pair(ma, mb)
            if bad:
                found.append({"stream": "search", "case": {"a": a, "b": b}, "what": bad, "observed": obs})
                break
        except Exception:
            continue
    return found


def replay(ctx, rp):
    case = rp["case"]
    if "prep" in case:
        arr, n, x = case["prep"]
        k = run_prep(arr, n, x)
        bad = prep_oracle(arr, n, x, k)
        return {"input": case, "implementation": k, "oracle": bad, "fails": bool(bad) and bad != "zone"}
    if case.get("sequential"):
        obs, bad = judge_sequential(case)
        return {"input": case, "implementation": obs, "oracle": bad, "fails": bool(bad)}
    def verdict(obs, bad):
        # a complaint that is exactly a recorded known finding is not a new failure (the check itself reports it as KNOWN-FINDING)
        known = [kid for kid, pred in KNOWN.items() if bad and kid != "C11-zero-flip-threshold" and pred({"case": case, "what": bad, "observed": obs})]
        out = {"input": case, "implementation": obs, "oracle": bad, "fails": bool(bad) and not known}
        if known:
            out["known_finding"] = known
        return out
    if "mutate" in case:
        obs, bad, _ = judge_mutation(case)
        return verdict(obs, bad)
    if "override" in case:
        obs, bad, _ = judge_override(case)
        return verdict(obs, bad)
    ma, mb = build_pair(case)
    obs, bad, skipped = judge_pair(ma, mb, *case_geoms(case), tol=case_tol(case), bond_mode=case_bond_mode(case))
    return verdict(obs, bad)


TRUSTED = [
    "hand-written model coq/Model/Hash.v of float_prep / the getters / get_hash / __eq__ and of the bond canonicalisation, tied by "
    "(a) the fail-closed translator harness/translate/hashconsts.py -> coq/Gen/HashConsts.v (rounding constants, hash_fields order, "
    "field -> float_prep mapping, zero-flush threshold, bond sort key, and the exact statement shapes of float_prep/get_hash/__eq__) and "
    "(b) differential execution: the model's token list against the exact text the implementation fed to hashlib.sha1 (observed by "
    "substituting the module's `hashlib` name during the call), equality classes on pairs, float_prep on single numbers, stored bonds",
    "SHA-1 is a parameter of the model, assumed injective (collision freedom is not proved); the theorems are about the hashed text",
    "numpy.around: the theorems are stated for exact round-half-even of the binary64 value (prep_arr); numpy computes rint(fl(x*10^n))/10^n. "
    "C11_np_around_exact proves the two agree unless fl(x*10^n) is a half-integer, for every fl that is monotone and exact on "
    "half-integers — those two IEEE-754 properties of the multiplication are hypotheses (not modelled bit by bit); for the noise clause the "
    "hypotheses are discharged for the executable fl64 (C11_fl64_error: error bound proved of the definition), so what remains trusted "
    "there is only fl64 = the machine's multiplication; both hypotheses are also discharged for fl64 itself on [-2^40, 2^40] "
    "(C11_fl64_keeps_half: it never crosses a half-integer), giving C11_np_around_exact_binary64 / C11_prep_arr64_exact / "
    "C11_np_around_differs_only_near_tie with no hypothesis on the rounding; the executable fl64 / "
    "prep_arr64 (numpy's algorithm) is compared with the machine on every value incl. ties and near-ties (streams float_prep_binary64, "
    "binary64_product). Molecule-level comparison and the oracle still exclude (and count) molecules with a value within 1e-3 units of a tie",
    "json.dumps / float repr are modelled at token level (TFlt k n = repr of the double nearest k*10^-n); periodictable.to_mass is an "
    "environment function (C01); pydantic coercions and from_schema/to_schema validation are not modelled (C04)",
]
ASSUMPTIONS = [
    "wf: the prepared total charge equals the sum of the prepared fragment charges (true of every validated molecule with integer "
    "charges; measured per run as branch hit wf_charge_is_sum_of_fragment_charges) — needed for canon_injective only",
    "values are finite binary64 numbers; symbols are ASCII",
]
TECHNIQUE = ("Coq proof over a hand-written Gallina model of the hashed text (unique readability of the json.dumps concatenation, "
             "round-half-even arithmetic on Q, sorting) + regenerated constants + differential correspondence on the hashed text and on equality classes")
DESIGN_REF = "DESIGN.md §6 C11"
LEVEL_TEXT = (
    "Machine-checked (Coq 8.16.1), for all molecules of the model: C11_canon_complete and C11_canon_injective (the text fed to SHA-1 is "
    "equal exactly when the molecules agree on the ten listed fields after float_prep; injectivity needs total charge = sum of fragment "
    "charges at the charge||multiplicity boundary, and C11_canon_injective_without_wf_refuted shows that cannot be dropped), "
    "C11_hash_eq_iff_agree (for any injective digest in place of SHA-1; __eq__ is hash equality), C11_independent_of_route (unset vs "
    "default-filled fields), C11_prerounding_invisible (the geometry stored by the constructor = float_prep of the input hashes like the raw "
    "input; C11_prep_idempotent), C11_independent_of_non_hash_fields, C11_noise_insensitive (|d|<=1e-10 away from a boundary, one number) and "
    "C11_noise_insensitive_molecule (noise, either sign of zero and sub-half-unit values on every coordinate at once leave the hashed text "
    "unchanged), C11_rounding_respects_value, C11_signed_zero_insensitive, C11_tiny_is_zero, C11_np_around_exact / _far (numpy's "
    "rint(fl(x*10^n)) equals the exact half-even rounding unless fl(x*10^n) is a half-integer) and C11_np_around_noise_insensitive (noise "
    "<= eps on a value eps + u*10^-n away from every boundary does not change numpy's result, which is the exact rounding) — for every fl "
    "that is monotone, exact on half-integers and within u of the exact product on [-B, B]; and with no hypothesis on the rounding left: "
    "C11_fl64_error (the executable binary64 rounding fl64 errs by at most 2^-13 on [-2^40, 2^40]) and C11_noise_insensitive_binary64 "
    "(float_prep computed by numpy's algorithm rint(fl64(x*10^n)) does not see noise <= 1e-10 away from a boundary and equals the exact "
    "model there), C11_fl64_keeps_half (fl64 never crosses a half-integer on [-2^40, 2^40]: the monotonicity / half-integer hypotheses "
    "of C11_np_around_exact hold of fl64 in the form the proof uses), C11_np_around_exact_binary64 and C11_prep_arr64_exact (numpy's "
    "algorithm on fl64 gives the exact half-even rounding unless the binary64 product is itself a half-integer), "
    "C11_np_around_differs_only_near_tie (it can differ only within 2^-13 units of a tie); C11_prep_arr64_agrees, C11_sensitive / _scalar / "
    "_text / _coordinate / _mass / _charge / _fragment_charge / _discrete (changes above the rounding unit change the text — outside "
    "float_prep's zero-flush zone, whose extent is C11_flush_zone_geometry_bound / _mass_bound / _charge_bound), "
    "C11_sensitive_in_flush_zone_refuted (known finding: the threshold is 5**-(n+1), so -5e-7 and +5e-7 hash alike), "
    "C11_bond_order_invariant (any permutation and any orientation flips of the bond list give the same stored bonds; whole-tuple sort of "
    "commit 95cbbdc), C11_bond_canon_idempotent, C11_bond_listing_validated_alike (the validator's outcome incl. ValidationError is the same "
    "for every listing) and C11_bond_listing_hash_invariant; for bond lists stored as given (routes that skip the validator) "
    "C11_stored_listing_hash_eq_iff (hash equality = equality of the listings, so == and the hash still coincide) and "
    "C11_stored_listing_visible_refuted (the listing shows in the hash; known finding C11-text-keyword-bonds-unvalidated for "
    "from_data(text, connectivity=...)). The model is tied to the code on every run by the regenerated constants/shape "
    "checks and by comparing its token list with the exact text the implementation hashed, for validated molecules x 12 construction routes "
    "x 36 perturbations, library-derived molecules (align / scramble / orient_molecule / get_fragment / from_data(orient) / "
    "geometry_noise=13) against their re-validated copies, molecules carrying identifiers.molecule_hash edited through copy(update) / dict "
    "merge, the same edits on live objects that were hashed and compared first (history), sequences in which a hashed molecule is dropped "
    "before the next one is built, __eq__ against a dict, the same values handed over in other containers / memory layouts / dtypes "
    "(Fortran order, big-endian, strided, tuples, integer flags) and far from the origin (1e3 Bohr), pairs holding bond lists that never "
    "passed the validator (from_data(text, connectivity=...), validated=True dict / JSON / msgpack payloads, copy(update)): hash equality "
    "<=> == in both directions and against a dict, a mutation history (every array / list a live molecule hands out through its "
    "properties and dict(), and every array it was built from, is modified in place; an independently built twin, molecules built afresh "
    "from the same arguments / JSON / psi4 text, and the molecule itself where it does not store the value must hash as before; the "
    "modification is undone afterwards), total-charge / total-multiplicity keyword overrides on already validated inputs "
    "(from_data(psi4 text / numpy array / validated=True dict, molecular_charge=q and/or molecular_multiplicity=m) against "
    "Molecule(**kwargs) for the same atoms, fragments and totals: refused by both or the same hash, one charge and multiplicity per "
    "fragment; stream route_override), fractional total / fragment charges 2-4 rounding units apart inside one 1e-3 bin (and below the "
    "rounding unit), plus equality classes on pairs, float_prep on single numbers (also judged against "
    "the nearest multiple of 10^-n) and stored bond lists; the property oracle (exact decimal rounding of the getters' values, independent "
    "of float_prep) judges every pair on the implementation.")
LEVEL_NOTE = (
    "Clause map: (1) hash/== iff listed fields agree after the rounding: canon_complete, canon_injective, hash_eq_iff_agree [full; documented "
    "1e-8 refuted in the flush zone]; (2) route independence: independent_of_route, prerounding_invisible, noise_insensitive_molecule "
    "[encodings/text/files deliver values within noise: correspondence over 12 routes, C07/C10]; (3) non-hash fields: "
    "independent_of_non_hash_fields [full]; (4) noise / signed zero / tiny: noise_insensitive(_molecule), signed_zero_insensitive, "
    "tiny_is_zero, np_around_* [binary64 facts as hypotheses]; (5) bond listing: bond_order_invariant, bond_listing_validated_alike, "
    "bond_listing_hash_invariant [full for validated lists; stored-as-given lists: stored_listing_hash_eq_iff, "
    "stored_listing_visible_refuted = known finding C11-text-keyword-bonds-unvalidated]; (6) sensitivity: sensitive_* for every listed field [full outside the zone; refuted inside]. "
    "Trusted: Coq kernel + vm_compute; the hand-written model and the translator; SHA-1 assumed injective (parameter, not modelled); "
    "numpy.around: theorems are about exact half-even rounding of the binary64 value; its relation to numpy's binary64 algorithm is "
    "C11_np_around_exact, whose two hypotheses on the floating multiplication (monotone, exact on half-integers) are discharged for the "
    "executable fl64 on [-2^40, 2^40] (C11_fl64_keeps_half, C11_np_around_exact_binary64); that the machine's multiplication is fl64 is "
    "trusted (IEEE-754) and compared on every run, ties included; history through shared mutable values is only tested (mutation "
    "stream; known finding C11-default-valued-array-kept-by-reference), the model has no notion of aliasing; molecules with a value within 1e-3 "
    "units of a tie are still excluded from the molecule-level comparison and counted; json.dumps/float repr modelled at token level; to_mass is an environment function; pydantic / from_schema "
    "validation not modelled. No axioms (all theorems closed under the global context). The documented 1e-8/1e-6/1e-4 rounding differs "
    "from the code near zero (zero-flush zone, known finding C11-zero-flip-threshold): the theorems are stated for float_prep as it is.")
