"""C07 — molecule text reads back as written; parsing is layout-insensitive and total.

Correspondence of Model/Text.v (lexical recognisers + the xyz / xyz+ / psi4 line filters, up to the dictionary
handed to from_input_arrays) with qcelemental.molparse.from_string, and the property oracles evaluated on the
implementation: round trip (fields, and Molecule -> string/file -> Molecule hash), layout invariance, totality."""
import contextlib
import io
import json
import math
import os
import re
import sys
from fractions import Fraction

import numpy as np

from .. import coqrun
from ..core import Corr
from ..coqrun import cz, cstr, clist, copt, cbool, cnat
from ..translate import writer_tables, text_tables
from ..translate.writer_tables import cb64
from . import c08
from . import text_history

PID = "C07"
ALLOWED_AXIOMS = set()
EXTRA_TARGETS = ["Model/Text.vo", "Model/Writers.vo"]
REQ = ["QV.Common.Outcome", "QV.Common.WText", "QV.Common.WBin64", "QV.Model.Text"]
PRELUDE = "Open Scope string_scope.\n"
FORMATS = ["xyz", "xyz+", "psi4"]

TRUSTED = [
    "hand-written model coq/Model/Text.v of from_string's Cartesian readers (recognisers equivalent to the regexes on ASCII text; line filters), tied by differential execution against `re` and against from_string (this file)",
    "fail-closed translator harness/translate/text_tables.py (keyword alternatives, unit words, separator class, exponent letters out of the module's compiled regular expressions) -> coq/Gen/TextTables.v, proved equal to the hand-written recognisers (C07_recognisers_use_the_source_tables)",
    "the writer model coq/Model/Writers.v + Gen/WriterTables.v (see C08) used in the round-trip theorems",
    "validation after parsing (from_input_arrays) is NOT modelled: the comparison is on the dictionary from_string hands to it, observed by wrapping from_input_arrays at run time",
    "CPython float(str) is modelled as exact decimal -> nearest binary64 (Common/WBin64.v), int(str) as digit value with the 4300-digit limit",
    "the oracles in this file (field-wise round trip, hash round trip through Molecule.to_string / to_file / from_file / from_data, layout rewrites, exception classes)",
    "order-independence oracle (harness/props/text_history.py): the same texts under every dtype and dtype=None in sequence against the reversed sequence in a fresh interpreter",
    "files oracle (harness/props/text_history.py run_files): hand-written table of the library's known file extensions; reading a text file = from_data on its characters (dtype given, else known extension, else detection); Molecule -> file -> Molecule hash; each write+read step against the same steps in reverse order in a fresh interpreter",
    "hash equality is judged up to the hash's own rounding (8 decimals): all other hashed fields identical and no coordinate moved by more than 1e-8 + 2*10^-prec Bohr (c07.hash_difference)",
]
ASSUMPTIONS = [
    "ASCII text only (str.strip / \\s / \\w / IGNORECASE on non-ASCII characters are outside the model and never generated)",
    "no 'pubchem:' lines and no fragment starting with 'efp' (network lookup / EFP dialect are outside the model; the model answers Err OutOfFuel and the generators avoid them)",
    "round trip: default masses, no connectivity; xyz additionally no ghosts, neutral lowest-multiplicity single fragment, Angstrom; xyz+ single fragment (the formats carry no more)",
]


def translate(ctx):
    writer_tables.generate(ctx.repo)
    text_tables.generate(ctx.repo)


# ------------------------------------------------------------------------------------------------
# observing the implementation

def _fs_module():
    import qcelemental.molparse  # noqa: F401
    return sys.modules["qcelemental.molparse.from_string"]


ARG_KEYS = {"speclabel", "enable_qm", "enable_efp", "missing_enabled_return_qm", "missing_enabled_return_efp"}
OK_CLASSES = ("MoleculeFormatError", "ValidationError", "NotAnElementError")


def observe(text, dtype):
    """Run from_string(text, dtype). Returns dict(parse=("Ok", molinit) | ("Err", kind), final=("Ok", molrec) | ("Err", class, msg))."""
    mod = _fs_module()
    from qcelemental.molparse import from_string
    captured = {}
    orig = mod.from_input_arrays

    def spy(**kw):
        captured["kw"] = {k: v for k, v in kw.items() if k not in ARG_KEYS}
        return orig(**kw)

    mod.from_input_arrays = spy
    try:
        try:
            with contextlib.redirect_stdout(io.StringIO()):
                res = from_string(text, dtype=dtype, verbose=0)
            final = ("Ok", res)
        except Exception as e:
            final = ("Err", type(e).__name__, str(e)[:300])
    finally:
        mod.from_input_arrays = orig
    if "kw" in captured:
        parse = ("Ok", captured["kw"])
    else:
        kind = {"MoleculeFormatError": "MoleculeFormat", "ValueError": "PyValueError", "KeyError": "PyKeyError"}.get(final[1], "Other:" + final[1])
        parse = ("Err", kind)
    return {"parse": parse, "final": final}


def totality_failure(final):
    if final[0] == "Ok" or final[1] in OK_CLASSES:
        return None
    return f"raised {final[1]}: {final[2][:160]}"


def canon(x):
    """molrec -> comparable JSON-like value (arrays to lists, provenance dropped)."""
    if isinstance(x, dict):
        return {k: canon(v) for k, v in sorted(x.items()) if k != "provenance"}
    if isinstance(x, np.ndarray):
        return canon(x.tolist())
    if isinstance(x, (list, tuple)):
        return [canon(v) for v in x]
    if isinstance(x, (np.floating, float)):
        return float(x) + 0.0 if x != 0 else 0.0
    if isinstance(x, (np.integer,)):
        return int(x)
    if isinstance(x, (np.bool_,)):
        return bool(x)
    return x


# ------------------------------------------------------------------------------------------------
# Gallina literals

PROCESSED_KEYS = {"units", "fix_com", "fix_orientation", "fix_symmetry", "molecular_charge", "molecular_multiplicity", "elbl", "geom",
                  "fragment_separators", "fragment_charges", "fragment_multiplicities", "geom_hints", "fragment_files", "hint_types"}


def _finite(molinit):
    vals = list(molinit.get("geom", []))
    if molinit.get("molecular_charge") is not None:
        vals.append(molinit["molecular_charge"])
    vals += [v for v in molinit.get("fragment_charges", []) or [] if v is not None]
    return all(isinstance(v, float) and math.isfinite(v) for v in vals)


def czbig(v):
    """Z literal; huge values go through the model's digit reader (Coq parses giant numerals very slowly)."""
    v = int(v)
    return cz(v) if abs(v) < 10 ** 18 else f"(digits_or_zero {cstr(str(v))})"


def processed_term(p):
    bad = set(p) - PROCESSED_KEYS
    for k in ("geom_hints", "fragment_files", "hint_types"):
        if p.get(k):
            bad.add(k)
    if p.get("fix_com", True) is not True or p.get("fix_orientation", True) is not True:
        bad.add("fix flags")
    units = p.get("units")
    if bad:
        units = "<unmodelled:%s>" % ",".join(sorted(bad))
    opt_list = lambda k, f: copt(p[k], lambda l: clist(l, f)) if k in p else "None"
    return ("{| q_units := %s; q_fix_com := %s; q_fix_orient := %s; q_fix_symm := %s; q_molchg := %s; q_molmult := %s; q_elbl := %s; "
            "q_geom := %s; q_seps := %s; q_fchg := %s; q_fmult := %s |}") % (
        copt(units, cstr), cbool("fix_com" in p), cbool("fix_orientation" in p), copt(p.get("fix_symmetry"), cstr),
        copt(p.get("molecular_charge"), cb64), copt(p.get("molecular_multiplicity"), czbig), clist(p.get("elbl", []), cstr),
        clist(p.get("geom", []), cb64), opt_list("fragment_separators", cnat),
        opt_list("fragment_charges", lambda v: copt(v, cb64)), opt_list("fragment_multiplicities", lambda v: copt(v, czbig)))


def parse_case_term(dtype, text, parse):
    if parse[0] == "Ok":
        exp = f"(Ok {processed_term(parse[1])})"
    else:
        kind = parse[1] if not parse[1].startswith("Other:") else "PyAssertion"
        exp = f"(Err {kind})"
    return f"({cstr(dtype)}, {cstr(text)}, {exp})"


OUTSIDE = re.compile(r"(?im)^\s*pubchem|(?:^|\n)\s*(?:--\s*\n\s*)?efp[\t ,]")


def inside_model(text):
    return all(ord(c) < 128 for c in text) and not OUTSIDE.search(text) and "pubchem" not in text.lower() and "efp" not in text.lower()


# ------------------------------------------------------------------------------------------------
# lexical stream: recognisers against `re`

def lex_cases(rng, n):
    mod = _fs_module()
    from qcelemental.molparse.regex import NUMBER, NUCLEUS
    pats = {
        "NUMBER": re.compile(r"\A" + NUMBER + r"\Z", re.VERBOSE),
        "NUCLEUS": re.compile(r"\A" + NUCLEUS + r"\Z", re.VERBOSE | re.IGNORECASE),
        "SIMPLENUCLEUS": re.compile(r"\A" + mod.SIMPLENUCLEUS + r"\Z", re.IGNORECASE),
        "atom": mod.atom_cartesian, "atom_strict": mod.atom_cartesian_strict, "cgmp": mod.cgmp, "xyz2": mod.xyz2,
        "xyz1": mod.xyz1, "xyz1strict": mod.xyz1strict, "com": mod.com, "orient": mod.orient, "bohrang": mod.bohrang,
        "symmetry": mod.symmetry, "pubchem": mod.pubchemre,
    }
    num_alpha = "0123456789" * 3 + "+-..eEdD" + "x ,"
    nuc_alpha = "HheCcOGgh()@__0123456789..ab" + "X-"
    num_seeds = ["1", "1.", ".5", "+1.0", "-0.5e3", "1D0", "1e", "1e+", ".", "+", "", "1.2.3", "12e-3", "1E+05", "--1", "+-1", "1d-2", "00.10"]
    nuc_seeds = ["H", "He", "Xxx", "Abcd", "1H", "12C13", "H_a", "H_", "H1_a", "@He", "Gh(He)", "gh(he)", "GH(1H_x@1.007)", "Gh(He", "He)",
                 "@@He", "1", "12", "123", "1234", "12_a", "12_", "1_a@1.5", "He@4.0", "He@4", "He@4.", "He@.5", "@1H1@1.0", "Gh()", "",
                 "H@1.0@2.0", "_a", "H-1", "Gh(Gh(He))", "h_1_2", "He4", "4He4", "H1a"]
    line_seeds = ["He 0 0 0", "He,0,0,0", " He 0 0 0", "He 0 0 0,", ",He 0 0 0", "He\t0 , 0,,0", "He 0 0", "He 0 0 0 0", "2 0 0 0", "0 1", "0.5 2",
                  "0 1 x", "-1 2abc", "0", "0 ", "1e1 3", "3", "3 au", "3 bohr", "3, ang", "3 angstrom", "3au", "3\tAU", "3 a", " 3", "3 ,", "x",
                  "no_com", "NOCOM", "no_reorient", "NoReOrient", "no com", "units bohr", "unit ang", "units=au", "UNITS = ANGSTROM",
                  "units a.u.", "units a1u2", "units  a=u=", "unitss bohr", "units", "units bohrs", "symmetry c2v", "symmetry = D2h",
                  "symmetry c2v x", "symmetry", "symmetry=c-1", "pubchem:benzene", "PubChem : 123", "pubchem benzene", "pubchem:",
                  "pubchem:a\tb", "pubchem: a b", "unit\x0bbohr", "units\x1cang", "3\x0bau", "3\rau"]

    def soup(alpha, lo, hi):
        return "".join(rng.choice(alpha) for _ in range(rng.randint(lo, hi)))

    def mutate(s, alpha):
        s = list(s)
        for _ in range(rng.randint(0, 2)):
            k = rng.random()
            if k < 0.3 and s:
                del s[rng.randrange(len(s))]
            elif k < 0.7:
                s.insert(rng.randint(0, len(s)), rng.choice(alpha))
            elif s:
                s[rng.randrange(len(s))] = rng.choice(alpha)
        return "".join(s)

    out = []
    for kind in pats:
        seeds = num_seeds if kind == "NUMBER" else nuc_seeds if kind in ("NUCLEUS", "SIMPLENUCLEUS") else line_seeds
        for s in seeds:
            out.append((kind, s))
    kinds = list(pats)
    for _ in range(n):
        kind = rng.choice(kinds)
        if kind == "NUMBER":
            s = mutate(rng.choice(num_seeds), num_alpha) if rng.random() < 0.6 else soup(num_alpha, 0, 8)
        elif kind in ("NUCLEUS", "SIMPLENUCLEUS"):
            s = mutate(rng.choice(nuc_seeds), nuc_alpha) if rng.random() < 0.6 else soup(nuc_alpha, 0, 9)
        else:
            s = mutate(rng.choice(line_seeds), nuc_alpha + num_alpha + "\t =:#" + "unitsbohrangcomsymmetry")
        out.append((kind, s))
    res = []
    for kind, s in out:
        if "\n" in s:
            continue
        res.append((kind, s, pats[kind].match(s) is not None))
    return res


def text_cases(rng, n):
    from qcelemental.util import filter_comments
    alpha = "ab #\\\n\t\x0b\x1c\r 12"
    seeds = ["#a\nb", "a#b\nc", "a\\#b", "a\n#b\nc", "##", "\\##x", "a\\\n#b", "#", "", "a #b #c\n d", "\n#x", "x\\#y#z"]
    out = []
    for s in seeds + ["".join(rng.choice(alpha) for _ in range(rng.randint(0, 14))) for _ in range(n)]:
        out.append(("filter_comments", s, filter_comments(s)))
        out.append(("strip", s, s.strip()))
    return out


# ------------------------------------------------------------------------------------------------
# valid texts, layout rewrites, mutations

def fits(fmt, molrec):
    """the molecules whose every hashed field the format carries."""
    nfr = len(molrec["fragment_separators"]) + 1
    if "connectivity" in molrec:
        return False
    if fmt == "psi4":
        return True
    if nfr != 1 or molrec["fix_com"] or molrec["fix_orientation"]:
        return False
    if fmt == "xyz+":
        return True
    return bool(all(molrec["real"])) and float(molrec["molecular_charge"]) == 0.0 and \
        int(molrec["molecular_multiplicity"]) == (1 if int(sum(molrec["elez"])) % 2 == 0 else 2)


def gen_valid(rng, fmt, far=False):
    """(arrays, molrec) such that to_string(fmt) is re-readable with dtype fmt."""
    for _ in range(200):
        arrays, molrec = c08.gen_molrec(rng, max_frag=4 if fmt == "psi4" else 1, labels=(fmt != "xyz"),
                                        allow_ghost=(fmt != "xyz"), extras=False, far=far)
        if fmt == "psi4":
            if rng.random() < 0.4:
                arrays["fix_com"] = True
            if rng.random() < 0.4:
                arrays["fix_orientation"] = True
            molrec = c08.build_molrec(arrays)
        return arrays, molrec
    raise RuntimeError("no valid molecule")


def write(molrec, fmt, units, prec):
    from qcelemental.molparse import to_string
    return to_string(molrec, fmt, units=units, prec=prec, width=prec + 5)


NUMTOK = re.compile(r"^[-+]?\d+\.\d+$")


def alt_numeral(rng, tok):
    """an equivalent spelling of a printed decimal (same real number)."""
    neg = tok.startswith("-")
    body = tok.lstrip("+-")
    ip, fp = body.split(".")
    k = rng.randrange(7)
    if k == 0:
        new = body + "0" * rng.randint(1, 3)
    elif k == 1:
        new = "0" * rng.randint(1, 2) + body
    elif k == 2:
        new = ip + fp[:1] + "." + fp[1:] + rng.choice(["e-1", "E-1", "d-1", "D-01"]) if fp else body
    elif k == 3:
        new = body + rng.choice(["e0", "E+0", "D0", "d-0", "e+00"])
    elif k == 4:
        new = (ip[:-1] or "0") + "." + ip[-1] + fp + rng.choice(["e1", "E+1", "D1"])
    elif k == 5:
        new = body.rstrip("0") if not body.rstrip("0").endswith(".") else body.rstrip("0") + rng.choice(["", "0"])
    else:
        new = body
    sign = "-" if neg else rng.choice(["", "", "+"])
    return sign + new


def rewrite(rng, fmt, text, kind):
    """One layout-preserving rewrite of a text written by to_string. Returns the new text (or None if not applicable)."""
    L = text.rstrip("\n").split("\n")
    first_atom = 2 if fmt in ("xyz", "xyz+") else 0

    def is_atom_line(i, ln):
        t = ln.split()
        return i >= first_atom and len(t) == 4 and all(NUMTOK.match(x) for x in t[1:])

    if kind == "comment-abutting":
        idx = [i for i in range(len(L)) if is_atom_line(i, L[i])]
        if not idx:
            return None
        i = rng.choice(idx)
        L[i] = L[i] + rng.choice(["#c", "# x", "#", "## note"])
    elif kind == "comment":
        for i in range(len(L)):
            if rng.random() < 0.4 and not L[i].endswith("\\"):
                L[i] = L[i] + rng.choice([" # comment", " # x", " #", "\t# He 0 0 0", " ## units bohr", "\t#"])
        if len(L) > 1 and rng.random() < 0.7:
            at = rng.randint(1 if fmt != "psi4" else 0, len(L))
            if at == 0:
                L.insert(0, "# leading comment")
            else:
                L.insert(at, rng.choice(["# whole line", "#", "   # indented"]) if at >= first_atom or fmt == "psi4" else "# whole line")
                if fmt != "psi4" and at < 2 and L[at].startswith(" "):
                    L[at] = "# whole line"
    elif kind == "blank":
        for _ in range(rng.randint(1, 3)):
            at = rng.randint(first_atom if fmt != "psi4" else 0, len(L))
            L.insert(at, rng.choice(["", "  ", "\t", " \t "]))
    elif kind == "outer":
        for i in range(len(L)):
            if rng.random() < 0.5 and not (fmt != "psi4" and i == 1):
                L[i] = rng.choice(["", " ", "\t", "   "]) + L[i] + rng.choice(["", " ", "\t ", "  "])
        pre = rng.choice(["", "\n", " \n\n", "\t"])
        post = rng.choice(["", "\n", "\n\n  ", " "])
        return pre + "\n".join(L) + post
    elif kind == "sep":
        for i in range(len(L)):
            if fmt != "psi4" and i == 1:
                continue
            t = L[i].split()
            if is_atom_line(i, L[i]) or (len(t) == 2 and re.fullmatch(r"-?\d+", t[0]) and t[1].isdigit()):
                L[i] = "".join(tok + rng.choice([" ", "\t", ",", ", ", " ,\t", "  ", ",,"]) for tok in t[:-1]) + t[-1]
            elif t and t[0] == "units":
                L[i] = rng.choice(["units ", "units=", "units = ", "units\t", "unit ", "unit="]) + t[1]
            elif fmt == "xyz+" and i == 0 and len(t) == 2:
                L[i] = t[0] + rng.choice([" ", ",", " , ", "\t", ""]) + t[1]
    elif kind == "case":
        for i in range(len(L)):
            t = L[i].split()
            if is_atom_line(i, L[i]):
                lab = t[0]
                m = re.fullmatch(r"(Gh\()?(\d*)([A-Za-z]{1,3})(.*)", lab)
                if m:
                    gh, a, el, rest = m.groups()
                    f = rng.choice([str.upper, str.lower, str.capitalize])
                    new = (f(gh) if gh else "") + a + f(el) + rest
                    L[i] = L[i].replace(lab, new, 1)
            elif t and t[0] in ("units", "no_com", "no_reorient"):
                L[i] = rng.choice([str.upper, str.capitalize, str.title])(L[i])
            elif fmt == "xyz+" and i == 0 and len(t) == 2:
                L[i] = t[0] + " " + rng.choice([t[1].upper(), t[1].capitalize()])
    elif kind == "numeral":
        for i in range(len(L)):
            t = L[i].split()
            if is_atom_line(i, L[i]):
                L[i] = t[0] + "  " + "  ".join(alt_numeral(rng, x) if rng.random() < 0.7 else x for x in t[1:])
            elif len(t) == 2 and re.fullmatch(r"-?\d+", t[0]) and t[1].isdigit() and (fmt == "psi4"):
                c = rng.choice([t[0], t[0] + ".0", t[0] + ".", t[0] + "e0", ("+" + t[0]) if not t[0].startswith("-") else t[0]])
                L[i] = c + " " + rng.choice(["", "0", "00"]) + t[1]
    else:
        raise ValueError(kind)
    return "\n".join(L) + "\n"


REWRITES = ["comment", "comment-abutting", "blank", "outer", "sep", "case", "numeral"]

VOCAB = ["He", "H", "O", "C1", "@Ne", "Gh(He)", "gh(h_1)", "1H", "H@1.007", "Xx", "Uuo", "120", "0", "1", "2", "3", "-1", "+2", "0.0", "1.5",
         "-0.75", "1e-3", "1.0D0", ".5", "2.", "--", "units", "bohr", "ang", "angstrom", "au", "a.u.", "unit", "=", "no_com", "nocom",
         "no_reorient", "symmetry", "c2v", "#", "# He 0 0 0", "\\#", "zz", "1 1", "0 2", "He 0 0 0", "H 0 0 1", "units bohr", "no_com",
         "999", "1e400", "4He4", "He_x", ",", ",,", "", " ", "\t", "x=1.0", "R", "A1"]
CTRL = ["\t", "\r", "\x0b", "\x0c", "\x1c", "\x1f", "\x00", "\x7f", " "]


def mutate_text(rng, text):
    s = list(text)
    for _ in range(rng.randint(1, 4)):
        k = rng.random()
        if k < 0.25 and s:
            i = rng.randrange(len(s))
            del s[i:i + rng.randint(1, 3)]
        elif k < 0.55:
            s.insert(rng.randint(0, len(s)), rng.choice(list("0123456789.,-+eEdD@()_#\\= \n\nHeOXghGH") + CTRL))
        elif k < 0.75 and s:
            s[rng.randrange(len(s))] = rng.choice(list("0123456789.,-+eD@()_# \nHx") + CTRL)
        elif k < 0.9:
            L = "".join(s).split("\n")
            if len(L) > 1:
                i, j = rng.randrange(len(L)), rng.randrange(len(L))
                if rng.random() < 0.5:
                    L[i], L[j] = L[j], L[i]
                else:
                    L.insert(i, L[j])
            s = list("\n".join(L))
        else:
            s = s[:rng.randint(0, len(s))]
    return "".join(s)


def soup_text(rng):
    lines = []
    for _ in range(rng.randint(0, 7)):
        lines.append(rng.choice([" ", "  ", "\t", ",", " , "]).join(rng.choice(VOCAB) for _ in range(rng.randint(0, 5))))
    return rng.choice(["", " ", "\n"]) + "\n".join(lines) + rng.choice(["", "\n", " \n"])


BIG = 4400
CORPUS_TEXTS = [
    ("psi4", "0 " + "1" * BIG + "\nHe 0 0 0", "digit-limit: multiplicity"),
    ("xyz+", "1\n0 " + "1" * BIG + "\nHe 0 0 0", "digit-limit: multiplicity"),
    ("psi4", "0 1\n--\n0 " + "0" * BIG + "1\nHe 0 0 0\n--\nHe 0 0 2", "digit-limit: fragment multiplicity"),
    ("psi4", "9" * BIG + "He 0 0 0", "digit-limit: mass number in label"),
    ("psi4", "He 0 0 1.0D0", "fixed: D exponent"),
    ("xyz", "1\n\nHe 0 0 1.0d+0", "fixed: D exponent"),
    ("psi4", "0 1\nHe 0 0 0\nunits bohr\nunits bohr", "second units line is a remnant"),
    ("psi4", "", "empty"),
    ("xyz", "", "empty"),
    ("psi4", "--\n--\nHe 0 0 0\n--", "empty fragments dropped"),
    ("psi4", "1 2\n1 2\nHe 0 0 0", "second chgmult in a fragment is a remnant"),
    ("psi4", "He 0 0 0 # c\n#x\n  \nHe 0 0 2.5e0", "comments"),
    ("xyz+", "2 au\n-1 2 title words\n@He 0 0 0\nGh(1H_a@1.007) 0,0,\t3", "xyz+ features"),
    ("xyz", "2 au\n\nHe 0 0 0\nHe 0 0 3", "strict xyz rejects the unit marker"),
    ("psi4", "0 " + "1" * 4300 + "\nHe 0 0 0", "4300 digits are accepted by int()"),
    ("psi4", "He 0 0 1e400", "overflowing exponent"),
]


# ------------------------------------------------------------------------------------------------
# round-trip oracles on the implementation

def roundtrip_fields(molrec, fmt, units, prec, text, final):
    """field-wise: parse(write(m)) carries what the format carries."""
    if final[0] != "Ok":
        return f"text written by to_string({fmt}) is not read back: {final[1]}: {final[2][:120]}"
    r = final[1].get("qm")
    if not r:
        return "no qm molecule read back"
    nat = len(molrec["elem"])
    if len(r["elem"]) != nat:
        return f"{len(r['elem'])} atoms read back, {nat} written"
    if [str(e) for e in r["elem"]] != [str(e) for e in molrec["elem"]] or list(r["elez"]) != list(molrec["elez"]):
        return "elements changed"
    if r["units"] != units:
        return f"units read back as {r['units']}, written in {units}"
    f = c08.expected_factor(molrec, units)
    g0 = np.asarray(molrec["geom"], dtype=float).reshape(-1)
    g1 = np.asarray(r["geom"], dtype=float).reshape(-1)
    tol = Fraction(1, 2 * 10 ** prec)
    for k in range(3 * nat):
        exact = Fraction(float(g0[k])) * f
        if abs(Fraction(float(g1[k])) - exact) > tol + abs(exact) * Fraction(1, 2 ** 50) + Fraction(1, 10 ** 300):
            return f"coordinate {k} read back as {g1[k]!r}, molecule has {float(exact)!r} {units} (precision {prec})"
    if fmt in ("xyz+", "psi4"):
        if [bool(x) for x in r["real"]] != [bool(x) for x in molrec["real"]]:
            return "ghost flags changed"
        if float(r["molecular_charge"]) != float(molrec["molecular_charge"]) or int(r["molecular_multiplicity"]) != int(molrec["molecular_multiplicity"]):
            return (f"charge/multiplicity read back as {r['molecular_charge']}/{r['molecular_multiplicity']}, "
                    f"molecule has {molrec['molecular_charge']}/{molrec['molecular_multiplicity']}")
    if fmt == "psi4":
        if [str(x) for x in r["elbl"]] != [str(x) for x in molrec["elbl"]]:
            return "user labels changed"
        if list(r["fragment_separators"]) != list(molrec["fragment_separators"]):
            return "fragment boundaries changed"
        if [float(x) for x in r["fragment_charges"]] != [float(x) for x in molrec["fragment_charges"]] or \
                [int(x) for x in r["fragment_multiplicities"]] != [int(x) for x in molrec["fragment_multiplicities"]]:
            return "fragment charges/multiplicities changed"
        if bool(r["fix_com"]) != bool(molrec["fix_com"]) or bool(r["fix_orientation"]) != bool(molrec["fix_orientation"]):
            return "fix_com / fix_orientation changed"
    return None


def hash_difference(mol, mol2, prec=12):
    """None when mol2 is mol as far as the hash can tell.  The hash rounds coordinates to 8 decimals, so a coordinate that sits
    within the printing error of a rounding boundary (x.xxxxxxxx5) may legitimately land on the other side after a trip through
    text: when every other hashed field is identical and no coordinate moved by more than one unit of the 8th decimal plus the
    printing error (1e-8 + 2*10^-prec Bohr) the molecules are the same molecule; anything else is a difference."""
    if mol.get_hash() == mol2.get_hash():
        return None
    diffs = [f for f in mol.hash_fields if json.dumps(canon(getattr(mol, f)), default=str) != json.dumps(canon(getattr(mol2, f)), default=str)]
    g1, g2 = np.asarray(mol.geometry, dtype=float), np.asarray(mol2.geometry, dtype=float)
    if set(diffs) <= {"geometry"} and g1.shape == g2.shape and float(np.max(np.abs(g1 - g2))) <= 1.0e-8 + 2.0 * 10.0 ** (-prec):
        return None
    return f"fields differing: {diffs}"


def hash_roundtrip(arrays, fmt, via_file, scratch, units=None, prec=None):
    """Molecule -> string or file -> Molecule keeps the hash (for molecules the format can carry); through a string also with
    units= / prec= given to Molecule.to_string."""
    from qcelemental.models import Molecule
    from qcelemental.molparse import to_schema
    molrec = c08.build_molrec(arrays)
    mol = Molecule(**to_schema(molrec, dtype=2))
    from qcelemental.molparse import from_schema
    if not fits(fmt, from_schema(mol.dict(), nonphysical=True)):
        return None, None
    try:
        if via_file:
            ext = {"xyz": ".xyz", "psi4": ".psi4", "xyz+": ".txt"}[fmt]
            path = os.path.join(scratch, "rt" + ext)
            mol.to_file(path, dtype=fmt if fmt == "xyz+" else None)
            with open(path) as fh:
                text = fh.read()
            mol2 = Molecule.from_file(path, dtype=fmt if fmt == "xyz+" else None)
        else:
            opts = {}
            if units is not None:
                opts["units"] = units
            if prec is not None:
                opts["prec"] = prec
            text = mol.to_string(fmt, **opts)
            mol2 = Molecule.from_data(text, dtype=fmt)
            # format auto-detection (dtype=None) on a valid text must give the molecule the explicit dtype gives
            mol3 = Molecule.from_data(text)
            if mol3.get_hash() != mol2.get_hash():
                return f"auto-detection reads a valid {fmt} text as a different molecule than dtype={fmt}", text
    except Exception as e:
        return f"Molecule -> {fmt} {'file' if via_file else 'string'} -> Molecule raised {type(e).__name__}: {str(e)[:160]}", None
    diff = hash_difference(mol, mol2, prec if (prec is not None and not via_file) else 12)
    if diff:
        return f"hash changed through {fmt} {'file' if via_file else 'string'} ({diff})", text
    return None, text



# ------------------------------------------------------------------------------------------------
# families: molecules that share every HASHED field (symbols, masses, real, geometry, charges, multiplicities,
# fragments) and differ in fields the psi4 text carries but the hash ignores (fix_com / fix_orientation, user
# labels); written one after the other through the live-object entry points in one process, each read back and
# compared field by field with ITS OWN source.

def family_spec(rng):
    arrays, _ = gen_valid(rng, "psi4")
    arrays = dict(arrays)
    for k in ("input_units_to_au", "fix_com", "fix_orientation"):
        arrays.pop(k, None)
    nat = len(arrays["elez"])
    combos = [(False, False), (True, False), (False, True), (True, True)]
    rng.shuffle(combos)
    variants = []
    for i in range(rng.choice([2, 3, 3, 4])):
        a = dict(arrays)
        if combos[i][0]:
            a["fix_com"] = True
        if combos[i][1]:
            a["fix_orientation"] = True
        if i > 0 and rng.random() < 0.75:
            a["elbl"] = [rng.choice(c08.LABELS) for _ in range(nat)]
        variants.append(a)
    order = list(range(len(variants)))
    rng.shuffle(order)
    order = order + [order[0]] + order[::-1]           # every molecule again after the others
    steps = [{"who": i, "via_file": rng.random() < 0.3, "units": rng.choice(["Bohr", "Angstrom"]),
              "prec": rng.choice([8, 10, 12, 14])} for i in order]
    return {"variants": variants, "steps": steps, "fmt": "psi4"}


def run_family(spec, scratch):
    """-> (texts written, first failure or None); failure = (step index, description, text)"""
    from qcelemental.models import Molecule
    from qcelemental.molparse import from_schema, to_schema
    fmt = spec["fmt"]
    mols, own = [], []
    for a in spec["variants"]:
        m = Molecule(**to_schema(c08.build_molrec(a), dtype=2))
        mols.append(m)
        own.append(from_schema(m.dict(), nonphysical=True))
    texts, bad = [], None
    for k, st in enumerate(spec["steps"]):
        mol, rec = mols[st["who"]], own[st["who"]]
        try:
            if st["via_file"]:
                path = os.path.join(scratch, "family.psi4")
                mol.to_file(path)
                with open(path) as fh:
                    text = fh.read()
                units, prec = "Bohr", 12
                with contextlib.redirect_stdout(io.StringIO()):
                    back = Molecule.from_file(path)
            else:
                units, prec = st["units"], st["prec"]
                text = mol.to_string(fmt, units=units, prec=prec)
                with contextlib.redirect_stdout(io.StringIO()):
                    back = Molecule.from_data(text, dtype=fmt)
        except Exception as e:
            return texts, (k, f"Molecule -> {fmt} -> Molecule raised {type(e).__name__}: {str(e)[:160]}", None)
        texts.append(text)
        what = roundtrip_fields(rec, fmt, units, prec, text, observe(text, fmt)["final"])
        if not what:
            if bool(back.fix_com) != bool(mol.fix_com) or bool(back.fix_orientation) != bool(mol.fix_orientation):
                what = "fix_com / fix_orientation of the Molecule read back differ from the Molecule written"
            elif [str(x) for x in back.atom_labels] != [str(x) for x in mol.atom_labels]:
                what = "atom_labels of the Molecule read back differ from the Molecule written"
        if what and bad is None:
            bad = (k, f"step {k} (molecule {st['who']} of {len(mols)} hash-equal molecules, "
                      f"{'file' if st['via_file'] else 'string'}): {what}", text)
    return texts, bad


# ------------------------------------------------------------------------------------------------
# files: Molecule.to_file / from_file under file names whose extension is NOT in the library's table (format given by dtype on
# writing, by dtype or by detection on reading), under known extensions, with and without dtype, several formats sharing one
# extension, one after the other in one process; judged by history-free oracles and against a fresh interpreter (reverse order)

UNKNOWN_EXTS = [".mol", ".dat", ".inp", ".txt", ".out", ".XYZ", ".geom", ".in", ".molecule", ".log", ".PSI4", ".com", ".zmat", ".crd"]
KNOWN_EXTS = [".xyz", ".psi4", ".psimol", ".json"]


def files_spec(rng, exts):
    """exts: the 2 unknown extensions this spec owns (no other spec of the run uses them, so a replay of this spec alone sees the
    same history for them)."""
    mols = []
    for _ in range(rng.choice([2, 3])):
        arrays, _m = gen_valid(rng, rng.choice(FORMATS))
        arrays = dict(arrays)
        arrays.pop("input_units_to_au", None)
        mols.append(arrays)
    steps = []
    n = rng.choice([6, 8, 10])
    shared = exts[0]
    fmts = FORMATS[:]
    rng.shuffle(fmts)
    for k in range(n):
        r = rng.random()
        if k < 3:
            ext, wd = shared, fmts[k]                       # three formats under ONE unknown extension, in a random order
        elif r < 0.45:
            ext, wd = rng.choice(exts + [""]), rng.choice(FORMATS + ["json"])
        elif r < 0.6:
            ext, wd = rng.choice(exts + [""]), None         # no dtype, unknown extension: to_file must refuse
        elif r < 0.8:
            ext, wd = rng.choice(KNOWN_EXTS), None
        else:
            ext, wd = rng.choice(KNOWN_EXTS), rng.choice(FORMATS)   # explicit dtype overrides a known extension
        reads = [None] + ([wd] if wd else []) + ([rng.choice(FORMATS)] if rng.random() < 0.3 else [])
        if rng.random() < 0.3:
            reads = reads[::-1]
        steps.append({"who": rng.randrange(len(mols)), "name": f"s{k}{ext}", "wdtype": wd, "reads": reads})
    head, tail = steps[:3], steps[3:]
    if rng.random() < 0.5:
        rng.shuffle(tail)
        at = sorted(rng.sample(range(len(tail) + 1), 3))      # the three shared-extension writes spread over the sequence
        for j, h in zip(at[::-1], head[::-1]):
            tail.insert(j, h)
        steps = tail
    return {"mols": mols, "steps": steps}


def files_scratch():
    return os.path.join(coqrun.VERIF, "build", "scratch_c07_files")


def correspond(ctx):
    corr = Corr()
    corr.rule = ("(lex) recognisers vs re on seeded/mutated/random tokens and lines; (valid) validated molecules x {xyz, xyz+, psi4} x "
                 "{Bohr, Angstrom} x precision 8-14 written by the implementation and parsed by both; (layout) six kinds of rewrites of "
                 "those texts; (family) 2-4 molecules equal in every hashed field but different in frame flags / user labels, written one after the other through Molecule.to_string / to_file and each read back; (cross) a valid text of one format read as the other two; (files) 6-10 to_file/from_file steps over 2-3 molecules under unknown/known extensions with and without dtype; (mutation/soup) byte-level mutations of valid texts and token soups under each dtype; a case is "
                 "non-trivial when the implementation got as far as handing a dictionary to from_input_arrays; distinct = distinct (dtype, text)")
    rng = ctx.rng
    scratch = os.path.join(coqrun.VERIF, "build", "scratch_c07_files")
    os.makedirs(scratch, exist_ok=True)

    # ---- lexical
    lex = lex_cases(rng, 40000 if ctx.thorough else 5000)
    txt = text_cases(rng, 6000 if ctx.thorough else 800)
    lex_terms = [f"({cstr(k)}, {cstr(s)}, {cbool(b)})" for k, s, b in lex]
    txt_terms = [f"({cstr(k)}, {cstr(s)}, {cstr(e)})" for k, s, e in txt]
    for k, s, b in lex:
        corr.count("lex")
        corr.hit(f"lex:{k}:{'match' if b else 'nomatch'}")
    corr.count("lex-text", len(txt))

    # ---- parse cases
    cases = []      # (stream, dtype, text, extra)
    for dtype, text, why in CORPUS_TEXTS:
        cases.append(("corpus", dtype, text, {"why": why}))
    # repaired finding C07-comment-eats-char (4ac4e1b): kept as a regression case
    cases.append(("layout:comment-abutting", "psi4", "He 0 0 1.25#c", {"original": "He 0 0 1.25"}))
    cases.append(("layout:comment-abutting", "xyz", "1\n\nHe 0 0 1.25# c\n", {"original": "1\n\nHe 0 0 1.25\n"}))
    nvalid = 1200 if ctx.thorough else 90
    valid_texts = []
    for k in range(nvalid):
        fmt = FORMATS[k % 3]
        arrays, molrec = gen_valid(rng, fmt, far=True)
        units = "Angstrom" if fmt == "xyz" else rng.choice(["Bohr", "Angstrom"])
        prec = rng.choice([8, 9, 10, 11, 12, 13, 14])
        text = write(molrec, fmt, units, prec)
        cases.append(("valid", fmt, text, {"arrays": arrays, "units": units, "prec": prec}))
        valid_texts.append((fmt, text))
        for other in FORMATS:
            if other != fmt:
                cases.append(("cross", other, text, {}))          # a valid text of one format read as another
        for kind in REWRITES:
            for _rep in range(2 if ctx.thorough else 1):
                t2 = rewrite(rng, fmt, text, kind)
                if t2 is not None and t2 != text:
                    cases.append(("layout:" + kind, fmt, t2, {"original": text}))
    # ---- families of hash-equal molecules written one after the other (live Molecule entry points)
    for k in range(60 if ctx.thorough else 10):
        spec = family_spec(rng)
        try:
            texts, bad = run_family(spec, scratch)
        except Exception as e:
            corr.errors.append(f"family stream: {e!r}")
            continue
        corr.count("family", len(spec["steps"]))
        corr.hit(f"family:{len(spec['variants'])}-molecules")
        if bad:
            corr.failures.append({"stream": "family", "case": dict(spec, step=bad[0]), "what": bad[1], "observed": bad[2]})
        for t in texts[:len(spec["variants"])]:
            cases.append(("family", "psi4", t, {}))
    nmut = 30000 if ctx.thorough else 1800
    for k in range(nmut):
        fmt, text = valid_texts[rng.randrange(len(valid_texts))]
        dtype = fmt if rng.random() < 0.7 else rng.choice(FORMATS)
        cases.append(("mutation", dtype, mutate_text(rng, text), {}))
    for k in range(nmut // 2):
        cases.append(("soup", rng.choice(FORMATS), soup_text(rng), {}))

    terms, meta = [], []
    memo = {}
    skipped = 0
    for stream, dtype, text, extra in cases:
        if stream not in ("corpus", "valid") and not inside_model(text):
            skipped += 1
            continue
        key = (dtype, text)
        if key not in memo:
            memo[key] = observe(text, dtype)
        ob = memo[key]
        corr.count(stream)
        corr.hit(f"{dtype}:parse:{ob['parse'][0] if ob['parse'][0] == 'Ok' else ob['parse'][1]}")
        corr.hit(f"{dtype}:final:{'Ok' if ob['final'][0] == 'Ok' else ob['final'][1]}")
        case = {"dtype": dtype, "text": text, "stream": stream}
        if ob["parse"][0] == "Ok":
            corr.nontriv([dtype, text])
        # --- oracles on the implementation
        bad = totality_failure(ob["final"])
        if bad:
            corr.failures.append({"stream": "totality", "case": case, "what": bad, "observed": list(ob["final"][:2])})
        if stream == "valid":
            molrec = c08.build_molrec(extra["arrays"])
            bad = roundtrip_fields(molrec, dtype, extra["units"], extra["prec"], text, ob["final"])
            if bad:
                corr.failures.append({"stream": "roundtrip", "case": dict(case, arrays=extra["arrays"], units=extra["units"], prec=extra["prec"]),
                                      "what": bad, "observed": list(ob["final"][:1])})
        if stream.startswith("layout:"):
            ref = memo.get((dtype, extra["original"])) or observe(extra["original"], dtype)
            if ref["final"][0] == "Ok":
                same = ob["final"][0] == "Ok" and canon(ob["final"][1]) == canon(ref["final"][1])
                if not same:
                    corr.failures.append({"stream": "layout", "case": dict(case, original=extra["original"], kind=stream[7:]),
                                          "what": f"a {stream[7:]} rewrite changed the parse result",
                                          "observed": [ob["final"][0], ob["final"][1] if ob["final"][0] == "Err" else "different molecule"]})
        # --- model
        if ob["parse"][0] == "Ok" and not _finite(ob["parse"][1]):
            corr.hit("nonfinite-skipped")
            continue
        terms.append(parse_case_term(dtype, text, ob["parse"]))
        meta.append((stream, case, ob))
        if stream == "valid" and len(corr.samples) < 3:
            corr.sample({"input": case, "parse": ob["parse"][0], "final": ob["final"][0]})
    corr.notes.append(f"{skipped} generated texts outside the model (pubchem/efp/non-ASCII) were skipped")

    # ---- auto-detection (dtype=None): valid texts, their layout rewrites, and a share of the mutations
    auto_terms, auto_meta = [], []
    for stream, dtype, text, extra in cases:
        if not (stream in ("valid", "corpus") or stream.startswith("layout:") or (stream == "mutation" and rng.random() < 0.25)):
            continue
        if not inside_model(text) or len(text) > 3000:
            continue
        ob = observe(text, None)
        corr.count("auto")
        corr.hit(f"auto:parse:{ob['parse'][0] if ob['parse'][0] == 'Ok' else ob['parse'][1]}")
        bad = totality_failure(ob["final"])
        if bad:
            corr.failures.append({"stream": "totality", "case": {"dtype": None, "text": text, "stream": "auto"}, "what": bad,
                                  "observed": list(ob["final"][:2])})
        if ob["parse"][0] == "Ok" and not _finite(ob["parse"][1]):
            continue
        exp = f"(Ok {processed_term(ob['parse'][1])})" if ob["parse"][0] == "Ok" else \
            f"(Err {ob['parse'][1] if not ob['parse'][1].startswith('Other:') else 'PyAssertion'})"
        auto_terms.append(f"({cstr(text)}, {exp})")
        auto_meta.append((text, ob))

    # ---- hash round trip through Molecule
    nh = 600 if ctx.thorough else 60
    for k in range(nh):
        fmt = FORMATS[k % 3]
        arrays, molrec = gen_valid(rng, fmt)
        arrays = dict(arrays)
        arrays.pop("input_units_to_au", None)
        via_file = (k // 3) % 2 == 1
        # through a string: half of the cases with units= / prec= given to Molecule.to_string (strict xyz has no unit marker)
        units = prec = None
        if not via_file and (k // 6) % 2 == 1:
            units = rng.choice(["Bohr", "Angstrom", "bohr", "ANGSTROM"]) if fmt != "xyz" else rng.choice([None, "Angstrom"])
            prec = rng.choice([8, 9, 10, 11, 13, 14, 16])
        bad, text = hash_roundtrip(arrays, fmt, via_file, scratch, units, prec)
        if bad is None and text is None:
            continue
        corr.count("hash-file" if via_file else "hash-string")
        if units is not None or prec is not None:
            corr.hit("hash-string:units/prec given")
        if bad:
            corr.failures.append({"stream": "hash", "case": {"arrays": arrays, "fmt": fmt, "via_file": via_file, "units": units, "prec": prec},
                                  "what": bad, "observed": text})

    # ---- files: to_file / from_file under unknown and known extensions, with and without dtype, one after the other
    exts = UNKNOWN_EXTS[:]
    rng.shuffle(exts)
    for k in range(16 if ctx.thorough else 4):
        own = exts[2 * k:2 * k + 2] if 2 * k + 2 <= len(exts) else [f".u{k:02d}a", f".u{k:02d}b"]
        spec = files_spec(rng, own)
        try:
            bad = text_history.check_files(spec, scratch)
        except Exception as e:
            corr.errors.append(f"files stream: {e!r}")
            continue
        corr.count("files", sum(len(st["reads"]) + 1 for st in spec["steps"]))
        for st in spec["steps"]:
            ext = os.path.splitext(st["name"])[1]
            corr.hit(f"files:write:{'known' if ext in text_history.BUILTIN_EXT else 'unknown'}-ext:{st['wdtype']}")
        if bad:
            corr.failures.append({"stream": "files", "case": dict(bad[2], step=bad[0]), "what": bad[1], "observed": None})

    # ---- history: valid texts under every dtype and under auto-detection, one after the other, in this process (after all
    #      of the above) and in a fresh interpreter in reverse order: every call must answer the same
    calls = []
    for fmt, text in valid_texts[:(40 if ctx.thorough else 8)]:
        ds = FORMATS + [None]
        rng.shuffle(ds)
        calls.extend([text, d] for d in ds)
    try:
        bad = text_history.check_from_string(calls)
        corr.count("history", len(calls))
        if bad:
            i, a, b = bad
            corr.failures.append({"stream": "history", "case": {"calls": calls, "index": i, "dtype": calls[i][1], "text": calls[i][0]},
                                  "what": f"call {i} (dtype={calls[i][1]}) answers differently after the preceding calls than in a fresh "
                                          f"interpreter (reverse order)", "observed": [a, b]})
    except Exception as e:
        corr.errors.append(f"history stream: {e!r}")

    ctx.log(f"{len(terms)} parse cases, {len(lex_terms)} recogniser cases, {len(txt_terms)} text cases; evaluating the model")
    bad, errors = c08.eval_with_retry(ctx, "C07", REQ, PRELUDE, "check_parse", terms, 250, "string * string * outcome processed_b")
    corr.errors.extend(f"parse shard {k}: {e}" for k, e in errors)
    for b in bad:
        stream, case, ob = meta[b]
        got = None
        if len(corr.disagreements) < 5:
            got, _ = coqrun.eval_terms("C07", REQ, PRELUDE, [f"parse {cstr(case['dtype'])} {cstr(case['text'])}"])
        corr.disagreements.append({"stream": stream, "case": case, "impl": [ob["parse"][0], str(ob["parse"][1])[:1500]],
                                   "model": (got or ["(not printed)"])[0][:1500]})
    bad, errors = c08.eval_with_retry(ctx, "C07auto", REQ, PRELUDE, "check_auto", auto_terms, 250, "string * outcome processed_b")
    corr.errors.extend(f"auto shard {k}: {e}" for k, e in errors)
    for b in bad:
        text, ob = auto_meta[b]
        corr.disagreements.append({"stream": "auto", "case": {"dtype": None, "text": text, "stream": "auto"},
                                   "impl": [ob["parse"][0], str(ob["parse"][1])[:1500]], "model": "(differs)"})
    bad, errors = c08.eval_with_retry(ctx, "C07lex", REQ, PRELUDE, "check_lex", lex_terms, 1500, "string * string * bool")
    corr.errors.extend(f"lex shard {k}: {e}" for k, e in errors)
    for b in bad:
        k, s, r = lex[b]
        corr.disagreements.append({"stream": "lex", "case": {"kind": k, "text": s}, "impl": r, "model": (not r)})
    bad, errors = c08.eval_with_retry(ctx, "C07txt", REQ, PRELUDE, "check_text", txt_terms, 1500, "string * string * string")
    corr.errors.extend(f"text shard {k}: {e}" for k, e in errors)
    for b in bad:
        k, s, r = txt[b]
        corr.disagreements.append({"stream": "lex-text", "case": {"kind": k, "text": s}, "impl": r, "model": "differs"})
    return corr


def search(ctx, corr, reasons):
    found = []
    for d in corr.disagreements:
        c = d["case"]
        if "dtype" in c:
            r = replay(ctx, {"case": c, "stream": "totality"})
            if r["fails"]:
                found.append({"stream": "search", "case": c, "what": r["oracle"], "observed": r["implementation"]})
    return found


def replay(ctx, rp):
    case = rp["case"]
    stream = rp.get("stream", "")
    if stream == "family" or "variants" in case:
        scratch = os.path.join(coqrun.VERIF, "build", "scratch_c07_files")
        os.makedirs(scratch, exist_ok=True)
        texts, bad = run_family(case, scratch)
        return {"input": {"variants": case["variants"], "steps": case["steps"]}, "implementation": bad[2] if bad else None,
                "oracle": bad[1] if bad else None, "fails": bool(bad)}
    if stream == "files" or ("mols" in case and "steps" in case):
        spec = {"mols": case["mols"], "steps": case["steps"]}
        bad = text_history.check_files(spec, files_scratch())
        return {"input": spec, "implementation": None, "oracle": bad[1] if bad else None, "fails": bool(bad)}
    if stream == "history":
        bad = text_history.check_from_string(case["calls"])
        return {"input": {"calls": len(case["calls"]), "index": case.get("index")}, "implementation": list(bad[1:]) if bad else None,
                "oracle": (f"call {bad[0]} answers differently after the preceding calls than in a fresh interpreter" if bad else None),
                "fails": bool(bad)}
    if stream == "hash":
        scratch = os.path.join(coqrun.VERIF, "build", "scratch_c07_files")
        os.makedirs(scratch, exist_ok=True)
        bad, text = hash_roundtrip(case["arrays"], case["fmt"], case["via_file"], scratch, case.get("units"), case.get("prec"))
        return {"input": case, "implementation": text, "oracle": bad, "fails": bool(bad)}
    if "arrays" in case and "units" in case and "prec" in case:
        # a round-trip case: its INPUT is the molecule + format + unit + precision.  The text is written again by the
        # implementation under test (the recorded text is what the failing tree wrote: information only) and read back.
        molrec = c08.build_molrec(case["arrays"])
        try:
            text = write(molrec, case["dtype"], case["units"], case["prec"])
        except Exception as e:
            return {"input": {k: v for k, v in case.items() if k != "text"}, "implementation": ["Err", type(e).__name__],
                    "oracle": f"to_string({case['dtype']}) raised {type(e).__name__}: {str(e)[:160]}", "fails": True}
        ob = observe(text, case["dtype"])
        bad = totality_failure(ob["final"]) or roundtrip_fields(molrec, case["dtype"], case["units"], case["prec"], text, ob["final"])
        return {"input": {k: v for k, v in case.items() if k != "text"}, "text_written_now": text, "text_recorded": case.get("text"),
                "implementation": [ob["final"][0], str(ob["final"][1])[:500]], "oracle": bad, "fails": bool(bad)}
    # pure-parser cases: the input IS a text (mutations, soups, corpus, layout rewrites and their originals, auto-detection)
    ob = observe(case["text"], case["dtype"])
    bad = totality_failure(ob["final"])
    if not bad and "original" in case:
        ref = observe(case["original"], case["dtype"])
        if ref["final"][0] == "Ok" and not (ob["final"][0] == "Ok" and canon(ob["final"][1]) == canon(ref["final"][1])):
            bad = "a layout rewrite changed the parse result"
    return {"input": {k: (v if len(str(v)) < 2000 else str(v)[:2000] + "...") for k, v in case.items()},
            "implementation": [ob["final"][0], str(ob["final"][1])[:500]], "oracle": bad, "fails": bool(bad)}


def _digit_limit(f):
    """raised ValueError because an integer field of the text has more than 4300 digits — nothing else."""
    case = f.get("case") or {}
    text = case.get("text", "")
    what = str(f.get("what", ""))
    return ("raised ValueError" in what and "Exceeds the limit (4300 digits)" in what
            and re.search(r"\d{4301,}", text) is not None)


def _mult_overflow(f):
    """raised OverflowError (int too large to convert to float) and the text has an integer field of 309..4300 digits."""
    case = f.get("case") or {}
    text = case.get("text", "")
    what = str(f.get("what", ""))
    return ("raised OverflowError: int too large to convert to float" in what
            and re.search(r"(?<!\d)\d{309,4300}(?!\d)", text) is not None)


def _autodetect_shadow(f):
    """hash stream, an xyz+ text that is also a valid strict xyz text was auto-detected as xyz — nothing else."""
    case = f.get("case") or {}
    text = f.get("observed")
    if f.get("stream") != "hash" or case.get("fmt") != "xyz+" or not isinstance(text, str):
        return False
    if "auto-detection reads a valid xyz+ text as a different molecule" not in str(f.get("what", "")):
        return False
    return observe(text, "xyz")["final"][0] == "Ok" and observe(text, "psi4")["final"][0] == "Err"


KNOWN = {"C07-int-digit-limit": _digit_limit, "C07-mult-overflow": _mult_overflow, "C07-autodetect-xyzplus-shadowed": _autodetect_shadow}

TECHNIQUE = ("Coq proof over a hand-written Gallina model of from_string's Cartesian readers and of the writers + differential "
             "correspondence (recognisers vs re; parser vs from_string) + round-trip / layout / totality oracles on the implementation")
DESIGN_REF = "DESIGN.md §6 C07"
LEVEL_TEXT = (
    "Machine-checked (Coq 8.16.1, no axioms) theorems about Model/Text.v (reader) and Model/Writers.v + Gen/WriterTables.v (writer). "
    "Round trip, on CHARACTERS, for EVERY molecule the format can carry, either unit, any width/precision: C07_roundtrip_psi4 (any "
    "number of atoms and fragments, ghosts, labels, charges, multiplicities, frame flags: parse(psi4, written characters) = the written "
    "labels, printed coordinates, total and fragment charge/multiplicity, fragment boundaries, fix flags and unit), "
    "C07_roundtrip_psi4_auto (the same through dtype=None), C07_roundtrip_xyzplus, C07_roundtrip_xyz (default atom/ghost formats); "
    "building blocks C07_psi4_reader_on_fragment_blocks, C07_xyzplus_reader_on_lines, C07_xyz_reader_on_lines, C07_number_reads_back, "
    "C07_atom_line_reads_back. Totality: C07_total, C07_total_short (any text of <= 4300 characters: dictionary, MoleculeFormatError or "
    "outside-the-model), C07_total_auto / C07_total_auto_short (dtype=None cascade), C07_total_refuted (witness of the int() "
    "digit-limit ValueError), C07_autodetect_xyzplus_refuted (witness: an xyz+ text detected as strict xyz loses charge/multiplicity). "
    "Layout: C07_layout_outer_whitespace, C07_layout_comment, C07_layout_comment_line, C07_layout_separators, C07_layout_keyword_case, "
    "C07_layout_symbol_case, C07_psi4_text_of_lines / C07_xyz_text_of_lines with C07_layout_blank_lines_psi4 / _xyz and "
    "C07_layout_line_padding_psi4 / _xyz, C07_layout_insensitive (the equivalence generated by outer white space, appended comment, "
    "comment line, blank line, line padding preserves parse(psi4)), C07_numeral_plus / _leading_zero / _exponent_letter. The reader "
    "model is tied to the implementation on every run: C07_recognisers_use_the_source_tables (the keyword / unit-word / separator / "
    "exponent-letter tables inside the recognisers = the tables regenerated from the module's regular expressions), "
    "every recogniser against the module's own compiled regular expressions, "
    "filter_comments/strip against the functions, parse against from_string (explicit dtype and dtype=None) on valid texts, seven kinds "
    "of layout rewrites, byte-level mutations and token soups (the dictionary handed to from_input_arrays is observed by wrapping that "
    "function); oracles on the implementation: field-wise round trip, Molecule -> string/file -> Molecule hash equality, layout "
    "invariance, exception classes, order independence (the same texts under every dtype in sequence vs a fresh interpreter in reverse order), "
    "and families of 2-4 molecules equal in every hashed field but different in frame flags / user labels written one after the other "
    "through Molecule.to_string / to_file, each read back and compared with its own source; and sequences of Molecule.to_file / from_file "
    "steps under file names with unknown extensions (several formats sharing one extension, explicit dtype), known extensions, with and "
    "without dtype, judged by history-free oracles (file = its characters; hash round trip; to_file without a format refuses) and against "
    "the reversed sequence in a fresh interpreter; Molecule.to_string with units= / prec= given in the hash stream.")
LEVEL_NOTE = (
    "Clause map: round trip -> roundtrip_psi4(_auto)/xyzplus/xyz (characters); unchanged hash -> oracle only (validation after parsing "
    "is C04/C05/C06, hash C11); layout -> comments/outer whitespace for all dtypes, blank lines and line padding for psi4 and for "
    "xyz/xyz+ (after the two positional header lines), separators, keyword case, symbol case (recognised alike; the identification of "
    "'he' with 'He' is C06) and three numeral rewrites as recogniser-level theorems (trailing zeros / shifted exponents give another "
    "decimal of the same value: oracle + float(str) correspondence only); one relation layout_equiv only for psi4; totality -> the "
    "parse stage for the three dtypes and for dtype=None; the error classes raised after parsing are checked on the implementation. "
    "Not modelled: from_input_arrays; psi4+ (zmatrix dialect: the auto-detection model answers 'outside the model' when the three "
    "Cartesian readers refuse a text). Trusted: Coq kernel + vm_compute; hand-written recognisers (differentially tied to re on "
    "ASCII); float(str) = nearest binary64 and int(str) models; the harness. Outside the model: non-ASCII text, pubchem and efp "
    "lines. Findings: int() 4300-digit ValueError (known), OverflowError for 309-4300-digit multiplicities (known), auto-detection "
    "shadowing xyz+ by strict xyz (known, C07_autodetect_xyzplus_refuted), filter_comments deleting the character in front of '#' "
    "(found here, repaired in /repo by 4ac4e1b, kept as a regression case), D exponents (repaired by 67444b7).")
