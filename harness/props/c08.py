"""C08 — program input blocks state exactly the molecule they were made from.

Correspondence of Model/Writers.v (+ Gen/WriterTables.v, regenerated from to_string.py) with
qcelemental.molparse.to_string / Molecule.to_string, byte for byte on the text and on the keyword dictionary,
and the property oracle: an independent reader per dtype applied to the implementation's output."""
import json
import math
import re
from decimal import Decimal
from fractions import Fraction

import numpy as np

from .. import coqrun
from ..core import Corr
from ..coqrun import cz, cstr, clist, copt, cbool, cnat
from ..translate import writer_tables
from ..translate.writer_tables import cb64
from . import text_history

PID = "C08"
ALLOWED_AXIOMS = set()
EXTRA_TARGETS = ["Model/Writers.vo"]
REQ = ["QV.Common.Outcome", "QV.Common.WText", "QV.Common.WBin64", "QV.Model.WriterTypes", "QV.Gen.WriterTables", "QV.Model.Writers"]
PRELUDE = "Open Scope string_scope.\nDefinition jl (l : list string) : string := s_join (String nl EmptyString) l.\n"

DTYPES = ["xyz", "xyz+", "orca", "cfour", "molpro", "nwchem", "madness", "gamess", "terachem", "psi4", "turbomole",
          "nglview-sdf", "qchem", "mrchem"]

TRUSTED = [
    "hand-written model coq/Model/Writers.v of to_string/_atoms_formatter (line assembly per dtype), tied by byte-exact differential execution (this file)",
    "fail-closed translator harness/translate/writer_tables.py (default units, formats, umap + lookup mode, keyword dictionaries, unit-factor branch) -> coq/Gen/WriterTables.v",
    "modelled-not-verified: binary64 multiply/divide round-to-nearest-even and CPython '{:.Nf}' (coq/Common/WBin64.v, exact in Z), str.format on {field} templates, str methods, np.split, Counter+sorted",
    "external values supplied by the harness: str(mass), constants.conversion_factor for nm/pm, guess_connectivity (sdf bonds)",
    "the independent per-dtype reader (oracle) in this file, incl. its hand-written table of each program's real/ghost spelling and unit words",
    "order-independence oracle (harness/props/text_history.py): a call sequence on one molrec / one live Molecule against the reversed sequence in a fresh interpreter",
]
ASSUMPTIONS = [
    "molecular and fragment charges are integral (int() truncation and str(float) of fractional charges are outside the model)",
    "molrec comes from from_arrays / from_schema (validated): units is 'Bohr' or 'Angstrom', fragment separators strictly increasing inside the atom range, one charge/multiplicity per fragment",
    "ASCII text only; atom_format/ghost_format overrides are literal text with {elea}/{elez}/{elem}/{mass}/{elbl} fields (format specs and conversions are outside the model)",
    "coordinates finite, products do not overflow binary64",
]


def translate(ctx):
    writer_tables.generate(ctx.repo)


def eval_with_retry(ctx, tag, requires, prelude, check_fn, terms, shard, ty, tries=3):
    """coqrun.eval_bad_indices, re-running shards whose coqc process died (the machine is shared: a killed or
    starved process is a machinery problem, not a finding). Returns (bad indices, errors still failing)."""
    bad, errors = coqrun.eval_bad_indices(tag, requires, prelude, check_fn, terms, shard=shard, ty=ty)
    attempt = 1
    while errors and attempt < tries:
        attempt += 1
        ctx.log(f"{len(errors)} shard(s) of {tag} failed to evaluate; retry {attempt}")
        still = []
        for k, out in errors:
            sub = terms[k:k + shard]
            half = max(1, (len(sub) + 1) // 2)
            b2, e2 = coqrun.eval_bad_indices(f"{tag}-retry{attempt}-{k}", requires, prelude, check_fn, sub, shard=half, ty=ty)
            bad.extend(k + i for i in b2)
            still.extend((k + kk, o) for kk, o in e2)
            shard_next = half
        errors = still
        shard = shard_next
    return sorted(bad), errors


# ------------------------------------------------------------------------------------------------
# molecule generation (shared with C07)

ELEMENTS = [1, 1, 1, 2, 3, 5, 6, 6, 7, 8, 8, 9, 10, 11, 15, 16, 17, 18, 26, 29, 35, 53, 54, 79, 92]
LABELS = ["", "", "", "1", "2", "23", "_a", "_x1", "_O2"]
NAMES = [None, None, "water", "mol_1", "dimer"]
SYMMS = [None, None, None, "c1", "C1", "c2v", "d2h", "cs"]


PINNED = {
    "Angstrom": [1.8897, 1.889725989, 1.88972612456506, 1.8897261328856432, 1.8897261328856432, 1.84, 1.9396, 1.9],
    "Bohr": [1.0, 1.0, 1.0, 1.0000001, 0.999, 0.9501, 1.0499, 1.02],
}


def _coord(rng, base):
    k = rng.random()
    if base == 0:
        if k < 0.25:
            return 0.0
        if k < 0.32:
            return -0.0
        if k < 0.40:
            return rng.choice([1e-9, -1e-9, 5e-13, -4.9e-13, 1.5e-5, 2.5e-7])
    if k < 0.60:
        return round(base + rng.uniform(-0.3, 0.3), rng.choice([1, 2, 3, 4, 6, 8]))
    if k < 0.68:
        return base + rng.choice([0.25, 0.125, -0.25, 0.0625])
    return base + rng.uniform(-0.3, 0.3)


FAR = [100.0, -2500.0, 5000.0, 1234.5, -777.25]     # |coordinate| stays below 10^4 (the sdf block has 10-character columns)


def gen_arrays(rng, nat=None, max_frag=4, labels=True, allow_ghost=True, extras=True, far=False):
    """kwargs for qcelemental.molparse.from_arrays (JSON-serialisable)."""
    nat = nat or rng.choice([1, 1, 2, 2, 3, 3, 4, 5, 6, 8, 10, 12])
    units = rng.choice(["Angstrom", "Bohr"])
    spacing = 1.5 if units == "Angstrom" else 2.8
    pts = set()
    while len(pts) < nat:
        pts.add((rng.randint(-2, 2), rng.randint(-2, 2), rng.randint(-2, 2)))
    pts = list(pts)
    rng.shuffle(pts)
    geom = []
    for p in pts:
        for c in p:
            geom.append(_coord(rng, c * spacing))
    if far and rng.random() < 0.06:
        # the whole molecule far from the origin (to_string neither recentres nor reorients)
        off = [rng.choice(FAR) if rng.random() < 0.6 else 0.0 for _ in range(3)]
        geom = [g + off[i % 3] for i, g in enumerate(geom)]
    elez = [rng.choice(ELEMENTS) for _ in range(nat)]
    kw = {"geom": geom, "elez": elez, "units": units}
    if allow_ghost and rng.random() < 0.6:
        real = [rng.random() < 0.7 for _ in range(nat)]
        kw["real"] = real
    if labels and rng.random() < 0.5:
        kw["elbl"] = [rng.choice(LABELS) for _ in range(nat)]
    nfr = rng.choice([1, 1, 2, 3, 4][:max(1, min(5, max_frag + 1))])
    nfr = min(nfr, nat, max_frag)
    if nfr > 1:
        kw["fragment_separators"] = sorted(rng.sample(range(1, nat), nfr - 1))
    if rng.random() < 0.7:
        kw["molecular_charge"] = rng.choice([-3, -2, -1, 0, 0, 1, 1, 2, 3])
    if rng.random() < 0.4:
        kw["molecular_multiplicity"] = rng.choice([1, 2, 3, 4, 5, 6])
    if nfr > 1 and rng.random() < 0.4:
        kw["fragment_charges"] = [rng.choice([None, None, -1, 0, 1, 2]) for _ in range(nfr)]
    if nfr > 1 and rng.random() < 0.3:
        kw["fragment_multiplicities"] = [rng.choice([None, None, 1, 2, 3]) for _ in range(nfr)]
    if rng.random() < 0.4:
        # the molecule pins its own length of one stored unit in Bohr; from_arrays accepts |pinned - default| < 0.05
        # (default 1.0 for Bohr, 1/bohr2angstroms for Angstrom): values at the default, near it, and near both edges
        kw["input_units_to_au"] = rng.choice(PINNED[units])
    if extras:
        nm = rng.choice(NAMES)
        if nm:
            kw["name"] = nm
        if rng.random() < 0.3:
            kw["fix_com"] = rng.random() < 0.7
        if rng.random() < 0.3:
            kw["fix_orientation"] = rng.random() < 0.7
        sy = rng.choice(SYMMS)
        if sy:
            kw["fix_symmetry"] = sy
        if nat > 1 and rng.random() < 0.3:
            bonds = set()
            for _ in range(rng.randint(1, min(4, nat - 1))):
                a, b = sorted(rng.sample(range(nat), 2))
                bonds.add((a, b))
            kw["connectivity"] = [[a, b, rng.choice([1, 1, 2, 3])] for a, b in sorted(bonds)]
        r = rng.random()
        if r < 0.15:
            # an isotope on the first hydrogen, if any
            if 1 in elez:
                elea = [None] * nat
                elea[elez.index(1)] = 2
                kw["elea"] = elea
        elif r < 0.27:
            # a mass that is no isotope's (mass number -1 in the record: "{elea}" prints as nothing)
            from qcelemental import periodictable
            i = rng.randrange(nat)
            mass = [None] * nat
            mass[i] = round(float(periodictable.to_mass(elez[i])) + rng.choice([0.3, 0.25, 0.4]), 3)
            kw["mass"] = mass
    return kw


def build_molrec(arrays):
    from qcelemental.molparse import from_arrays
    kw = dict(arrays)
    if "connectivity" in kw:
        kw["connectivity"] = [tuple(b) for b in kw["connectivity"]]
    return from_arrays(speclabel=False, verbose=-1, **kw)


def gen_molrec(rng, **opts):
    """(arrays, molrec): retries with fewer charge/multiplicity constraints until validation passes."""
    from qcelemental.exceptions import ValidationError
    arrays = gen_arrays(rng, **opts)
    for drop in ([], ["fragment_multiplicities"], ["fragment_charges"], ["molecular_multiplicity"], ["molecular_charge"]):
        for k in drop:
            arrays.pop(k, None)
        try:
            return arrays, build_molrec(arrays)
        except ValidationError:
            continue
    raise RuntimeError("could not generate a valid molecule: " + json.dumps(arrays))


CORPUS_ARRAYS = [
    {"geom": [0, 0, 0, 0, 0, 1.5, 0, 1.1, -0.0], "elez": [8, 1, 1], "units": "Angstrom", "real": [True, False, True],
     "elbl": ["", "_a", "23"], "fragment_separators": [1], "molecular_charge": -1, "fix_com": True, "fix_symmetry": "C2v",
     "connectivity": [[0, 1, 1], [0, 2, 2]], "name": "wat_er"},
    {"geom": [0.0, 0.0, 0.0, 0.0, 0.0, 2.0, 0.0, 2.0, 0.0, 4.0, 0.5, 0.25], "elez": [7, 10, 7, 1], "units": "Bohr",
     "fragment_separators": [1, 2], "molecular_charge": 1, "molecular_multiplicity": 4,
     "fragment_multiplicities": [None, 1, None], "real": [True, True, True, False]},
    {"geom": [0.1, 0.2, 0.3], "elez": [2], "units": "Angstrom", "input_units_to_au": 1.8897},
    {"geom": [0.0, 0.0, 0.0, 1.0, 1.0, 1.0], "elez": [1, 1], "units": "Angstrom", "real": [False, False], "fix_symmetry": "c1",
     "fix_orientation": True},
    # a mass that is no isotope's (mass number -1: "{elea}" prints as nothing), an isotope, a ghost with a label
    {"geom": [0.0, 0.0, 0.0, 0.0, 0.0, 1.8, 0.0, 1.7, -0.3], "elez": [8, 1, 1], "units": "Bohr", "mass": [16.3, None, None],
     "elea": [None, 2, None], "real": [True, True, False], "elbl": ["", "", "_g"], "molecular_multiplicity": 2},
    # stored in Bohr WITH a pinned input_units_to_au (at the default and off it), stored in Angstrom pinned near the window's edge:
    # every stored/requested pairing x pinned/unpinned goes through molparse.to_string for every dtype (corpus_cfgs)
    {"geom": [0.0, 0.0, -1.25, 0.0, 1.5, 0.75, 0.25, -1.5, 0.75], "elez": [8, 1, 1], "units": "Bohr", "input_units_to_au": 1.0,
     "fix_com": True, "fix_orientation": True},
    {"geom": [0.0, 0.0, 0.0, 0.0, 0.0, 2.5], "elez": [3, 1], "units": "Bohr", "input_units_to_au": 0.9625, "real": [True, False]},
    {"geom": [0.0, 0.0, 0.0, 0.0, 0.0, 1.1], "elez": [9, 1], "units": "Angstrom", "input_units_to_au": 1.9396},
]


# ------------------------------------------------------------------------------------------------
# running the implementation

def _conv(molrec, units, memo={}):
    from qcelemental import constants
    key = (molrec["units"], units)
    if key not in memo:
        try:
            memo[key] = float(constants.conversion_factor(molrec["units"], units))
        except Exception:
            memo[key] = None
    return memo[key]


def _ekind(e):
    return {"KeyError": "PyKeyError", "ValueError": "PyValueError", "IndexError": "PyIndexError"}.get(type(e).__name__, "Other:" + type(e).__name__)


def _canon_kw(kw):
    out = {}
    for k, v in kw.items():
        if isinstance(v, (bool, np.bool_)):
            out[k] = ["bool", bool(v)]
        elif isinstance(v, (int, np.integer)):
            out[k] = ["int", int(v)]
        elif isinstance(v, str):
            out[k] = ["str", str(v)]
        elif v is None:
            out[k] = ["none", None]
        else:
            out[k] = ["other", repr(v)]
    return out


def impl_call(molrec, cfg, mol=None):
    """cfg: dict(dtype, units, afmt, gfmt, width, prec). Returns ("Ok", text, keywords) | ("Err", kind)."""
    from qcelemental.molparse import to_string
    kwargs = dict(units=cfg["units"], atom_format=cfg["afmt"], ghost_format=cfg["gfmt"], width=cfg["width"], prec=cfg["prec"],
                  return_data=True)
    try:
        if mol is not None:
            text, data = mol.to_string(cfg["dtype"], **kwargs)
        else:
            text, data = to_string(molrec, cfg["dtype"], **kwargs)
        # the same call without return_data (the default entry: a bare string) must give the same characters
        kwargs["return_data"] = False
        plain = mol.to_string(cfg["dtype"], **kwargs) if mol is not None else to_string(molrec, cfg["dtype"], **kwargs)
    except Exception as e:
        return ("Err", _ekind(e))
    if plain != text:
        return ("Ok", text, _canon_kw(data["keywords"]), {"without_return_data": plain})
    return ("Ok", text, _canon_kw(data["keywords"]))


def sdf_connectivity(molrec, out):
    """the bonds the sdf branch lists: molrec's connectivity, or — when the molecule has none — whatever
    guess_connectivity answered, read off the implementation's own bond block (external input of the model)."""
    conn = molrec.get("connectivity", None)
    if conn is not None:
        return [(int(a), int(b), int(c)) for a, b, c in conn]
    if out[0] != "Ok":
        return []
    try:
        r = read_text("nglview-sdf", out[1], out[2])
        return [(a - 1, b - 1, o) for a, b, o in r["bonds"]]
    except Exception:
        return []


# ------------------------------------------------------------------------------------------------
# Gallina literals

def mol_term(molrec, conn):
    nat = len(molrec["elem"])
    g = np.asarray(molrec["geom"], dtype=float).reshape(-1)
    atoms = []
    for i in range(nat):
        atoms.append("{| a_elea := %s; a_elez := %s; a_elem := %s; a_mass := %s; a_elbl := %s; a_real := %s; a_x := %s; a_y := %s; a_z := %s |}" % (
            cz(molrec["elea"][i]), cz(molrec["elez"][i]), cstr(str(molrec["elem"][i])), cstr("{mass}".format(mass=molrec["mass"][i])),
            cstr(str(molrec["elbl"][i])), cbool(bool(molrec["real"][i])), cb64(g[3 * i]), cb64(g[3 * i + 1]), cb64(g[3 * i + 2])))
    iut = molrec.get("input_units_to_au", None)
    return ("{| m_units := %s; m_iutau := %s; m_atoms := %s; m_name := %s; m_seps := %s; m_chg := %s; m_mult := %s; "
            "m_fchg := %s; m_fmult := %s; m_fix_com := %s; m_fix_orient := %s; m_fix_symm := %s; m_conn := %s |}") % (
        cstr(molrec["units"]), copt(iut, cb64), clist(atoms), copt(molrec.get("name"), cstr),
        clist(molrec["fragment_separators"], cnat), cz(int(molrec["molecular_charge"])), cz(molrec["molecular_multiplicity"]),
        clist([int(c) for c in molrec["fragment_charges"]], cz), clist(molrec["fragment_multiplicities"], cz),
        cbool(molrec["fix_com"]), cbool(molrec["fix_orientation"]), copt(molrec.get("fix_symmetry"), cstr),
        clist(conn, lambda b: f"({cz(b[0])}, {cz(b[1])}, {cz(b[2])})"))


def cfg_term(cfg, conv):
    return "{| w_dtype := %s; w_units := %s; w_afmt := %s; w_gfmt := %s; w_width := %s; w_prec := %s; w_conv := %s |}" % (
        cstr(cfg["dtype"]), copt(cfg["units"], cstr), copt(cfg["afmt"], cstr), copt(cfg["gfmt"], cstr), cnat(cfg["width"]),
        cnat(cfg["prec"]), cb64(conv if conv is not None else 1.0))


def _ctext(s):
    return "(jl " + clist(s.split("\n"), cstr) + ")"


def kval_term(v):
    t, x = v
    if t == "int":
        return f"(KVInt {cz(x)})"
    if t == "str":
        return f"(KVStr {_ctext(x)})"
    if t == "bool":
        return f"(KVBool {cbool(x)})"
    if t == "none":
        return "KVNone"
    return '(KVStr "<unmodelled value>")'


def out_term(out):
    if out[0] == "Ok":
        kws = clist([f"({cstr(k)}, {kval_term(v)})" for k, v in out[2].items()])
        return f"(Ok ({_ctext(out[1])}, {kws}))"
    kind = out[1] if not out[1].startswith("Other:") else "PyAssertion"
    return f"(Err {kind})"


def integral_charges(molrec):
    return float(molrec["molecular_charge"]).is_integer() and all(float(c).is_integer() for c in molrec["fragment_charges"])


# ------------------------------------------------------------------------------------------------
# the property oracle: an independent reader per dtype

DEFAULT_UNIT = {d: ("Angstrom" if d in ("xyz", "xyz+", "nglview-sdf") else "Bohr") for d in DTYPES}
UNIT_WORDS = {
    "xyz": {"": "Angstrom", "au": "Bohr", "nm": "nm", "pm": "pm"},
    "xyz+": {"": "Angstrom", "au": "Bohr", "nm": "nm", "pm": "pm"},
    "terachem": {"": "Angstrom", "au": "Bohr"},
    "orca": {"! Bohrs": "Bohr", "!": "Angstrom"},
    "cfour": {"bohr": "Bohr", "angstrom": "Angstrom"},
    "molpro": {"{bohr}": "Bohr", "{angstrom}": "Angstrom"},
    "nwchem": {"bohr": "Bohr", "angstroms": "Angstrom", "nanometers": "nm", "picometers": "pm"},
    "madness": {"au": "Bohr", "angstrom": "Angstrom"},
    "gamess": {"bohr": "Bohr", "angs": "Angstrom"},
    "psi4": {"bohr": "Bohr", "angstrom": "Angstrom"},
    "qchem": {"True": "Bohr", "False": "Angstrom"},
}
NO_ANNOUNCEMENT = {"None", None, "{None}"}


def spelled(dtype, info, real, afmt, gfmt):
    """the program's spelling of one atom (hand-written, independent of to_string.py); None = not listed."""
    el, lb, z = info["elem"], info["elbl"], info["elez"]
    if dtype in ("xyz", "xyz+"):
        af = "{elem}" if afmt is None else afmt
        gf = "@{elem}" if gfmt is None else gfmt
        if real:
            return af.format(**info)
        return None if gf == "" else gf.format(**info)
    if dtype == "nglview-sdf":
        return el if real else (gfmt or "Gh")
    table = {
        "orca": (el, el + ":"), "cfour": (el, "GH"), "molpro": (el, el), "nwchem": (el + lb, "bq" + el + lb),
        "madness": (el, "GH"), "gamess": (f"{el}{lb} {z}", f"{el} -{z}"), "terachem": (el, "X" + el),
        "psi4": (el + lb, f"Gh({el}{lb})"), "turbomole": (el.lower(), el.lower()), "qchem": (el, "@" + el),
        "mrchem": (el, el),
    }
    return table[dtype][0 if real else 1]


NUMRE = re.compile(r"^-?\d+(\.\d+)?$")


def _atom_line(line, coords_first=False):
    toks = line.split()
    if len(toks) < 3:
        raise ValueError("atom line with fewer than three numbers: %r" % line)
    if coords_first:
        return " ".join(toks[3:]), toks[:3]
    return " ".join(toks[:-3]), toks[-3:]


def _two_ints(line):
    a, b = line.split()
    return int(a), int(b)


def read_blocks(lines):
    """psi4/qchem body: returns (atom lines, [(fc, fm, natoms)])"""
    atoms, frags = [], []
    i = 0
    while i < len(lines):
        if lines[i] == "--":
            fc, fm = _two_ints(lines[i + 1])
            frags.append([fc, fm, 0])
            i += 2
            continue
        atoms.append(lines[i])
        if frags:
            frags[-1][2] += 1
        i += 1
    return atoms, frags


def read_text(dtype, text, kw):
    """Recover what the text + keywords say. Raises on text that does not have the program's layout."""
    if not text.endswith("\n"):
        raise ValueError("text does not end with a newline")
    L = text[:-1].split("\n")
    r = {"atoms": [], "chg": None, "mult": None, "frags": None, "unit_word": None, "ghost_idx": None, "open_shell": None}
    kv = {k: v[1] for k, v in kw.items()}
    if dtype in ("xyz", "xyz+", "terachem"):
        first = L[0].split(None, 1)
        r["count"] = int(first[0])
        r["unit_word"] = first[1] if len(first) > 1 else ""
        if dtype != "terachem":
            t = L[1].split()
            r["chg"], r["mult"] = int(t[0]), int(t[1])
        body = L[2:]
        if r["count"] != len(body):
            raise ValueError("atom count line disagrees with the number of atom lines")
        r["atoms"] = [_atom_line(x) for x in body]
    elif dtype == "orca":
        r["unit_word"] = L[0]
        if L[1] != "" or not L[2].startswith("*xyz ") or L[-1] != "*":
            raise ValueError("orca layout")
        r["chg"], r["mult"] = _two_ints(L[2][5:])
        r["atoms"] = [_atom_line(x) for x in L[3:-1]]
    elif dtype == "cfour":
        r["atoms"] = [_atom_line(x) for x in L[1:]]
        r["chg"], r["mult"], r["unit_word"] = kv["charge"], kv["multiplicity"], kv["units"]
    elif dtype == "molpro":
        g = L.index("geometry={")
        end = L.index("}", g)
        r["unit_word"] = L[g - 1]
        r["atoms"] = [_atom_line(x) for x in L[g + 1:end]]
        rest = L[end + 1:]
        r["ghost_idx"] = []
        for x in rest:
            if x.startswith("dummy,"):
                r["ghost_idx"] = [int(t) for t in x[6:].split(",")]
            elif x.startswith("set,charge="):
                r["chg"] = float(x[11:])
            elif x.startswith("set,spin="):
                r["mult"] = int(x[9:]) + 1
            else:
                raise ValueError("molpro trailer line %r" % x)
    elif dtype == "nwchem":
        if not L[0].startswith("geometry units ") or L[-1] != "end":
            raise ValueError("nwchem layout")
        r["unit_word"] = L[0][len("geometry units "):]
        r["atoms"] = [_atom_line(x) for x in L[1:-2]]
        r["chg"] = kv["charge"]
        r["mult"] = kv.get("dft__mult", 1)
        if "dft__mult" in kv and not (kv["scf__nopen"] == kv["dft__mult"] - 1 and kv["mcscf__multiplicity"] == kv["dft__mult"]):
            raise ValueError("nwchem multiplicity keywords disagree with each other")
    elif dtype == "madness":
        if L[0] != "geometry" or not L[1].startswith("units ") or L[-1] != "end":
            raise ValueError("madness layout")
        r["unit_word"] = L[1][6:]
        r["atoms"] = [_atom_line(x) for x in L[2:-1]]
        r["chg"] = kv["charge"]
        r["open_shell"] = kv.get("spin_restricted") == "false"
    elif dtype == "gamess":
        if L[0] != " $data" or L[-1] != " $end":
            raise ValueError("gamess layout")
        body = L[3:-1]
        if L[2].strip().upper() != "C1":
            if body[0] != "":
                raise ValueError("gamess: missing blank card after a non-C1 group")
            body = body[1:]
        r["atoms"] = [_atom_line(x) for x in body]
        r["chg"], r["mult"], r["unit_word"] = kv["contrl__icharg"], kv["contrl__mult"], kv["contrl__units"]
    elif dtype == "psi4":
        r["chg"], r["mult"] = _two_ints(L[0])
        body = L[1:]
        tail = []
        while body and (body[-1] in ("no_com", "no_reorient") or body[-1].startswith("units ")):
            tail.append(body.pop())
        for t in tail:
            if t.startswith("units "):
                r["unit_word"] = t[6:]
        r["fix_com"], r["fix_orientation"] = "no_com" in tail, "no_reorient" in tail
        atoms, frags = read_blocks(body)
        r["atoms"] = [_atom_line(x) for x in atoms]
        r["frags"] = frags
    elif dtype == "turbomole":
        if L[0] != "$coord" or L[-1] != "$end":
            raise ValueError("turbomole layout")
        r["atoms"] = [_atom_line(x, coords_first=True) for x in L[1:-1]]
        r["unit_word"] = "implicit-bohr"
    elif dtype == "nglview-sdf":
        if L[0] != "" or L[1] != "QCElemental" or L[2] != "":
            raise ValueError("sdf header")
        nat, nb = int(L[3][0:3]), int(L[3][4:6])
        r["atoms"] = []
        tail = "  0  0     0  0  0  0  0  0"
        for x in L[4:4 + nat]:
            if not x.endswith(tail) or len(x) < 30 + len(tail):
                raise ValueError("sdf atom line %r" % x)
            r["atoms"].append((" ".join(x[30:len(x) - len(tail)].split()), [x[0:10].strip(), x[10:20].strip(), x[20:30].strip()]))
        r["bonds"] = [tuple(int(t) for t in x.split()[:3]) for x in L[4 + nat:4 + nat + nb]]
        if len(L) != 4 + nat + nb:
            raise ValueError("sdf counts line disagrees with the number of lines")
        r["unit_word"] = "implicit-angstrom"
    elif dtype == "qchem":
        if L[0] != "$molecule" or L[-1] != "$end":
            raise ValueError("qchem layout")
        r["chg"], r["mult"] = _two_ints(L[1])
        atoms, frags = read_blocks(L[2:-1])
        r["atoms"] = [_atom_line(x) for x in atoms]
        r["frags"] = frags
        r["unit_word"] = kv["input_bohr"]
        r["no_reorient"] = kv["no_reorient"]
    elif dtype == "mrchem":
        if L[0] != "Molecule {" or L[4] != "$coords" or L[-2] != "$end" or L[-1] != "}":
            raise ValueError("mrchem layout")
        r["chg"] = int(L[1].split("=")[1])
        r["mult"] = int(L[2].split("=")[1])
        r["atoms"] = [_atom_line(x) for x in L[5:-2]]
        if kv["charge"] != r["chg"] or kv["multiplicity"] != r["mult"]:
            raise ValueError("mrchem keywords disagree with the text")
        if kv["coords"] != "\n".join(L[5:-2]):
            raise ValueError("mrchem coords keyword is not the coordinate block")
    else:
        raise ValueError("no reader for " + dtype)
    return r


def expected_factor(molrec, unit):
    """stored unit -> `unit` as an exact rational, independent of to_string's branch."""
    from qcelemental import constants
    b2a = Fraction(float(constants.bohr2angstroms))
    stored = molrec["units"]
    if stored == "Bohr":
        to_ang = b2a
    else:
        to_ang = Fraction(1)
    if unit == "Angstrom":
        return to_ang
    if unit == "nm":
        return to_ang / 10
    if unit == "pm":
        return to_ang * 100
    if unit == "Bohr":
        if stored == "Bohr":
            return Fraction(1)
        if "input_units_to_au" in molrec:
            return Fraction(float(molrec["input_units_to_au"]))     # the molecule's own pinned definition of its Bohr
        return 1 / b2a
    raise ValueError(unit)


def canon_unit(units):
    u = units.lower()
    return {"bohr": "Bohr", "angstrom": "Angstrom", "nm": "nm", "pm": "pm"}.get(u)


def well_formed_template(t):
    if t is None:
        return True
    return re.fullmatch(r"(?:[^{}]|\{\{|\}\}|\{(?:elea|elez|elem|mass|elbl)\})*", t) is not None


def must_succeed(cfg):
    d = cfg["dtype"].lower()
    if d not in DTYPES:
        return False
    u = canon_unit(cfg["units"]) if cfg["units"] is not None else DEFAULT_UNIT[d]
    if u not in ("Bohr", "Angstrom"):
        return False
    if d == "turbomole" and u != "Bohr":
        return False
    if d == "nglview-sdf" and u != "Angstrom":
        return False
    if d in ("xyz", "xyz+") and not (well_formed_template(cfg["afmt"]) and well_formed_template(cfg["gfmt"])):
        return False
    return True


def oracle(molrec, cfg, out):
    """None, or a description of how the output fails to state the molecule."""
    d = cfg["dtype"].lower()
    if out[0] == "Err":
        if must_succeed(cfg):
            return f"raised {out[1]} on a supported dtype/unit combination"
        return None
    text, kw = out[1], out[2]
    if len(out) > 3:
        return f"the text returned without return_data differs from the text returned with it: {out[3]['without_return_data']!r}"
    try:
        r = read_text(d, text, kw)
    except Exception as e:
        return f"text does not have the {d} layout: {type(e).__name__}: {e}"
    nat = len(molrec["elem"])
    prec = 4 if d == "nglview-sdf" else cfg["prec"]
    # --- atoms: once, in order, right spelling
    want = []
    for i in range(nat):
        info = {"elea": "" if molrec["elea"][i] == -1 else molrec["elea"][i], "elez": molrec["elez"][i],
                "elem": str(molrec["elem"][i]), "mass": molrec["mass"][i], "elbl": str(molrec["elbl"][i])}
        try:
            s = spelled(d, info, bool(molrec["real"][i]), cfg["afmt"], cfg["gfmt"])
        except Exception:
            return None  # malformed override template: outside the property
        if s is not None:
            want.append((i, " ".join(s.split())))
    if len(r["atoms"]) != len(want):
        return f"{len(r['atoms'])} atom lines for {len(want)} listed atoms"
    # --- unit
    word = r["unit_word"]
    requested = canon_unit(cfg["units"]) if cfg["units"] is not None else DEFAULT_UNIT[d]
    if word == "implicit-bohr":
        unit = "Bohr"
    elif word == "implicit-angstrom":
        unit = "Angstrom"
    elif word in NO_ANNOUNCEMENT or d == "mrchem":
        unit = requested
        if unit is None:
            return None
    else:
        unit = UNIT_WORDS.get(d, {}).get(word)
        if unit is None:
            return f"announces an unknown unit word {word!r}"
        if requested is not None and unit != requested:
            return f"announces {word!r} (= {unit}) but {requested} was requested"
    f = expected_factor(molrec, unit)
    g = np.asarray(molrec["geom"], dtype=float).reshape(-1, 3)
    half = Fraction(1, 2 * 10 ** prec)
    for (lab, xyz), (i, s) in zip(r["atoms"], want):
        if lab != s:
            return f"atom {i} is spelled {lab!r}, expected {s!r}"
        for k in range(3):
            if not NUMRE.match(xyz[k]) or (prec > 0 and len(xyz[k].split(".")[-1]) != prec) or (prec == 0 and "." in xyz[k]):
                return f"coordinate {xyz[k]!r} of atom {i} is not printed with {prec} decimals"
            exact = Fraction(float(g[i][k])) * f
            if abs(Fraction(Decimal(xyz[k])) - exact) > half + abs(exact) * Fraction(1, 2 ** 50):
                return (f"coordinate {k} of atom {i} is written as {xyz[k]} but the molecule has {float(exact)!r} in {unit} "
                        f"(announced/requested unit word: {word!r})")
    # --- charge / multiplicity
    c, m = int(molrec["molecular_charge"]), int(molrec["molecular_multiplicity"])
    if d not in ("terachem", "turbomole", "nglview-sdf"):
        if r["chg"] is None or r["chg"] != c:
            return f"total charge stated as {r['chg']}, molecule has {c}"
        if d == "madness":
            if r["open_shell"] != (m != 1):
                return "madness spin_restricted keyword does not follow the multiplicity"
        elif r["mult"] != m:
            return f"multiplicity stated as {r['mult']}, molecule has {m}"
    if d == "molpro":
        gi = [i + 1 for i in range(nat) if not molrec["real"][i]]
        if r["ghost_idx"] != gi:
            return f"molpro dummy card lists {r['ghost_idx']}, ghosts are {gi}"
    if d in ("psi4", "qchem"):
        seps = [int(s) for s in molrec["fragment_separators"]]
        sizes = [b - a for a, b in zip([0] + seps, seps + [nat])]
        if len(sizes) > 1:
            wantf = [[int(molrec["fragment_charges"][i]), int(molrec["fragment_multiplicities"][i]), sizes[i]] for i in range(len(sizes))]
            if r["frags"] != wantf:
                return f"fragment blocks (charge, multiplicity, atoms) are {r['frags']}, molecule has {wantf}"
        elif r["frags"]:
            return "fragment markers in a single-fragment molecule"
    if d == "psi4":
        if r["fix_com"] != bool(molrec["fix_com"]) or r["fix_orientation"] != bool(molrec["fix_orientation"]):
            return "no_com / no_reorient do not follow fix_com / fix_orientation"
    if d == "nglview-sdf":
        conn = molrec.get("connectivity")
        if conn is not None and r["bonds"] != [(a + 1, b + 1, int(o)) for a, b, o in conn]:
            return "sdf bond block is not the molecule's connectivity"
    return None


# ------------------------------------------------------------------------------------------------
# cases

UNITS_CHOICES = [None, None, None, "Bohr", "Angstrom", "bohr", "angstrom", "ANGSTROM", "BOHR", "nm", "pm"]
WIDTHS = [17, 17, 17, 10, 4, 22, 1, 0]
PRECS = [12, 12, 12, 8, 6, 4, 2, 0, 10, 14, 16, 18]
AFMTS = [None, None, "{elem}", "{elez}", "{elem}{elbl}", "{elea}{elem}", "{elez}@{mass}", "{elem}_{elez}", " {elem} ",
         "X{{{elem}}}", "", "{foo}", "{elem", "}{elem}", "{}", "{0}"]
GFMTS = [None, None, "", "", "@{elem}", "Gh({elem}{elbl})", "@{elea}{elem}{elbl}", "{elem}:", "Bq", "{bar}"]


def gen_cfgs(rng, thorough):
    """one configuration per dtype (all 14), with randomised units / width / precision / overrides."""
    cfgs = []
    for d in DTYPES:
        for _rep in range(2 if thorough else 1):
            cfg = {"dtype": d, "units": rng.choice(UNITS_CHOICES), "afmt": None, "gfmt": None,
                   "width": rng.choice(WIDTHS), "prec": rng.choice(PRECS)}
            if d == "turbomole" and rng.random() < 0.6:
                cfg["units"] = rng.choice([None, "Bohr", "bohr"])
            if d == "nglview-sdf" and rng.random() < 0.7:
                cfg["units"] = rng.choice([None, "Angstrom", "angstrom"])
            if rng.random() < 0.15:
                cfg["dtype"] = rng.choice([d.upper(), d.capitalize()])
            if d in ("xyz", "xyz+") and rng.random() < 0.6:
                cfg["afmt"], cfg["gfmt"] = rng.choice(AFMTS), rng.choice(GFMTS)
            elif rng.random() < 0.15:
                cfg["afmt"], cfg["gfmt"] = rng.choice(AFMTS[:8]), rng.choice(GFMTS[:8])      # ignored by fixed-format dtypes
            cfgs.append(cfg)
    return cfgs


def corpus_cfgs():
    out = []
    for d in DTYPES:
        for u in [None, "Bohr", "Angstrom", "bohr", "angstrom", "nm", "pm"]:
            out.append({"dtype": d, "units": u, "afmt": None, "gfmt": None, "width": 17, "prec": 12})
    out.append({"dtype": "xyz", "units": None, "afmt": "{elez}@{mass}", "gfmt": "", "width": 17, "prec": 12})
    out.append({"dtype": "xyz+", "units": "Bohr", "afmt": None, "gfmt": "Gh({elem}{elbl})", "width": 10, "prec": 6})
    out.append({"dtype": "nglview-sdf", "units": None, "afmt": None, "gfmt": "X", "width": 17, "prec": 12})
    out.append({"dtype": "xyz+", "units": None, "afmt": "{elea}{elem}", "gfmt": "@{elea}{elem}{elbl}", "width": 12, "prec": 8})
    out.append({"dtype": "nosuchprogram", "units": None, "afmt": None, "gfmt": None, "width": 17, "prec": 12})
    return out


def run_case(arrays, cfg, via):
    """-> (molrec actually written, implementation outcome, conv, conn)"""
    molrec = build_molrec(arrays)
    mol = None
    if via == "molecule":
        from qcelemental.models import Molecule
        from qcelemental.molparse import from_schema, to_schema
        mol = Molecule(**to_schema(molrec, dtype=2))
        molrec = from_schema(mol.dict(), nonphysical=True)
    out = impl_call(molrec, cfg, mol)
    d = cfg["dtype"].lower()
    units = cfg["units"] if cfg["units"] is not None else DEFAULT_UNIT.get(d, "Bohr")
    conv = _conv(molrec, units)
    conn = sdf_connectivity(molrec, out) if d == "nglview-sdf" else []
    return molrec, out, conv, conn


def branch_hits(molrec, cfg):
    """which branches of the model a successful case exercises (visible in the evidence as corr.hit counts)"""
    d = cfg["dtype"].lower()
    ghosts = not all(bool(r) for r in molrec["real"])
    hits = []
    if d in ("psi4", "qchem"):
        hits.append(f"{d}:{'fragment-blocks' if len(molrec['fragment_separators']) else 'single-fragment'}")
    if d == "psi4":
        hits.append(f"psi4:no_com={bool(molrec['fix_com'])},no_reorient={bool(molrec['fix_orientation'])}")
    if d == "molpro":
        hits.append("molpro:" + ("dummy-card" if ghosts else "no-dummy-card"))
        hits.append("molpro:symmetry=" + str(molrec.get("fix_symmetry", "auto")).lower())
    if d == "gamess":
        hits.append("gamess:" + ("C1" if str(molrec.get("fix_symmetry", "C1")).strip().upper() == "C1" else "blank-card"))
    if d == "nwchem":
        hits.append("nwchem:" + ("symmetry-line" if molrec.get("fix_symmetry") else "no-symmetry-line"))
        hits.append("nwchem:" + ("open-shell-keywords" if int(molrec["molecular_multiplicity"]) != 1 else "closed-shell"))
    if ghosts:
        hits.append(f"{d}:ghost" + (":suppressed" if cfg["gfmt"] == "" and d in ("xyz", "xyz+") else ""))
    if -1 in [int(a) for a in molrec["elea"]]:
        hits.append("elea=-1")
    u = (cfg["units"] or DEFAULT_UNIT.get(d, "")).lower()
    hits.append(f"factor:{molrec['units']}->{u}" + (":pinned" if "input_units_to_au" in molrec else ""))
    return hits


def family_calls(rng):
    """[(arrays, cfg)] in call order: 2-3 molecules sharing symbols, masses, real, geometry, charges, multiplicities and
    fragments (everything the hash covers) but not user labels, fix_com / fix_orientation, fix_symmetry, name; each written for
    the programs whose block shows those fields, every molecule once more after the others."""
    arrays, _ = gen_molrec(rng)
    arrays = dict(arrays)
    for k in ("input_units_to_au", "fix_com", "fix_orientation", "fix_symmetry", "name", "connectivity"):
        arrays.pop(k, None)
    nat = len(arrays["elez"])
    variants = []
    flags = [(False, False), (True, False), (False, True), (True, True)]
    rng.shuffle(flags)
    for i in range(rng.choice([2, 3])):
        a = dict(arrays)
        if flags[i][0]:
            a["fix_com"] = True
        if flags[i][1]:
            a["fix_orientation"] = True
        if i > 0:
            a["elbl"] = [rng.choice(LABELS) for _ in range(nat)]
            sy = rng.choice(SYMMS)
            if sy:
                a["fix_symmetry"] = sy
            a["name"] = rng.choice(["water", "mol_1", "dimer"])
        variants.append(a)
    order = list(range(len(variants)))
    rng.shuffle(order)
    order = order + [order[0]]
    calls = []
    for i in order:
        a = dict(variants[i])                      # a fresh dict per call: its id() keys the predecessors
        for d in ("psi4", "nwchem", rng.choice(["gamess", "molpro", "qchem", "mrchem", "cfour", "xyz+"])):
            calls.append((a, {"dtype": d, "units": rng.choice([None, "Bohr", "Angstrom"]), "afmt": None, "gfmt": None,
                              "width": 17, "prec": rng.choice([8, 12])}))
    return calls


def history_spec(rng, live):
    """one molecule, a shuffled sequence of calls: every dtype once plus the same dtype under the other unit right after"""
    arrays, _ = gen_molrec(rng)
    if live:
        arrays.pop("input_units_to_au", None)
    cfgs = []
    for cfg in gen_cfgs(rng, False):
        cfgs.append(cfg)
        d = cfg["dtype"].lower()
        if d not in ("turbomole", "nglview-sdf") and rng.random() < 0.5:
            other = "Angstrom" if (cfg["units"] or DEFAULT_UNIT[d]).lower().startswith("b") else "Bohr"
            cfgs.append(dict(cfg, units=other, prec=rng.choice(PRECS), width=rng.choice(WIDTHS)))
    rng.shuffle(cfgs)
    return {"arrays": arrays, "cfgs": cfgs, "live": live}


def run_calls(calls):
    """calls: [[arrays, cfg, via], ...] executed in this order in THIS process; -> the oracle's verdict on the LAST one
    (None = it states its molecule)."""
    bad = None
    for arrays, cfg, via in calls:
        molrec, out, _, _ = run_case(arrays, cfg, via)
        bad = oracle(molrec, cfg, out)
    return bad


def with_history(ctx, call, preceding):
    """A case of the main stream failed in this process, after `preceding` other calls.  Decide in FRESH interpreters what the
    failure needs: nothing (-> []), or some of the preceding calls (-> the shortest suffix of them found by bisection, reduced to
    its first call when that alone suffices), or None when no fresh interpreter reproduces it."""
    fails = lambda calls: bool(text_history.fresh({"kind": "cases", "calls": calls}))
    if fails([call]):
        return []
    if not preceding or not fails(preceding + [call]):
        return None
    lo, hi = 1, len(preceding)              # fails with the last `hi` preceding calls; find a short suffix that still fails
    while lo < hi:
        mid = (lo + hi) // 2
        if fails(preceding[-mid:] + [call]):
            hi = mid
        else:
            lo = mid + 1
    suffix = preceding[-hi:]
    if len(suffix) > 1 and fails([suffix[0], call]):
        return [suffix[0]]
    kept = list(suffix)
    if len(kept) <= 12:
        for c in list(kept[1:]):            # the first call of a shortest suffix is needed; try dropping each of the others
            trial = [x for x in kept if x is not c]
            if fails(trial + [call]):
                kept = trial
    return kept


def correspond(ctx):
    corr = Corr()
    corr.rule = ("validated molecules (from_arrays, and via Molecule -> from_schema) of 1-12 atoms with ghosts, labels, 1-4 fragments, "
                 "charges, multiplicities, Bohr/Angstrom, input_units_to_au pinned (both stored units, values across the accepted window) or not, up to 5000 units from the origin, names, frame flags, symmetry, connectivity x all 14 "
                 "dtypes x unit spellings incl. nm/pm (+ families of hash-equal molecules differing in labels / frame flags / symmetry / name, one after the other) x width/precision x atom_format/ghost_format overrides; a case is non-trivial "
                 "when the implementation returned text (not an exception); distinct = distinct (molecule, configuration)")
    rng = ctx.rng
    cases = []
    for a in CORPUS_ARRAYS:
        for cfg in corpus_cfgs():
            cases.append(("corpus", a, cfg, "from_arrays"))
    nmol = 1200 if ctx.thorough else 200
    for k in range(nmol):
        arrays, _ = gen_molrec(rng, far=True)
        via = "molecule" if k % 4 == 3 else "from_arrays"
        if via == "molecule":
            arrays.pop("input_units_to_au", None)
        for cfg in gen_cfgs(rng, ctx.thorough):
            cases.append((via, arrays, cfg, via))
    # ---- families: molecules equal in every HASHED field, different in labels / frame flags / symmetry / name, written one
    #      after the other through Molecule.to_string (state keyed by the hash must not leak from one to the next)
    after = {}
    for k in range(40 if ctx.thorough else 8):
        group = []
        for arrays_v, cfg in family_calls(rng):
            after[id(arrays_v)] = list(group)
            cases.append(("family", arrays_v, cfg, "molecule"))
            group.append([arrays_v, cfg])
    terms, meta = [], []
    executed = []                                   # the calls made so far in this process, in order
    for stream, arrays, cfg, via in cases:
        try:
            molrec, out, conv, conn = run_case(arrays, cfg, via)
        except Exception as e:
            corr.errors.append(f"could not run case {json.dumps([arrays, cfg])[:400]}: {e!r}")
            continue
        corr.count(stream)
        corr.hit(f"{cfg['dtype'].lower()}:{'Ok' if out[0] == 'Ok' else out[1]}")
        case = {"arrays": arrays, "cfg": cfg, "via": via}
        if stream == "family":
            case["after"] = after.get(id(arrays), [])
        if out[0] == "Ok":
            corr.nontriv(case)
            for h in branch_hits(molrec, cfg):
                corr.hit(h)
        bad = oracle(molrec, cfg, out)
        if bad:
            corr.failures.append({"stream": "oracle", "case": case, "what": bad, "observed": list(out), "_at": len(executed)})
        executed.append([arrays, cfg, via])
        if not integral_charges(molrec):
            continue
        terms.append(f"({cfg_term(cfg, conv)}, {mol_term(molrec, conn)}, {out_term(out)})")
        meta.append((stream, case, out))
        if stream != "corpus" and len(corr.samples) < 4 and rng.random() < 0.002:
            corr.sample({"input": case, "output": list(out)})
    # ---- a failing case must replay from its input alone: the first failures are re-run in fresh interpreters; one that
    #      needs earlier calls (state shared between calls) carries the shortest run of them found ("after"), one that no
    #      fresh interpreter reproduces goes to the end of the list
    confirmed, rest, unconfirmed = [], [], []
    for f in corr.failures:
        at = f.pop("_at", None)
        if at is None or len(confirmed) >= 2:
            rest.append(f)
            continue
        call = [f["case"]["arrays"], f["case"]["cfg"], f["case"]["via"]]
        try:
            hist = with_history(ctx, call, executed[:at])
        except Exception as e:
            corr.errors.append(f"history of a failing case: {e!r}")
            hist = None
        if hist is None:
            f["what"] += " [only in this process: not reproduced in a fresh interpreter, with or without the preceding calls]"
            unconfirmed.append(f)
        else:
            if hist:
                f["case"] = dict(f["case"], after=hist)
                f["what"] += f" [after {len(hist)} earlier call(s), first: dtype={hist[0][1]['dtype']} on another molecule]"
            confirmed.append(f)
    corr.failures[:] = confirmed + rest + unconfirmed

    # ---- history: many calls on ONE molrec dict / ONE live Molecule, compared with a fresh interpreter in reverse order
    nhist = 24 if ctx.thorough else 5
    for k in range(nhist):
        spec = history_spec(rng, live=(k % 2 == 1))
        try:
            bad = text_history.check_to_string(spec)
        except Exception as e:
            corr.errors.append(f"history stream: {e!r}")
            continue
        corr.count("history", len(spec["cfgs"]))
        if bad:
            corr.failures.append({"stream": "history", "case": spec, "what": bad, "observed": None})
    corr.sample({"input": {"arrays": CORPUS_ARRAYS[0], "cfg": corpus_cfgs()[0]}, "output": list(meta[0][2])})
    ctx.log(f"{len(terms)} cases through the implementation; evaluating the model")
    bad, errors = eval_with_retry(ctx, "C08", REQ, PRELUDE, "check_case", terms, 100 if not ctx.thorough else 200,
                                  "wcfg * molrec * outcome (string * keywords)")
    corr.errors.extend(f"shard {k}: {e}" for k, e in errors)
    for b in bad[:6]:
        stream, case, out = meta[b]
        got, _ = coqrun.eval_terms("C08", REQ, PRELUDE, [f"let c := {terms[b]} in to_string_model (fst (fst c)) (snd (fst c))"])
        corr.disagreements.append({"stream": stream, "case": case, "impl": list(out), "model": (got or ["?"])[0][:3000]})
    for b in bad[6:]:
        stream, case, out = meta[b]
        corr.disagreements.append({"stream": stream, "case": case, "impl": list(out), "model": "(not printed)"})
    return corr


def search(ctx, corr, reasons):
    """The oracle already judged every generated case; here: the cases where model and implementation
    disagree (again), then a fresh, larger batch concentrated on unit/spelling/charge statements."""
    found = []
    for d in corr.disagreements:
        r = replay(ctx, {"case": d["case"]})
        if r["fails"]:
            found.append({"stream": "search", "case": d["case"], "what": r["oracle"], "observed": r["implementation"]})
    if found or corr.failures:
        return found
    for k in range(400):
        arrays, _ = gen_molrec(ctx.rng)
        for cfg in gen_cfgs(ctx.rng, False):
            molrec, out, _, _ = run_case(arrays, cfg, "from_arrays")
            bad = oracle(molrec, cfg, out)
            if bad:
                found.append({"stream": "search", "case": {"arrays": arrays, "cfg": cfg, "via": "from_arrays"}, "what": bad,
                              "observed": list(out)})
                return found
    return found


def replay(ctx, rp):
    case = rp["case"]
    if rp.get("stream") == "history" or "cfgs" in case:
        bad = text_history.check_to_string(case)
        return {"input": case, "implementation": None, "oracle": bad, "fails": bool(bad)}
    for pre in case.get("after", []):                # the calls that preceded this one (family members / state-setting calls)
        run_case(pre[0], pre[1], pre[2] if len(pre) > 2 else case.get("via", "from_arrays"))
    molrec, out, conv, conn = run_case(case["arrays"], case["cfg"], case.get("via", "from_arrays"))
    bad = oracle(molrec, case["cfg"], out)
    return {"input": case, "implementation": list(out), "oracle": bad, "fails": bool(bad)}


KNOWN = {}

TECHNIQUE = ("Coq proof over a hand-written Gallina model of to_string/_atoms_formatter + tables and unit-factor branch translated "
             "from the source on every run + byte-exact differential correspondence + independent per-dtype reader as oracle")
DESIGN_REF = "DESIGN.md §6 C08"
LEVEL_TEXT = (
    "Machine-checked (Coq 8.16.1, no axioms) theorems about Model/Writers.v over the tables and unit-factor branch regenerated from "
    "to_string.py on every run, for ALL molecules (any atom count, ghost pattern, labels, fragment structure) and configurations. "
    "On structured lines: C08_atoms_listed_once_in_order (atom lines = visible atoms, once, in order, spelled by the dtype's real/ghost "
    "template, coordinates = binary64 product with the unit factor; sdf: all atoms), C08_chgmult_stated (where each program reads total "
    "charge and multiplicity), C08_fragments_stated (psi4/qchem: k-th block = '--', k-th fragment charge/multiplicity, its atoms), "
    "C08_unit_word_is_written, C08_announced_unit_is_written_unit (every dtype x every spelling of bohr/angstrom/nm/pm x stored unit x "
    "pinned input_units_to_au: the announced word's meaning is the unit the factor converts to), C08_factor_table, C08_sdf_is_angstrom, "
    "C08_program_spellings (generated templates and default units = hand-written table of program conventions), "
    "C08_molpro_ghosts_declared / C08_molpro_dummy_card_lists_the_ghosts, C08_printed_digits_nearest and C08_converted_value_nearest "
    "(printed digits = nearest integer to |v|*10^prec; written value = exact product rounded once to binary64). On the rendered "
    "CHARACTERS, re-read by an independent reader: C08_psi4_/C08_xyz_/C08_xyzplus_text_states_the_molecule (the reader model of C07, "
    "tied to from_string), C08_qchem_text_states_the_molecule ($molecule section + input_bohr keyword: atoms, '@' ghosts, printed "
    "coordinates, unit, total and per-fragment charge/multiplicity, any number of fragments), C08_block_text_states_the_atoms (nwchem, "
    "cfour, orca, madness, terachem: header lines / one 'label x y z' line per atom in order under the program's real/ghost spelling "
    "with the printed coordinates / trailer lines), C08_molpro_text_states_the_atoms (atoms between 'geometry={' and '}', dummy / charge / "
    "spin cards after), C08_mrchem_text_states_the_molecule (five header lines stating charge, multiplicity and translate, one line per atom, "
    "'$end', '}'), C08_gamess_text_states_the_molecule (' $data', title and symmetry cards, a blank card unless C1, one five-token card per atom: "
    "name, atomic number - negative for a ghost -, printed coordinates; ' $end'). The model is tied to the implementation on every run by BYTE-EXACT comparison of "
    "the rendered text and of the keyword dictionary (all 14 dtypes, both entry points to_string and Molecule.to_string, incl. "
    "exceptions raised, with and without return_data; stored Bohr/Angstrom x pinned input_units_to_au across the accepted window x "
    "every requested unit for every dtype; molecules up to 5000 units from the origin), and an independent per-dtype reader re-derives atoms, spellings, coordinates, charge, multiplicity, fragment "
    "blocks and announced unit from the implementation's own output; call sequences on one molrec / one live Molecule are compared with "
    "the reversed sequence in a fresh interpreter, and families of hash-equal molecules (different labels, frame flags, symmetry, name) "
    "are written one after the other, each judged against its own record.")
LEVEL_NOTE = (
    "Clause map: atoms once/in order/spelling -> atoms_listed_once_in_order + program_spellings (lines, 14 dtypes), on characters for "
    "psi4, xyz, xyz+, qchem, nwchem, cfour, orca, madness, terachem, molpro, mrchem, gamess; conversion and precision -> is_view + factor_table + "
    "converted_value_nearest + printed_digits_nearest; charge/multiplicity -> chgmult_stated (+ fragments_stated; characters: psi4, xyz+, "
    "qchem, mrchem); announced unit -> unit_word_is_written + announced_unit_is_written_unit + sdf_is_angstrom. Gaps: "
    "turbomole, sdf have theorems on structured lines only (their rendering to characters is definitional in the model and tied by the "
    "byte-exact correspondence and the Python reader, no theorem re-parses it); non-default atom_format/ghost_format only on lines. "
    "Trusted: Coq kernel + vm_compute; the hand-written line assembly (tied differentially); the translator; Z-level binary64 "
    "multiply/divide and '{:.Nf}' models (differentially exact, not proved against IEEE/CPython); the Gallina readers read_qchem / "
    "read_block / read_molpro / read_block_by gamess_match are specifications of how those programs read a block (hand-written); str(mass), conversion_factor for nm/pm and "
    "guess_connectivity are taken from the implementation as external inputs. Scope: integral charges; ASCII; override templates "
    "without format specs; terachem/turbomole/sdf have no slot for charge/multiplicity and madness states only open/closed shell "
    "(the theorem says exactly that); requests outside {Bohr, Angstrom, nm, pm} are outside the property (e.g. units='au' writes "
    "astronomical units under the word 'au').")
