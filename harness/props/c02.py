"""C02 — CODATA constants and aliases: translators (harness/translate/codata.py), correspondence of
Model/Constants.v with qcelemental.physical_constants.PhysicalConstantsContext, and the property oracle
(raw NIST text + hand-written documented alias formulas) evaluated directly on the implementation."""
import decimal
import math
import os
import re
from decimal import Decimal
from fractions import Fraction

from .. import coqrun
from ..core import Corr, TranslateError
from ..coqrun import cz, cstr, cbool, copt
from ..translate import codata

PID = "C02"
ALLOWED_AXIOMS = set()
EXTRA_TARGETS = ["Model/Constants.vo"]
TRUSTED = [
    "translators harness/translate/codata.py (Python ast / fixed-width text / JSON readers, fail-closed; values stay source strings, Decimal parsing is done in Coq)",
    "hand-written model coq/Model/Constants.v of PhysicalConstantsContext.__init__/get and coq/Common/DecC02.v of Decimal(str), "
    "Decimal.__mul__, __truediv__, _fix at prec=28 ROUND_HALF_EVEN (transcribed from Lib/_pydecimal.py), tied by exact differential execution",
    "CPython decimal (libmpdec), str.lower/str.translate on ASCII, collections.OrderedDict, float(Decimal): modelled, not verified. "
    "PROVED about the model (not trusted): dec_fix/dec_mul/dec_div are correct roundings to 28 digits half-even for all operands; the "
    "model's float nearest64(value) satisfies nearest64_ok for every table entry and nearest64_ok means 'no 53-bit number is closer, ties to "
    "even'. float(Decimal) of the implementation is compared bit for bit with nearest64 of the model on every value (and against an "
    "integer-only nearest-double computation in this harness)",
    "pydantic.v1 Datum construction (stores label/units/data/comment/doi unchanged) — observed through the correspondence",
    "non-ASCII names are outside the model (str.lower is modelled on ASCII only); NaN/Infinity/negative zero and Emax/Emin clamping of Decimal are not modelled",
]
ASSUMPTIONS = [
    "constant names and units are printable ASCII (enforced by the translator)",
    "Decimal context is the default one (prec=28, ROUND_HALF_EVEN) when qcelemental is imported",
]

_DATA = {}


def translate(ctx):
    _DATA.clear()
    _DATA.update(codata.generate(ctx.repo))


def _data(ctx):
    """The parsed sources. If the translation failed (reported by core as a broken obligation) the oracle still
    needs NIST's raw text: read just that, and mark the generated Coq tables as unusable for this run."""
    if not _DATA:
        try:
            _DATA.update(codata.generate(ctx.repo))
        except Exception as e:
            _DATA.clear()
            _DATA.update({"raw": {y: codata.read_raw_txt(ctx.repo, y) for y in codata.YEARS}, "gen_failed": repr(e)})
    return _DATA


# ------------------------------------------------------------------------------------------------
# independent helpers (no Decimal, no float())

def parse_nist_number(val, unc):
    """NIST table text -> (coef, exp) exactly; '...' dropped only for exact constants (as the build script does)."""
    s = val
    if unc == "(exact)":
        s = s.replace("...", "")
    s = s.replace(" ", "")
    m = re.fullmatch(r"(-?)(\d*)(?:\.(\d*))?(?:[eE]([-+]?\d+))?", s)
    if not m or not (m.group(2) or m.group(3)):
        raise ValueError(f"not a number: {val!r}")
    sign, ip, fp, ex = m.group(1), m.group(2) or "", m.group(3) or "", int(m.group(4) or 0)
    coef = int((ip + fp) or "0")
    return (-coef if sign else coef, ex - len(fp))


def dec_tuple(d):
    sign, digits, exp = d.as_tuple()
    coef = int("".join(map(str, digits)) or "0")
    return (-coef if sign else coef, exp)


def mk_decimal(coef, exp):
    """exact Decimal from (coef, exp) — no context rounding"""
    return Decimal((1 if coef < 0 else 0, tuple(int(ch) for ch in str(abs(coef))), exp))


def frac_of(coef, exp):
    return Fraction(coef) * (Fraction(10) ** exp)


def nearest_double_parts(fr):
    """(neg, m, e) with 2^52 <= m < 2^53 such that (-1)^neg * m * 2^e is the binary64 nearest to the
    rational fr (ties to even); integer arithmetic only. Normal range only."""
    if fr == 0:
        raise ValueError("zero")
    neg = fr < 0
    fr = abs(fr)
    n, d = fr.numerator, fr.denominator
    e = n.bit_length() - d.bit_length() - 53
    # want 2^52 <= n / (d * 2^e) < 2^53
    while True:
        num, den = (n, d << e) if e >= 0 else (n << -e, d)
        q = num // den
        if q >= 1 << 53:
            e += 1
        elif q < 1 << 52:
            e -= 1
        else:
            break
    r = num - q * den
    if 2 * r > den or (2 * r == den and q % 2 == 1):
        q += 1
    if q == 1 << 53:
        q, e = 1 << 52, e + 1
    if not (-1074 <= e <= 971):
        raise ValueError("outside the normal binary64 range")
    return neg, q, e


def float_parts(x):
    """a finite non-zero normal float -> (neg, m, e), 2^52 <= m < 2^53, exactly."""
    if not isinstance(x, float) or x != x or x in (float("inf"), float("-inf")) or x == 0.0:
        return None
    p, q = abs(x).as_integer_ratio()
    e = -(q.bit_length() - 1)
    sh = 53 - p.bit_length()
    if sh >= 0:
        m = p << sh
    else:
        m = p >> -sh
        if m << -sh != p:
            return None
    if not (-1074 <= e - sh <= 971):
        return None
    return (x < 0, m, e - sh)


def strip_braces(u):
    return u.replace("{", "").replace("}", "")


def mangle_doc(label):
    """The documented attribute spelling: blank, '-' and '{' become '_', '/' becomes 'p', and . , ( ) } vanish."""
    out = []
    for ch in label:
        if ch in ".,()}":
            continue
        out.append({" ": "_", "-": "_", "{": "_", "/": "p"}.get(ch, ch))
    return "".join(out)


def case_variants(name, rng):
    rnd = "".join(ch.upper() if rng.random() < 0.5 else ch.lower() for ch in name)
    out = []
    for v in (name, name.lower(), name.upper(), rnd):
        if v not in out:
            out.append(v)
    return out


# ------------------------------------------------------------------------------------------------
# the documented definitions, written by hand from the comment block of context.py (lines 247-271), the
# comment strings of the alias table and the class docstring.  K = NIST constant of the same context by name,
# L = literal.  In the 2018 set three names of the 2014 vocabulary are spelled with their 2018 names.

def K(name): return ("K", name)
def L(text): return ("L", text)
def MUL(a, b): return ("*", a, b)
def DIV(a, b): return ("/", a, b)


PI36 = "3.14159265358979323846264338327950288"

DOC_ALIASES = {
    "h": K("hertz-joule relationship"),
    "hbar": K("Planck constant over 2 pi"),
    "c": K("inverse meter-hertz relationship"),
    "kb": K("kelvin-joule relationship"),
    "R": K("molar gas constant"),
    "bohr2angstroms": MUL(K("Bohr radius"), L("1E10")),
    "bohr2m": K("Bohr radius"),
    "bohr2cm": MUL(K("Bohr radius"), L("100")),
    "amu2g": MUL(K("atomic mass constant"), L("1000")),
    "amu2kg": K("atomic mass constant"),
    "au2amu": K("electron mass in u"),
    "hartree2J": K("Hartree energy"),
    "hartree2aJ": MUL(K("Hartree energy"), L("1E18")),
    "cal2J": L("4.184"),
    "dipmom_au2si": K("atomic unit of electric dipole mom."),
    "dipmom_au2debye": DIV(K("atomic unit of electric dipole mom."), MUL(K("hertz-inverse meter relationship"), L("1E-21"))),
    "dipmom_debye2si": MUL(K("hertz-inverse meter relationship"), L("1E-21")),
    "c_au": K("inverse fine-structure constant"),
    "hartree2ev": K("Hartree energy in eV"),
    "hartree2wavenumbers": MUL(K("hartree-inverse meter relationship"), L("0.01")),
    "hartree2kJmol": MUL(MUL(K("Hartree energy"), K("Avogadro constant")), L("0.001")),
    "hartree2kcalmol": DIV(MUL(MUL(K("Hartree energy"), K("Avogadro constant")), L("0.001")), L("4.184")),
    "hartree2MHz": MUL(K("hartree-hertz relationship"), L("1E-6")),
    "kcalmol2wavenumbers": DIV(MUL(L("10"), L("4.184")), K("molar Planck constant times c")),
    "e0": K("electric constant"),
    "na": K("Avogadro constant"),
    "me": K("electron mass"),
}
# names of the 2014 vocabulary used above that the 2018 table spells differently / does not publish
DOC_2018_SPELLING = {
    "Planck constant over 2 pi": K("reduced Planck constant"),
    "electric constant": K("vacuum electric permittivity"),
    "molar Planck constant times c": MUL(K("molar Planck constant"), K("speed of light in vacuum")),
}
DOC_DERIVED_2018 = {
    "molar Planck constant times c": MUL(K("molar Planck constant"), K("speed of light in vacuum")),
    "Faraday constant for conventional electric current": DIV(K("Faraday constant"), K("conventional value of coulomb-90")),
    "elementary charge over h": DIV(K("elementary charge over h-bar"), MUL(L("2"), L(PI36))),
}
CALORIE = ("calorie-joule relationship", "J", "4.184", "uncertainty=(exact)")


def eval_doc(e, rawmap, year, mode):
    """mode 'Q': exact Fraction; mode 'D': Python Decimal at the default context (a second, order-dependent opinion)."""
    tag = e[0]
    if tag == "K":
        low = e[1].lower()
        if low in rawmap:
            c, x = parse_nist_number(rawmap[low][1], rawmap[low][2])
            return frac_of(c, x) if mode == "Q" else mk_decimal(c, x)
        if year == 2018 and e[1] in DOC_2018_SPELLING:
            return eval_doc(DOC_2018_SPELLING[e[1]], rawmap, year, mode)
        raise KeyError(e[1])
    if tag == "L":
        c, x = parse_nist_number(e[1], "")
        return frac_of(c, x) if mode == "Q" else mk_decimal(c, x)
    a, b = eval_doc(e[1], rawmap, year, mode), eval_doc(e[2], rawmap, year, mode)
    return a * b if tag == "*" else a / b


# ------------------------------------------------------------------------------------------------
# implementation access

ROUTES = ("get", "tuple", "attr", "item")
EK = {"KeyError": "PyKeyError", "AttributeError": "PyAttributeError", "ValueError": "PyValueError",
      "TypeError": "PyTypeError", "IndexError": "PyIndexError"}


# A call history is a list of ops executed in ONE process after `import qcelemental`:
#   ["new", "CODATA2014" | "CODATA2018" | None]   construct a context (None = no argument); it becomes object #len(objs)
#   ["units", k]                                   use object #k for a unit conversion (builds its pint registry from raw_codata)
# Object "default" is the module-level singleton qcelemental.constants. The base objects of every run are BASE_OPS; the
# `history` stream continues with LATER_OPS (second and third contexts of each year, built in both orders, each used for a
# unit conversion before the next one is built) and enumerates every freshly built object like the base ones.
BASE_OPS = [["new", "CODATA2014"], ["new", "CODATA2018"], ["new", None]]
BASE_NAMES = {"CODATA2014": 0, "CODATA2018": 1, "noarg": 2}
LATER_OPS = [["units", 0], ["units", 1], ["units", "default"],
             ["new", "CODATA2018"], ["units", 3], ["new", "CODATA2014"], ["units", 4],
             ["new", "CODATA2014"], ["units", 5], ["new", "CODATA2018"], ["units", 6]]
YEAR_OF_ARG = {"CODATA2014": 2014, "CODATA2018": 2018, None: 2014}


def run_ops(ops, objs=None):
    """Execute a call history; -> list of constructed objects (in construction order)."""
    import qcelemental
    from qcelemental.physical_constants import PhysicalConstantsContext
    objs = [] if objs is None else objs
    for op, arg in ops:
        if op == "new":
            objs.append(PhysicalConstantsContext() if arg is None else PhysicalConstantsContext(arg))
        elif op == "units":
            o = qcelemental.constants if arg == "default" else objs[arg]
            o.conversion_factor("hartree", "kJ/mol")
        else:
            raise ValueError(op)
    return objs


def _drop_op(ops, obj, i):
    """ops without op i (object numbers renumbered); None if op i builds the object that is asked."""
    if ops[i][0] == "units":
        return [list(o) for j, o in enumerate(ops) if j != i], obj
    k = sum(1 for o in ops[:i] if o[0] == "new")
    if obj == k:
        return None
    out = []
    for j, o in enumerate(ops):
        if j == i:
            continue
        if o[0] == "units" and o[1] != "default":
            if o[1] == k:
                continue
            out.append(["units", o[1] - 1 if o[1] > k else o[1]])
        else:
            out.append(list(o))
    return out, (obj - 1 if obj != "default" and obj > k else obj)


def minimise_history(ctx, failures, budget=36):
    """Shorten the call history of the first failing case of each stream: drop ops (last first) as long as a FRESH process
    executing the shorter history still fails the oracle. Bounded by `budget` probe processes (about 1.5 s each)."""
    import json
    import subprocess
    import sys
    seen = set()
    tmp = os.path.join(coqrun.BUILD, f"c02-history-probe-{os.getpid()}.json")
    for f in failures:
        case = f.get("case") or {}
        if "ops" not in case or f["stream"] in seen or case.get("route") == "construct":
            continue
        seen.add(f["stream"])
        ops, obj = [list(o) for o in case["ops"]], case["obj"]
        i = len(ops) - 1
        while i >= 0 and budget > 0:
            cand = _drop_op(ops, obj, i)
            if cand is not None:
                budget -= 1
                with open(tmp, "w") as fh:
                    json.dump({"stream": f["stream"], "case": dict(case, ops=cand[0], obj=cand[1])}, fh)
                try:
                    rc = subprocess.run([sys.executable, "-c", "import sys; from harness.core import main; sys.exit(main())", ctx.pid, "--replay", tmp],
                                        cwd=os.path.dirname(os.path.dirname(os.path.dirname(os.path.abspath(__file__)))),
                                        stdout=subprocess.DEVNULL, stderr=subprocess.DEVNULL, timeout=60).returncode
                except Exception:
                    rc = None
                if rc == 1:
                    ops, obj = cand
            i -= 1
        if len(ops) < len(case["ops"]):
            f["case"] = dict(case, ops=ops, obj=obj, ops_before_minimisation=case["ops"])
    try:
        os.remove(tmp)
    except OSError:
        pass


def contexts():
    import qcelemental
    objs = run_ops(BASE_OPS)
    out = {nm: (YEAR_OF_ARG[BASE_OPS[k][1]], objs[k]) for nm, k in BASE_NAMES.items()}
    out["default"] = (2014, qcelemental.constants)
    return {k: out[k] for k in ("CODATA2014", "CODATA2018", "default", "noarg")}   # noarg: the documented default of the constructor argument


GET_FORMS = {
    "get": [lambda o, n: o.get(n), lambda o, n: o.get(n, False), lambda o, n: o.get(n, return_tuple=False),
            lambda o, n: o.get(physical_constant=n), lambda o, n: o.get(physical_constant=n, return_tuple=False)],
    "tuple": [lambda o, n: o.get(n, return_tuple=True), lambda o, n: o.get(n, True),
              lambda o, n: o.get(physical_constant=n, return_tuple=True), lambda o, n: o.get(return_tuple=True, physical_constant=n)],
}
GET_FORM_TEXT = {
    "get": ["get(name)", "get(name, False)", "get(name, return_tuple=False)", "get(physical_constant=name)",
            "get(physical_constant=name, return_tuple=False)"],
    "tuple": ["get(name, return_tuple=True)", "get(name, True)", "get(physical_constant=name, return_tuple=True)",
              "get(return_tuple=True, physical_constant=name)"],
}


def impl_call(cobj, route, name, form=0):
    """-> ('datum', label, units, (coef,exp), comment, doi) | ('float', x) | ('err', class) | ('other', repr).
    form: which of the equivalent documented spellings of the get() call is used (GET_FORM_TEXT)."""
    try:
        if route in ("get", "tuple"):
            r = GET_FORMS[route][form or 0](cobj, name)
        elif route == "attr":
            r = getattr(cobj, name)
        else:
            r = cobj.pc[name]
    except Exception as e:
        return ("err", type(e).__name__)
    if route in ("get", "attr"):
        if isinstance(r, float):
            return ("float", r)
        return ("other", repr(r)[:80])
    try:
        if not isinstance(r.data, Decimal) or not r.data.is_finite():
            return ("other", repr(r.data)[:80])
        return ("datum", r.label, r.units, dec_tuple(r.data), r.comment, r.doi)
    except Exception as e:
        return ("other", repr(e)[:80])


def expect_term(out):
    if out[0] == "datum":
        _, lab, un, (c, x), com, doi = out
        return f"(EDatum {cstr(lab)} {cstr(un)} {cz(c)} {cz(x)} {cstr(com)} {copt(doi, cstr)})"
    if out[0] == "float":
        p = float_parts(out[1])
        if p is None:
            return None
        return f"(EFloat {cbool(p[0])} {cz(p[1])} {cz(p[2])})"
    if out[0] == "err":
        return f"(EErr {EK.get(out[1], 'PyAssertion')})"
    return None


RT = {"get": "RGet", "tuple": "RGetTuple", "attr": "RAttr", "item": "RItem"}


# ------------------------------------------------------------------------------------------------
# the property oracle

def build_spec(data, year):
    """What the property says every name must deliver, from the raw NIST text and the documented formulas only.
    -> {lower name: dict(label, units_nobrace | None, value (coef,exp) | None, frac, comment | None, kind)}"""
    raw = data["raw"][year]
    rawmap = {r[0].lower(): r for r in raw}
    spec = {}
    for name, val, unc, unit in raw:
        c, x = parse_nist_number(val, unc)
        spec[name.lower()] = dict(label=name, units=unit, value=(c, x), frac=frac_of(c, x), comment="uncertainty=" + unc, kind="nist")
    spec[CALORIE[0]] = dict(label=CALORIE[0], units="J", value=(4184, -3), frac=Fraction(4184, 1000), comment=CALORIE[3], kind="calorie")
    if year == 2018:
        for nm, f in DOC_DERIVED_2018.items():
            spec[nm.lower()] = dict(label=nm, units=None, value=None, frac=eval_doc(f, rawmap, year, "Q"),
                                    dvalue=eval_doc(f, rawmap, year, "D"), comment=None, kind="derived")
    for nm, f in DOC_ALIASES.items():
        spec[nm.lower()] = dict(label=nm, units=None, value=None, frac=eval_doc(f, rawmap, year, "Q"),
                                dvalue=eval_doc(f, rawmap, year, "D"), comment=None, kind="alias")
    return spec


def build_legacy_spec(data):
    """2018: every 2014 NIST name stays retrievable; it carries the value published in 2018 under the same name if
    there is one, else a value within 1e-4 of its 2014 value (26 renamed constants) and the 2014 spelling as label."""
    raw14 = {r[0].lower(): r for r in data["raw"][2014]}
    raw18 = {r[0].lower(): r for r in data["raw"][2018]}
    out = {}
    for low, (name, val, unc, unit) in raw14.items():
        if low not in raw18:
            c, x = parse_nist_number(val, unc)
            out[low] = dict(label14=name, frac14=frac_of(c, x), units=unit)
    return out


def oracle(data, year, spec, legacy, route, name, out, attr_of=None):
    """Judge one answer of the implementation. None = fine."""
    if route == "attr":
        low = attr_of
    else:
        low = name.lower()
    if route == "item" and name != low:
        return None   # pc[...] is keyed by the lower-cased name only; the property does not speak about other spellings
    sp = spec.get(low)
    lg = legacy.get(low) if year == 2018 else None
    if sp is None and lg is None:
        return None   # not a name the property speaks about
    if out[0] == "err":
        return f"{'legacy 2014 name' if sp is None else sp['kind'] + ' constant'} not retrievable: raised {out[1]}"
    if out[0] == "other":
        return f"unexpected kind of answer {out[1]}"
    if out[0] == "datum":
        _, lab, un, (c, x), com, doi = out
        got = frac_of(c, x)
        if sp is not None:
            if lab != sp["label"]:
                return f"label {lab!r} is not the published name {sp['label']!r}"
            if sp["value"] is not None and (c, x) != sp["value"]:
                return f"Decimal value {c}E{x} differs from the published {sp['value'][0]}E{sp['value'][1]}"
            if sp["units"] is not None and strip_braces(un) != strip_braces(sp["units"]):
                return f"unit {un!r} differs from the published {sp['units']!r}"
            if sp["comment"] is not None and com != sp["comment"]:
                return f"uncertainty text {com!r} differs from {sp['comment']!r}"
            if sp["value"] is None:
                if abs(got - sp["frac"]) > abs(sp["frac"]) * Fraction(1, 10 ** 26):
                    return f"alias value {c}E{x} is not its documented definition ({float(sp['frac'])!r}) to 1e-26"
                if dec_tuple(sp["dvalue"]) != (c, x):
                    return f"alias value {c}E{x} differs from the documented formula in Decimal arithmetic {sp['dvalue']}"
        else:
            if lab != lg["label14"]:
                return f"legacy 2014 name carries label {lab!r}, NIST 2014 published {lg['label14']!r}"
            if abs(got - lg["frac14"]) > abs(lg["frac14"]) * Fraction(1, 10 ** 4):
                return f"legacy 2014 name carries {float(got)!r}, not within 1e-4 of its 2014 value {float(lg['frac14'])!r}"
        return None
    # float
    x = out[1]
    fp = float_parts(x)
    if fp is None:
        return f"float form {x!r} is not a normal finite double"
    if sp is not None and sp["value"] is not None:
        want = nearest_double_parts(sp["frac"])
        if fp != want:
            return f"float form {x.hex()} is not the double nearest to the published value ({math.ldexp(want[1], want[2]).hex()})"
    elif sp is not None:
        want = nearest_double_parts(frac_of(*dec_tuple(sp["dvalue"])))
        if fp != want:
            return f"float form {x.hex()} is not the double nearest to the documented alias value"
    else:
        got = Fraction(x)
        if abs(got - lg["frac14"]) > abs(lg["frac14"]) * Fraction(1, 10 ** 4):
            return f"legacy 2014 name gives {x!r}, not within 1e-4 of its 2014 value"
    return None


def gen_requests(ctx, data, ctxs):
    """(ctxname, route, name, attr_of) requests. attr_of = lower name whose attribute this is."""
    rng = ctx.rng
    reqs = []
    for cname, (year, cobj) in ctxs.items():
        names = {}
        for r in data["raw"][year]:
            names[r[0].lower()] = r[0]
        if year == 2018:
            for r in data["raw"][2014]:
                names.setdefault(r[0].lower(), r[0])
            for nm in DOC_DERIVED_2018:
                names.setdefault(nm.lower(), nm)
        names.setdefault(CALORIE[0], CALORIE[0])
        for nm in DOC_ALIASES:
            names.setdefault(nm.lower(), nm)
        # whatever else the implementation holds (so that the model is compared on every key)
        try:
            for k, q in cobj.pc.items():
                names.setdefault(k, q.label if isinstance(q.label, str) and q.label.lower() == k else k)
        except Exception:
            pass
        light = (cname in ("default", "noarg")) and not ctx.thorough
        for low, label in names.items():
            if not label.isascii():
                continue
            vs = case_variants(label, rng)
            if light:
                vs = vs[:1] + vs[-1:]
            for v in vs:
                for route in ("get", "tuple", "item"):
                    reqs.append((cname, route, v, None))
            att = mangle_doc(label)
            reqs.append((cname, "attr", att, low))
            if att.upper() != att and not light:
                reqs.append((cname, "attr", att.upper(), None))
        # names that are not constants
        for bad in ["", " ", "speed of light", "planck", "h ", " h", "hartree energy ", "Hartree  energy", "pi", "hartree2kcal",
                    "electron mass in", "avogadro", "K", "1", "{220}"]:
            for route in ("get", "tuple", "item"):
                reqs.append((cname, route, bad, None))
        for bad in ["Hartree_energy_", "hartree_Energy", "planck", "H", "nope", "speed_of_light"]:
            reqs.append((cname, "attr", bad, None))
    return reqs


CORPUS = [
    ("CODATA2014", "get", "speed of light in vacuum"), ("CODATA2018", "get", "Hartree energy in eV"),
    ("CODATA2014", "tuple", "HARTREE2KCALMOL"), ("CODATA2018", "tuple", "kcalmol2wavenumbers"),
    ("CODATA2018", "tuple", "elementary charge over h"), ("CODATA2018", "tuple", "Planck constant over 2 pi"),
    ("CODATA2018", "tuple", "tau mass energy equivalent in MeV"), ("CODATA2018", "get", "{220} lattice spacing of silicon"),
    ("CODATA2014", "attr", "dipmom_au2debye"), ("CODATA2018", "attr", "hartree2aJ"), ("default", "attr", "bohr2angstroms"),
    ("CODATA2014", "tuple", "electron g factor"), ("CODATA2014", "get", "atomic unit of permittivity"),
    # regression pins for the repaired finding C02-legacy-label-case (fix 3f682e0)
    ("CODATA2018", "attr", "tau_mass_energy_equivalent_in_MeV", "tau mass energy equivalent in mev"),
    ("CODATA2014", "attr", "tau_mass_energy_equivalent_in_MeV", "tau mass energy equivalent in mev"),
    ("CODATA2018", "tuple", "tau mass energy equivalent in MeV"),
]


def correspond(ctx):
    corr = Corr()
    corr.rule = ("every name the property speaks about (all NIST rows of the context's year, the 2014 names in the 2018 set, calorie-joule, "
                 "the 27 aliases, the 3 derived 2018 constants) plus every other key the implementation holds, x {published spelling, "
                 "lower, upper, random case} x {get, get(return_tuple), pc[...], attribute}, in CODATA2014, CODATA2018, the default "
                 "singleton and a context constructed without argument; plus non-names. Call histories (wave 4): the same enumeration on the second and third "
                 "context of each year built later in the same process (2018 after 2014, 2014 after 2018, each object used for a unit conversion "
                 "before the next is built), and once more, in shuffled order, on the first objects and the singleton after all of that. A case is non-trivial if the implementation returned a value (not an error); distinct = "
                 "distinct (context object, route, spelling). Decimal values compared as (coefficient, exponent) i.e. str(Decimal) exactly; "
                 "floats via the exact (mantissa, exponent) against the nearest-binary64 specification.")
    data = _data(ctx)
    try:
        ctxs = contexts()
    except Exception as e:
        corr.failures.append({"stream": "construct", "case": {"ctx": "any", "route": "construct", "name": ""},
                              "what": f"PhysicalConstantsContext could not be constructed: {type(e).__name__}: {e}", "observed": repr(e)})
        return corr
    objs = [ctxs[nm][1] for nm in ("CODATA2014", "CODATA2018", "noarg")]       # objects #0 #1 #2 of the call history
    specs = {y: build_spec(data, y) for y in (2014, 2018)}
    legacy = build_legacy_spec(data)
    # corpus entries: (ctx, route, name) or (ctx, route, attribute, lower-cased constant name the attribute belongs to)
    reqs = []
    for ent in CORPUS:
        c, r, n = ent[:3]
        reqs.append((c, r, n, ent[3] if len(ent) > 3 else n.lower()))
    reqs += gen_requests(ctx, data, ctxs)
    terms, meta = [], []
    seen = set()
    term_seen = set()
    first_out = {}          # (ctx, route, name) -> answer of the base object, for the history stream
    forms = {}              # (ctx, route, name) -> spelling of the get() call (GET_FORM_TEXT); the published spelling always uses form 0

    def judge(stream, tag, year, cobj, route, name, attr_of, case, sample=False, distinct=True):
        form = forms.get((case["ctx"], route, name), 0)
        if form:
            case["form"] = form
            case["call"] = GET_FORM_TEXT[route][form]
            corr.hit(f"call_form_{route}_{form}")
        out = impl_call(cobj, route, name, form)
        corr.count(f"{tag}:{route}")
        corr.hit("impl_" + out[0] + ("_" + out[1] if out[0] == "err" else ""))
        if out[0] in ("datum", "float"):
            if distinct:
                corr.nontriv((tag, route, name))
            if sample and ctx.rng.random() < 0.0004:
                corr.sample({"ctx": tag, "route": route, "name": name, "impl": out[1:] if out[0] == "datum" else out[1].hex()})
        bad = oracle(data, year, specs[year], legacy, route, name, out, attr_of)
        if bad:
            corr.failures.append({"stream": stream + ":" + route, "case": case, "what": bad, "observed": out})
        et = expect_term(out)
        if et is None:
            if not bad:
                corr.failures.append({"stream": stream + ":" + route, "case": case, "what": f"answer outside the modelled domain: {out}", "observed": out})
            return out
        term = f"({cz(year)}, {RT[route]}, {cstr(name)}, {et})"
        if term not in term_seen:          # the model is a function of (year, route, name): identical cases are evaluated once
            term_seen.add(term)
            terms.append(term)
            meta.append((case, out))
        return out

    base_reqs = []
    for cname, route, name, attr_of in reqs:
        key = (cname, route, name)
        if key in seen:
            continue
        seen.add(key)
        base_reqs.append((cname, route, name, attr_of))
        year, cobj = ctxs[cname]
        if route in GET_FORMS and name != name.lower() and name != name.upper() and attr_of is None:
            # mixed-case spellings (the published one when it has capitals, and the random-case one): any equivalent call form
            forms[key] = ctx.rng.randrange(len(GET_FORMS[route]))
        case = {"ctx": cname, "route": route, "name": name, "attr_of": attr_of}
        first_out[key] = judge("oracle", cname, year, cobj, route, name, attr_of, case, sample=True)

    # ---- call histories: contexts built later in the same process, and the base objects looked at again afterwards ----
    # (state shared between contexts: the module-level NIST tables behind raw_codata, class attributes, the units registry)
    by_ctx = {}
    for cname, route, name, attr_of in base_reqs:
        by_ctx.setdefault(cname, []).append((route, name, attr_of))
    done_ops = [list(o) for o in BASE_OPS]
    nth = {2014: 2, 2018: 1}            # contexts of that year built so far (singleton, #0, noarg / #1)
    changed = 0
    try:
        for op in LATER_OPS:
            run_ops([op], objs)
            done_ops.append(list(op))
            if op[0] != "new":
                continue
            idx = len(objs) - 1
            year = YEAR_OF_ARG[op[1]]
            nth[year] += 1
            like = "CODATA%d" % year
            tag = f"{like}#{nth[year]}"
            for route, name, attr_of in by_ctx[like]:
                case = {"ctx": like, "route": route, "name": name, "attr_of": attr_of, "ops": [list(o) for o in done_ops], "obj": idx}
                out = judge("oracle:history", tag, year, objs[idx], route, name, attr_of, case)
                if out != first_out[(like, route, name)] and not (out[0] == "float" and out[1] != out[1]):
                    changed += 1
        # afterwards: every object built so far (and the singleton) answers as it did when it was new; requests in another order
        again = [("CODATA2014", 0), ("CODATA2018", 1), ("noarg", 2), ("default", "default")]
        for cname, idx in again:
            year, cobj = ctxs[cname]
            order = list(by_ctx[cname])
            ctx.rng.shuffle(order)
            for route, name, attr_of in order:
                case = {"ctx": cname, "route": route, "name": name, "attr_of": attr_of, "ops": [list(o) for o in done_ops], "obj": idx}
                out = judge("oracle:afterwards", cname + "@end", year, cobj, route, name, attr_of, case, distinct=False)
                if out != first_out[(cname, route, name)] and not (out[0] == "float" and out[1] != out[1]):
                    changed += 1
    except Exception as e:
        corr.failures.append({"stream": "oracle:history", "case": {"ctx": "any", "route": "construct", "name": "", "ops": [list(o) for o in done_ops]},
                              "what": f"call history could not be executed: {type(e).__name__}: {e}", "observed": repr(e)})
    corr.hit("history_answers_changed" if changed else "history_answers_unchanged")
    if changed:
        corr.notes.append(f"{changed} answers of later-built / re-examined contexts differ from the first answers (each judged by the oracle and the model)")
    # completeness: no published constant is missing / nothing else is offered under a non-documented key
    keyed = [(cname, year, cobj, {}) for cname, (year, cobj) in ctxs.items()]
    for idx in range(len(BASE_OPS), len(objs)):
        year = getattr(objs[idx], "year", None)
        if year in (2014, 2018):
            keyed.append((f"CODATA{year}#obj{idx}", year, objs[idx], {"ops": [list(o) for o in done_ops], "obj": idx}))
    for cname, year, cobj, hist in keyed:
        allowed = set(specs[year]) | (set(legacy) if year == 2018 else set())
        cn = cname.split("#")[0]
        try:
            keys = list(cobj.pc.keys())
        except Exception:
            keys = []
        corr.count(f"{cname}:keys", len(keys))
        for k in keys:
            if k not in allowed:
                corr.failures.append({"stream": "oracle:extra-key", "case": dict({"ctx": cn, "route": "item", "name": k, "attr_of": None, "extra": True}, **hist),
                                      "what": f"key {k!r} is neither a published constant nor a documented alias", "observed": k})
        for k in allowed:
            if k not in keys:
                corr.failures.append({"stream": "oracle:missing-key", "case": dict({"ctx": cn, "route": "item", "name": k, "attr_of": None}, **hist),
                                      "what": f"{k!r} is missing from pc", "observed": None})
    if any("ops" in (f.get("case") or {}) for f in corr.failures):
        minimise_history(ctx, corr.failures)
    c0 = CORPUS[0]
    corr.sample({"ctx": c0[0], "route": c0[1], "name": c0[2], "impl": impl_call(ctxs[c0[0]][1], c0[1], c0[2])[1].hex()})
    if data.get("gen_failed"):
        corr.notes.append("translation failed (" + data["gen_failed"][:200] + "); model not evaluated, oracle only")
        return corr
    ctx.log(f"{len(terms)} lookups through the implementation; evaluating the model")
    bad, errors = coqrun.eval_bad_indices("C02", ["QV.Common.Outcome", "QV.Common.DecC02", "QV.Model.Constants"], "", "check_case", terms,
                                          shard=1200, ty="Z * route * string * expect")
    corr.errors.extend(f"shard {k}: {e}" for k, e in errors)
    for b in bad[:8]:
        case, out = meta[b]
        fn = {"get": "get", "tuple": "get", "item": "getitem", "attr": "getattr"}[case["route"]]
        got, _ = coqrun.eval_terms("C02", ["QV.Common.Outcome", "QV.Common.DecC02", "QV.Model.Constants"], "",
                                   [f"{fn} (ctx_of {cz(ctxs[case['ctx']][0])}) {cstr(case['name'])}"])
        corr.disagreements.append({"stream": "model", "case": case, "impl": out, "model": got})
    if len(bad) > 8:
        corr.notes.append(f"{len(bad)} disagreements in total; first 8 listed")
    corr.exhaustive = True
    corr.notes.append("exhaustive over the keys of both contexts and the default singleton (finite domain); letter case: 4 spellings per name "
                      "(all spellings are covered by theorem C02_get_case_insensitive)")
    return corr


def search(ctx, corr, reasons):
    """Everything the oracle can see was already judged in correspond (exhaustive over names); re-judge disagreeing cases."""
    found = []
    data = _data(ctx)
    try:
        ctxs = contexts()
    except Exception:
        return found
    specs = {y: build_spec(data, y) for y in (2014, 2018)}
    legacy = build_legacy_spec(data)
    for d in corr.disagreements:
        case = d["case"]
        if "ops" in case:
            continue      # a call-history case: judged by the oracle when it was executed (the history cannot be re-run in this process)
        year, cobj = ctxs[case["ctx"]]
        out = impl_call(cobj, case["route"], case["name"], case.get("form", 0))
        bad = oracle(data, year, specs[year], legacy, case["route"], case["name"], out, case.get("attr_of"))
        if bad:
            found.append({"stream": "search", "case": case, "what": bad, "observed": out})
    return found


def replay(ctx, rp):
    case = rp["case"]
    data = _data(ctx)
    specs = {y: build_spec(data, y) for y in (2014, 2018)}
    legacy = build_legacy_spec(data)
    if "ops" in case:
        # a call-history case: this process has only imported qcelemental; execute the recorded history, then ask the recorded object
        import qcelemental
        try:
            objs = run_ops(case["ops"])
        except Exception as e:
            return {"case": case, "fails": True, "oracle": f"call history could not be executed: {type(e).__name__}: {e}"}
        if case.get("route") == "construct":
            return {"fails": False, "note": "the call history executes"}
        cobj = qcelemental.constants if case["obj"] == "default" else objs[case["obj"]]
        year = {"CODATA2014": 2014, "CODATA2018": 2018, "default": 2014, "noarg": 2014}[case["ctx"]]
    else:
        ctxs = contexts()
        if case.get("route") == "construct":
            return {"fails": False, "note": "contexts construct"}
        year, cobj = ctxs[case["ctx"]]
    out = impl_call(cobj, case["route"], case["name"], case.get("form", 0))
    if case.get("extra"):
        allowed = set(specs[year]) | (set(legacy) if year == 2018 else set())
        bad = None if (out[0] == "err" or case["name"] in allowed) else "key is neither a published constant nor a documented alias"
    else:
        bad = oracle(data, year, specs[year], legacy, case["route"], case["name"], out, case.get("attr_of"))
        if bad is None and out[0] == "err" and rp.get("stream") == "oracle:missing-key":
            bad = "missing from pc"
    return {"case": case, "implementation": out if out[0] != "float" else ("float", out[1].hex()), "oracle": bad, "fails": bool(bad)}


KNOWN = {}

TECHNIQUE = ("Coq proofs over tables regenerated from /repo by fail-closed translators (shipped dicts, raw NIST text/JSON, alias arithmetic as an "
             "expression AST) and a hand-written Gallina model of Python Decimal (prec 28, half-even) and of PhysicalConstantsContext; "
             "exhaustive exact differential correspondence against the implementation")
DESIGN_REF = "DESIGN.md §6 C02"
LEVEL_TEXT = (
    "Machine-checked (Coq 8.16.1, no axioms) theorems over Model/Constants.v and tables regenerated from /repo on every run: "
    "C02_table_is_nist (every row of codata-2014.txt / codata-2018.txt is retrievable in ANY letter case with NIST's name, digits as Decimal, "
    "unit modulo braces, uncertainty text, and as the mangled attribute), C02_table_is_srd121_json (same against the SRD-121 JSON, units exact), "
    "C02_no_undocumented_keys (converse), C02_get_case_insensitive / C02_get_upper_lower (for all strings), C02_mangle_is_documented (for all strings) "
    "and C02_attr_is_mangled_label, C02_alias_definitions and C02_derived_2018_definitions (each of the 27 aliases / 3 derived constants equals, "
    "digit for digit, its hand-written documented formula evaluated in 28-digit half-even Decimal arithmetic, both sets), "
    "C02_alias_power_of_ten_sanity (agreement with the same formula in exact rationals to 1e-26), C02_alias_documented_magnitudes (within 1e-5 of "
    "the numbers printed in the comment block), C02_calorie_joule, C02_renames_2018 (26 renames: old name carries the value NIST 2018 publishes "
    "under the new name and is within 1e-4 of its 2014 value), C02_legacy_names_retrievable (every 2014 key, any case, is retrievable in 2018), "
    "C02_legacy_spelling (all 26 legacy entries carry NIST's 2014 spelling as label and attribute; repaired by fix 3f682e0), C02_legacy_tau_attribute. Tied to the code by the translators and by exhaustive, "
    "exact differential execution over every key x 4 spellings x 4 access routes x 3 context objects; the float form is checked on every value "
    "against the model's nearest64 bit for bit. Wave 2: C02_decimal_fix_is_correct_rounding, C02_decimal_ndigits, "
    "C02_decimal_mul_rounds_exact_product, C02_decimal_div_is_correct_rounding (the Decimal model is a correct 28-digit half-even rounding of the "
    "exact rational result, for ALL operands), C02_nearest64_ok_meaning (for all inputs: no number with a 53-bit mantissa is closer; ties to even) "
    "and C02_float_is_nearest (every table value's float form is that nearest double). Wave 3: C02_routes_agree (pc[lower name], get(return_tuple), "
    "get and the attribute deliver the same Datum / the float of the same Decimal); a context constructed without argument is a fourth "
    "object of the correspondence. Wave 4 (correspondence only, no new theorem): call histories — the full enumeration is repeated on the second and third "
    "context of each year built later in the same process (both orders, a unit conversion on each object before the next is built) and on the first "
    "objects and the singleton afterwards (shuffled order); failing histories are minimised in fresh processes and replayed from `import qcelemental`; "
    "equivalent spellings of the get() call (positional/keyword arguments) are drawn per request.")
LEVEL_NOTE = (
    "Clause map (full version at the top of coq/Props/C02.v): retrievable by NIST name in any case -> C02_table_is_nist, C02_get_case_insensitive, "
    "C02_get_upper_lower, C02_no_undocumented_keys; as attribute -> C02_table_is_nist, C02_mangle_is_documented, C02_attr_is_mangled_label; value/unit/"
    "label/uncertainty = NIST -> C02_table_is_nist, C02_table_is_srd121_json; float = nearest double -> C02_float_is_nearest, C02_nearest64_ok_meaning "
    "(CPython's float(Decimal) itself: correspondence, bit for bit); aliases = documented definitions -> C02_alias_definitions, "
    "C02_alias_power_of_ten_sanity, C02_alias_documented_magnitudes, C02_calorie_joule, C02_derived_2018_definitions, C02_decimal_*; 2018 keeps 2014 "
    "names -> C02_renames_2018, C02_legacy_names_retrievable, C02_legacy_spelling; four access routes -> C02_routes_agree; default singleton / default "
    "constructor argument = CODATA2014 -> translator (verbatim, fail-closed) + correspondence only; every later-built context of a process answers like "
    "the first (no state shared between contexts) -> verbatim pin of __init__ + correspondence only (streams oracle:history, oracle:afterwards). "
    "Trusted: Coq kernel + vm_compute; translators harness/translate/codata.py; the hand-written models of Decimal (Common/DecC02.v) and of "
    "__init__/get (Model/Constants.v), tied by correspondence only; CPython decimal/str/OrderedDict/float(Decimal) and pydantic Datum are modelled, "
    "not verified (but the Decimal model itself is now PROVED to be a correct rounding, and 'float is the nearest double' is a theorem about "
    "the model's nearest64 on every table value, tied to the implementation's float(Decimal) by exact comparison). Exact-Decimal equality of an alias with its documented formula "
    "depends on the evaluation order chosen for the documented formula (kcalmol2wavenumbers is written 10*4.184/x, not (10/x)*4.184 as the comment "
    "prints it; the two differ in the 28th digit); the order-independent content is C02_alias_power_of_ten_sanity. Finite-table theorems are by "
    "vm_compute + forallb_forall; the case-insensitivity and mangling theorems are by induction over all strings. Non-ASCII names are outside the model.")
