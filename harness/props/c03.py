"""C03 — unit conversion factors: translator (harness/translate/uregdefs.py), correspondence of Model/Units.v with
PhysicalConstantsContext.conversion_factor (pint underneath), and the property oracle: an independent SI model
(magnitudes from NIST's raw text through E_h, e, a0, m_e, m_u, h, hbar, c, k, N_A; bridges via
E = h nu = h c / lambda = m c^2 = k T and N_A) evaluated on the implementation's answers.

Tolerances (stated in the evidence): model (exact Q) vs implementation (binary64): relative 1e-12.
Oracle (independent SI ratio) vs implementation: 1e-12 when only exact factors are involved, 5e-9 where a NIST-rounded
relationship constant or a CODATA-rounded au_* value enters in the 2018 set, 2e-8 in the 2014 set (whose kelvin relationships are
printed to 8 digits: measured worst deviation from h, c, k 1.1e-8; 2018: 4.8e-10)."""
import itertools
import math
import os
from fractions import Fraction

from .. import coqrun
from ..core import Corr, TranslateError
from ..coqrun import cz, cstr
from ..translate import codata, uregdefs

PID = "C03"
ALLOWED_AXIOMS = set()
EXTRA_TARGETS = ["Model/Units.vo", "Model/UnitsText.vo", "Model/UnitsGlue.vo"]
TOL_MODEL_EXP = -12          # model vs implementation
TOL_EXACT = Fraction(1, 10 ** 12)
# Oracle tolerances by BRIDGE KIND (the non-energy dimension involved) and context, from the measured worst deviation of the
# published '<a>-<b> relationship' constants of that kind from h, c, k, e, m_u, E_h of the same set (raw NIST text):
#   2014: frequency 2.0e-10, wavenumber 8.7e-11 (2.9e-10 incl. Hz-1/m), mass 2.6e-10, temperature 9.1e-9 (1.1e-8 incl. K-Hz)
#   2018: frequency 4.3e-10, wavenumber 2.7e-10, mass 3.5e-10 (4.8e-10 incl. kg-Hz), temperature 1.3e-10 (3.5e-10 incl. 1/m-K)
TOL_KIND = {
    2014: {"frequency": Fraction(1, 10 ** 9), "wavenumber": Fraction(1, 10 ** 9), "mass": Fraction(1, 10 ** 9), "temperature": Fraction(2, 10 ** 8)},
    2018: {"frequency": Fraction(1, 10 ** 9), "wavenumber": Fraction(1, 10 ** 9), "mass": Fraction(1, 10 ** 9), "temperature": Fraction(1, 10 ** 9)},
}
# au_* units: the oracle computes them from e, a0, E_h, hbar, m_e; CODATA prints its own rounded value (measured worst 6.6e-10 per unit)
TOL_AU_UNIT = Fraction(1, 10 ** 9)     # per unit of |exponent| with which an au_* unit occurs
TOL_AU = 5 * TOL_AU_UNIT
TOL_NIST_YEAR = {y: max(TOL_KIND[y].values()) for y in TOL_KIND}      # loosest bound of the context (round trips, matcher slack)
TRUSTED = [
    "pint (parser, alias/prefix resolution, UnitsContainer, Context graph search, plain conversion) is external code: modelled in "
    "coq/Model/Units.v and (wave 2) coq/Model/UnitsText.v, not verified. The text stream hands the model the SAME strings as the implementation "
    "(tokenizer, precedence, juxtaposition, symbol/alias/prefix resolution modelled for the subset of names of Gen.ident_table: ureg.py's own "
    "names/aliases and the whitelisted plain units); the other streams still hand over resolved (prefix, unit) trees — PROVED about the model (wave 4, C03_text_roundtrip): on the fully parenthesised "
    "text render() writes for such a tree (canonical names, non-negative integer numerals) the model's reader returns exactly that tree, so for the "
    "model handing over the tree or its text is the same; that pint reads the text as that tree stays trusted/corr. Outside the modelled "
    "texts: names pint knows but the table does not (such texts are filtered out by asking pint's get_name), a number or parenthesis "
    "juxtaposed to a parenthesis (pint reads '3 (m)**2' as 9 m**2), offset units",
    "trusted external data read from the installed pint at translate time: exact SI factor and dimension of a whitelist of plain SI/imperial "
    "units (checked not to depend on anything ureg.py redefines) and the decimal prefix table",
    "translator harness/translate/uregdefs.py (fail-closed; the relationship loop, _find_nist_unit and build_transformer must be verbatim the "
    "code transcribed by hand in Model/Units.v) and harness/translate/codata.py (shipped CODATA dicts)",
    "binary64 arithmetic of pint/Python is compared with the exact-rational model under a relative tolerance of 1e-12",
    "the independent SI oracle in harness/props/c03.py (physics formulas written by hand; values from raw_data/nist_data/codata-*.txt)",
    "functools.lru_cache (maxsize 128, LRU order, exceptions not stored) and pint's Quantity/Unit __eq__/__hash__ (magnitude and units after "
    "to_base_units(); unit container) are modelled in coq/Model/UnitsGlue.v, not verified; conversion_factor, the ureg property, Quantity and "
    "Datum.to_units must be verbatim the code transcribed there (harness/translate/uregdefs.py check_glue, fail-closed); tied by call histories on "
    "fresh objects, long-lived objects and the module-level singleton",
]
ASSUMPTIONS = [
    "unit expressions are products/quotients/integer powers of (prefix, unit) atoms and positive rational prefactors; offset units "
    "(degC, degF), logarithmic units and fractional exponents are outside the model",
    "tolerances: model vs implementation relative 1e-12. Independent-SI oracle, by bridge kind: same dimension, energy<->energy/mol and "
    "energy(/mol)<->frequency with a source naming no NIST unit (context's own h, N_A): 1e-12; bridges that may use a published relationship "
    "constant: frequency/wavenumber/mass 1e-9 (measured worst 4.8e-10), temperature 2e-8 in CODATA2014 (8-digit kelvin relationships, measured "
    "1.1e-8) and 1e-9 in CODATA2018; 1e-9 per unit of |exponent| of a physics-derived au_* unit (measured 6.6e-10 per unit); history/determinism "
    "comparisons 1e-13 (pint's factor cache makes the last ulp history dependent)",
]

_T = {}


def translate(ctx):
    _T.clear()
    codata.generate(ctx.repo)
    _T.update(uregdefs.generate(ctx.repo))


def _tr(ctx):
    if not _T:
        try:
            _T.update(uregdefs.generate(ctx.repo))
        except Exception as e:
            _T.update({"gen_failed": repr(e)})
    return _T


# ------------------------------------------------------------------------------------------------
# expressions:  ('atom', prefix, unit) | ('num', Fraction) | ('mul', a, b) | ('div', a, b) | ('pow', a, n)

def A(b, p=""):
    return ("atom", p, b)


def N(x):
    return ("num", Fraction(x))


def MUL(a, b):
    return ("mul", a, b)


def DIV(a, b):
    return ("div", a, b)


def POW(a, n):
    return ("pow", a, n)


def render(e):
    """Text that pint parses into exactly this tree (explicit parentheses, canonical long names)."""
    t = e[0]
    if t == "atom":
        return e[1] + e[2]
    if t == "num":
        f = e[1]
        if f.denominator == 1:
            return str(f.numerator)
        return repr(float(f)) if Fraction(float(f)) == f else f"({f.numerator}/{f.denominator})"
    if t == "pow":
        return f"(({render(e[1])}) ** ({e[2]}))"
    return f"(({render(e[1])}) {'*' if t == 'mul' else '/'} ({render(e[2])}))"


def cexpr(e):
    return uregdefs.cexpr(e)


def render_sym(e, tr, rng, top=True):
    """A second spelling of the same tree: symbols/short aliases, '^' or '**', juxtaposition for some products."""
    t = e[0]
    if t == "atom":
        units = [k for k, v in tr["ids"].items() if v == e[2]]
        us = min(units, key=len) if rng.random() < 0.7 else rng.choice(sorted(units))
        if not e[1]:
            return us
        prefs = [k for k, v in tr["prefix_spellings"].items() if v == e[1]]
        return (min(prefs, key=len) if rng.random() < 0.7 else e[1]) + us
    if t == "num":
        return render(e)
    if t == "pow":
        inner = render_sym(e[1], tr, rng, False)
        if e[1][0] != "atom":
            inner = "(" + inner + ")"
        return inner + rng.choice(["^", "**", " ** "]) + (str(e[2]) if e[2] >= 0 or rng.random() < 0.5 else f"({e[2]})")
    a, b = render_sym(e[1], tr, rng, False), render_sym(e[2], tr, rng, False)
    if e[2][0] in ("mul", "div"):
        b = "(" + b + ")"
    if t == "mul":
        # juxtaposition only between two identifiers (pint reads "3 (m)**2" as 9 m**2: a number directly before a parenthesis
        # is outside the modelled texts)
        plainish = lambda x: x[0] == "atom" or (x[0] == "pow" and x[1][0] == "atom")
        op = rng.choice([" * ", "*", " "]) if (plainish(e[1]) and plainish(e[2])) else rng.choice([" * ", "*"])
        return a + op + b
    return a + rng.choice(["/", " / "]) + b


def mirror_resolve(tok, tr):
    """Python mirror of Model/UnitsText.v resolve_ident (same tables, same order)."""
    ids = tr["ids"]
    if tok in ids:
        return "" + ids[tok]
    for sp, p in sorted(tr["prefix_spellings"].items(), key=lambda kv: (-len(kv[0]), kv[0])):
        if tok.startswith(sp) and tok[len(sp):] in ids:
            return p + ids[tok[len(sp):]]
    return None


def text_in_subset(cobj, text, tr):
    """Only texts whose identifiers pint resolves exactly as the model's table does (or not at all) are inside the modelled subset."""
    import re as _re
    if _re.search(r"[0-9.]\s*\(", text) or _re.search(r"\)\s*[0-9(A-Za-z_]", text):
        return False          # number (or parenthesis) juxtaposed to a parenthesis: pint's reader has its own rules there
    for tok in set(_re.findall(r"[A-Za-z_][A-Za-z_0-9]*", _re.sub(r"[0-9.]+[eE][-+]?[0-9]+", " ", text))):
        want = mirror_resolve(tok, tr)
        try:
            got = cobj.ureg.get_name(tok)
        except Exception:
            got = None
        if got != want:
            return False
    return True


def atoms_of(e):
    if e[0] == "atom":
        return [(e[1], e[2])]
    if e[0] == "num":
        return []
    if e[0] == "pow":
        return atoms_of(e[1])
    return atoms_of(e[1]) + atoms_of(e[2])


# ------------------------------------------------------------------------------------------------
# the independent SI model (oracle)

NIST_UNITS = ["hartree", "hertz", "joule", "kelvin", "kilogram", "electron_volt", "atomic_mass_unit", "inverse_meter"]
D_ENERGY = (2, 1, -2, 0, 0, 0, 0)
D_FREQ = (0, 0, -1, 0, 0, 0, 0)
D_WAVEN = (-1, 0, 0, 0, 0, 0, 0)
D_MASS = (0, 1, 0, 0, 0, 0, 0)
D_TEMP = (0, 0, 0, 0, 1, 0, 0)
D_EMOL = (2, 1, -2, 0, 0, -1, 0)
BRIDGED = {D_ENERGY: "energy", D_FREQ: "frequency", D_WAVEN: "wavenumber", D_MASS: "mass", D_TEMP: "temperature", D_EMOL: "energy/mol"}


def nist_value(raw, name):
    for n, val, unc, unit in raw:
        if n.lower() == name.lower():
            s = val.replace("...", "") if unc == "(exact)" else val
            return Fraction(s.replace(" ", ""))
    raise KeyError(name)


class SI:
    """SI magnitude (kg m s A K mol cd) and dimension of every unit the corpus uses, from physics, per CODATA year.
    The flag marks the au_* units, which the oracle derives from e, a0, E_h, hbar, m_e while CODATA prints its own rounded
    value (tolerance TOL_AU). Units that ARE a CODATA constant (hartree, eV, bohr, u, m_e, e, N_A, k, h) carry the same decimal in the
    implementation and in the oracle, so they are exact."""

    def __init__(self, raw, plain, prefixes, year=2018):
        v = lambda n: nist_value(raw, n)
        self.tol_nist = TOL_NIST_YEAR[year]
        self.tol_kind = TOL_KIND[year]
        self.year = year
        self.prefixes = prefixes
        self.c = v("speed of light in vacuum")
        self.h = v("Planck constant")
        self.k = v("Boltzmann constant")
        self.NA = v("Avogadro constant")
        Eh, e, a0, me, mu = v("Hartree energy"), v("elementary charge"), v("Bohr radius"), v("electron mass"), v("atomic mass constant")
        try:
            hbar = v("Planck constant over 2 pi")
        except KeyError:
            hbar = v("reduced Planck constant")
        U = {}
        for n, (f, d) in plain.items():
            U[n] = (Fraction(f), tuple(d), False)
        J = D_ENERGY
        U["hartree"] = (Eh, J, False)
        U["electron_volt"] = (e, J, False)
        U["bohr"] = (a0, (1, 0, 0, 0, 0, 0, 0), False)
        U["electron_mass"] = (me, D_MASS, False)
        U["atomic_mass_unit"] = (mu, D_MASS, False)
        U["elementary_charge"] = (e, (0, 0, 1, 1, 0, 0, 0), False)
        U["statcoulomb"] = (Fraction(1, 2997924580), (0, 0, 1, 1, 0, 0, 0), False)
        U["debye"] = (Fraction(1, 10 ** 21) / 299792458, (1, 0, 1, 1, 0, 0, 0), False)
        U["wavenumber"] = (Fraction(100), D_WAVEN, False)
        U["Angstrom"] = (Fraction(1, 10 ** 10), (1, 0, 0, 0, 0, 0, 0), False)
        U["avogadro_constant"] = (self.NA, (0, 0, 0, 0, 0, -1, 0), False)
        U["boltzmann_constant"] = (self.k, (2, 1, -2, 0, -1, 0, 0), False)
        U["speed_of_light"] = (self.c, (1, 0, -1, 0, 0, 0, 0), False)
        U["plancks_constant"] = (self.h, (2, 1, -1, 0, 0, 0, 0), False)

        def mk(mag, exps):          # exps of (e, a0, Eh, hbar, me) ; dimension from those
            dims = {"e": (0, 0, 1, 1, 0, 0, 0), "a0": (1, 0, 0, 0, 0, 0, 0), "Eh": J, "hbar": (2, 1, -1, 0, 0, 0, 0), "me": D_MASS}
            vals = {"e": e, "a0": a0, "Eh": Eh, "hbar": hbar, "me": me}
            m, d = Fraction(1), [0] * 7
            for kx, ex in exps.items():
                m *= vals[kx] ** ex
                d = [x + ex * y for x, y in zip(d, dims[kx])]
            return (m, tuple(d), True)
        U["au_1st_hyperpolarizability"] = mk(1, {"e": 3, "a0": 3, "Eh": -2})
        U["au_2nd_hyperpolarizability"] = mk(1, {"e": 4, "a0": 4, "Eh": -3})
        U["au_action"] = mk(1, {"hbar": 1})
        U["au_charge_density"] = mk(1, {"e": 1, "a0": -3})
        U["au_current"] = mk(1, {"e": 1, "Eh": 1, "hbar": -1})
        U["au_electric_dipole_moment"] = mk(1, {"e": 1, "a0": 1})
        U["au_electric_field"] = mk(1, {"Eh": 1, "e": -1, "a0": -1})
        U["au_electric_field_gradient"] = mk(1, {"Eh": 1, "e": -1, "a0": -2})
        U["au_electric_polarizability"] = mk(1, {"e": 2, "a0": 2, "Eh": -1})
        U["au_electric_potential"] = mk(1, {"Eh": 1, "e": -1})
        U["au_electric_quadrupole_moment"] = mk(1, {"e": 1, "a0": 2})
        U["au_force"] = mk(1, {"Eh": 1, "a0": -1})
        U["au_magnetic_dipole_moment"] = mk(1, {"hbar": 1, "e": 1, "me": -1})
        U["au_magnetic_flux_density"] = mk(1, {"hbar": 1, "e": -1, "a0": -2})
        U["au_magnetizability"] = mk(1, {"e": 2, "a0": 2, "me": -1})
        U["au_momentum"] = mk(1, {"hbar": 1, "a0": -1})
        U["au_permittivity"] = mk(1, {"e": 2, "a0": -1, "Eh": -1})
        U["au_time"] = mk(1, {"hbar": 1, "Eh": -1})
        U["au_velocity"] = mk(1, {"a0": 1, "Eh": 1, "hbar": -1})
        U["au_pressure"] = mk(1, {"Eh": 1, "a0": -3})
        self.U = U

    def md(self, e):
        """-> (Fraction magnitude, dim tuple, au weight) ; KeyError for unknown units.  The au weight is the total |exponent| with which
        physics-derived au_* units occur (each may deviate from CODATA's printed value by up to 6.6e-10, measured)."""
        t = e[0]
        if t == "num":
            return (e[1], (0,) * 7, 0)
        if t == "atom":
            m, d, r = self.U[e[2]]
            if e[1]:
                m = m * Fraction(10) ** self.prefixes[e[1]]
            return (m, d, 1 if r else 0)
        if t == "pow":
            m, d, r = self.md(e[1])
            return (m ** e[2], tuple(x * e[2] for x in d), r * abs(e[2]))
        ma, da, ra = self.md(e[1])
        mb, db, rb = self.md(e[2])
        if t == "mul":
            return (ma * mb, tuple(x + y for x, y in zip(da, db)), ra + rb)
        return (ma / mb, tuple(x - y for x, y in zip(da, db)), ra + rb)

    def energy_equiv(self, m, d):
        """SI energy equivalent of a quantity of one of the bridged dimensions."""
        if d == D_ENERGY:
            return m
        if d == D_FREQ:
            return m * self.h
        if d == D_WAVEN:
            return m * self.h * self.c
        if d == D_MASS:
            return m * self.c ** 2
        if d == D_TEMP:
            return m * self.k
        if d == D_EMOL:
            return m / self.NA
        return None

    def names_nist(self, e):
        """Does the expression name (as a factor, any exponent) a unit whose canonical name contains a NIST relationship unit
        name, or a bare meter?  Only then can a published (rounded) relationship constant enter on the source side."""
        return any(any(x in p + u for x in NIST_UNITS) or (p + u == "meter") for p, u in atoms_of(e))

    def expected(self, a, b):
        """('value', Fraction, tol) | ('unrelated',) | ('twohop', Fraction, tol)
        Tolerance: same dimension: 1e-12 (5e-9 if a physics-derived au_* unit is involved). Bridges: energy(/mol) <-> frequency with a
        source that names no NIST unit goes through the context's own h (and N_A) only: 1e-12; every other bridge may go through a
        published relationship constant of that KIND: TOL_KIND[year][kind]."""
        ma, da, ra = self.md(a)
        mb, db, rb = self.md(b)
        au = TOL_AU_UNIT * (ra + rb)
        if da == db:
            return ("value", ma / mb, max(TOL_EXACT, au))
        if da in BRIDGED and db in BRIDGED:
            val = self.energy_equiv(ma, da) / self.energy_equiv(mb, db)
            kinds = [BRIDGED[d] for d in (da, db) if BRIDGED[d] not in ("energy", "energy/mol")]
            direct = len(kinds) <= 1
            if not kinds:
                tol = TOL_EXACT                                  # energy <-> energy/mol: N_A of the context only
            elif kinds == ["frequency"] and not self.names_nist(a):
                tol = TOL_EXACT                                  # default route through the context's h
            else:
                tol = max(self.tol_kind[k] for k in kinds)
            return ("value" if direct else "twohop", val, max(tol, au))
        return ("unrelated",)


def prefixed_nist_sources(e):
    """(prefix, unit) atoms of e whose canonical name is an SI-prefixed NIST-relationship unit (incl. kilo-gram forms
    other than the NIST unit 'kilogram' itself)."""
    out = []
    for p, b in atoms_of(e):
        name = p + b
        if p and name not in NIST_UNITS and any(x in name for x in NIST_UNITS):
            out.append((p, b))
    return out


# ------------------------------------------------------------------------------------------------
# implementation

def contexts():
    from qcelemental.physical_constants import PhysicalConstantsContext
    return {2014: PhysicalConstantsContext("CODATA2014"), 2018: PhysicalConstantsContext("CODATA2018")}


EK = {"DimensionalityError": "Dimensionality", "UndefinedUnitError": "PyAttributeError", "ZeroDivisionError": "PyAssertion",
      "AttributeError": "PyAttributeError", "KeyError": "PyKeyError", "ValueError": "PyValueError", "TypeError": "PyTypeError"}


def impl_call(cobj, sa, sb):
    try:
        r = cobj.conversion_factor(sa, sb)
    except Exception as e:
        return ("err", type(e).__name__)
    if isinstance(r, (int, float)) and not isinstance(r, bool):
        r = float(r)
        if math.isfinite(r):
            return ("val", r)
    return ("other", repr(r)[:80])


def expect_term(out, tol_exp=TOL_MODEL_EXP):
    if out[0] == "val":
        p, q = out[1].as_integer_ratio()
        return f"(CVal {cz(p)} {cz(q)} {cz(tol_exp)})"
    if out[0] == "err":
        return f"(CErr {EK.get(out[1], 'PyAssertion')})"
    return None


def strip_prefix(e, target):
    """e with the first occurrence of the atom `target` (prefix, unit) replaced by its unprefixed unit; also the exponent
    with which it occurs (1 if it is a plain factor)."""
    if e[0] == "atom":
        return (("atom", "", e[2]), True) if (e[1], e[2]) == target else (e, False)
    if e[0] == "num":
        return e, False
    if e[0] == "pow":
        x, hit = strip_prefix(e[1], target)
        return ("pow", x, e[2]), hit
    x, hit = strip_prefix(e[1], target)
    if hit:
        return (e[0], x, e[2]), True
    y, hit = strip_prefix(e[2], target)
    return (e[0], e[1], y), hit


def flat_log10_span(si, e):
    """sum over the distinct units of e of |log10(SI magnitude ^ total exponent)| (numeric prefactors included)"""
    import math
    acc = {}

    def walk(x, k):
        t = x[0]
        if t == "num":
            acc[("num", str(x[1]))] = acc.get(("num", str(x[1])), 0) + k
        elif t == "atom":
            acc[(x[1], x[2])] = acc.get((x[1], x[2]), 0) + k
        elif t == "pow":
            walk(x[1], k * x[2])
        elif t == "mul":
            walk(x[1], k)
            walk(x[2], k)
        else:
            walk(x[1], k)
            walk(x[2], -k)

    walk(e, 1)
    tot = 0.0
    for key, k in acc.items():
        try:
            if key[0] == "num":
                m = Fraction(key[1])
            else:
                m = si.md(("atom", key[0], key[1]))[0]
        except KeyError:
            continue
        if m > 0:
            tot += abs(k * (math.log10(m.numerator) - math.log10(m.denominator)))
    return tot


def judge(si, a, b, out, rerun=None):
    """The property on one answer. -> None | (what, details) ; details carries what the KNOWN matcher needs."""
    try:
        exp = si.expected(a, b)
    except KeyError as e:
        return None            # a unit the independent model does not know: no opinion
    if exp[0] == "unrelated":
        if out[0] == "val":
            return ("a number was returned for physically unrelated dimensions", {"expected": "error"})
        return None
    if out[0] == "err":
        if exp[0] == "twohop":
            return None        # the library does not offer X -> energy -> Y chains (documented scope)
        src = atoms_of(a)
        same_dim = si.md(a)[1] == si.md(b)[1]
        names_nist = any(any(x in p + u for x in NIST_UNITS) for p, u in src)
        if same_dim or len(src) <= 1 or not names_nist:
            return (f"raised {out[1]} for a conversion the property says exists", {"expected": float(exp[1])})
        return None            # compound source naming a NIST unit as one of several factors: that bridge is not offered
    if out[0] != "val":
        return (f"unexpected answer {out[1]}", {})
    got = Fraction(out[1])
    want, tol = exp[1], exp[2]
    if abs(got - want) <= tol * abs(want):
        return None
    ratio = got / want
    dbl = []
    if rerun is not None and si.md(a)[1] != si.md(b)[1]:
        # evidence for the known double-scaling: the same conversion with the prefix removed from the source, as the
        # implementation computes it, and whether THAT one satisfies the property
        for p, u in prefixed_nist_sources(a):
            a0, hit = strip_prefix(a, (p, u))
            o0 = rerun(a0, b)
            ok0 = o0[0] == "val" and judge(si, a0, b, o0) is None
            if hit and ok0:
                sc = Fraction(10) ** si.prefixes[p]
                r2 = got / (sc * sc * Fraction(o0[1]))
                dbl.append({"prefix": p, "unit": u, "unprefixed_factor": o0[1], "obs_over_scale2_times_unprefixed_num": r2.numerator,
                            "obs_over_scale2_times_unprefixed_den": r2.denominator})
    return (f"factor {out[1]!r} is not the ratio of SI magnitudes {float(want)!r} (observed/expected = {float(ratio)!r}, tolerance {float(tol)})",
            {"expected": float(want), "ratio_num": ratio.numerator, "ratio_den": ratio.denominator,
             "prefixed_nist_sources": prefixed_nist_sources(a), "crosses_bridge": si.md(a)[1] != si.md(b)[1], "double_scaling": dbl,
             "tol_num": tol.numerator, "tol_den": tol.denominator})


# ------------------------------------------------------------------------------------------------
# corpus

SI_PREFIXES = uregdefs.SI_PREFIX_NAMES
COMMON_PREFIXES = ["milli", "micro", "nano", "kilo", "mega", "giga", "centi", "tera", "pico", "femto"]

DIM_ATOMS = {
    "length": ["meter", "angstrom", "bohr", "inch", "foot", "mile", "Angstrom"],
    "mass": ["gram", "pound", "atomic_mass_unit", "electron_mass"],
    "time": ["second", "minute", "hour", "day", "au_time"],
    "charge": ["coulomb", "elementary_charge", "statcoulomb"],
    "energy": ["joule", "hartree", "electron_volt", "calorie", "erg"],
    "force": ["newton", "dyne", "au_force"],
    "pressure": ["pascal", "bar", "standard_atmosphere", "torr", "au_pressure"],
    "dipole": ["debye", "au_electric_dipole_moment"],
    "frequency": ["hertz"],
    "wavenumber": ["wavenumber"],
    "temperature": ["kelvin", "degree_Rankine"],
}
AU_UNITS = ["au_1st_hyperpolarizability", "au_2nd_hyperpolarizability", "au_action", "au_charge_density", "au_current",
            "au_electric_dipole_moment", "au_electric_field", "au_electric_field_gradient", "au_electric_polarizability",
            "au_electric_potential", "au_electric_quadrupole_moment", "au_force", "au_magnetic_dipole_moment",
            "au_magnetic_flux_density", "au_magnetizability", "au_momentum", "au_permittivity", "au_time", "au_velocity"]


def compound_exprs():
    """Extra (compound) expressions per dimension."""
    kg = A("gram", "kilo")
    m, s = A("meter"), A("second")
    return {
        "length": [MUL(N(3), A("bohr")), DIV(A("meter", "centi"), N(4)), DIV(POW(A("bohr"), 3), POW(A("angstrom"), 2)),
                   MUL(A("au_velocity"), A("au_time"))],
        "mass": [MUL(N("2.5"), A("atomic_mass_unit")), kg, DIV(MUL(A("newton"), POW(s, 2)), m)],
        "time": [DIV(N(1), A("hertz")), MUL(N(60), A("second")), DIV(A("au_action"), A("hartree"))],
        "charge": [MUL(A("ampere"), s), MUL(N(2), A("elementary_charge")), MUL(A("au_current"), A("au_time"))],
        "energy": [MUL(A("newton"), m), DIV(MUL(kg, POW(m, 2)), POW(s, 2)), MUL(A("watt"), s), MUL(A("volt"), A("coulomb")),
                   MUL(N("0.5"), A("hartree")), MUL(A("au_force"), A("bohr")), MUL(A("calorie", "kilo"), N(1)),
                   MUL(A("pascal"), POW(m, 3)), MUL(A("watt", "kilo"), A("hour")), DIV(POW(A("elementary_charge"), 2), MUL(A("au_permittivity"), A("bohr")))],
        "force": [DIV(A("hartree"), A("bohr")), DIV(MUL(kg, m), POW(s, 2)), DIV(A("electron_volt"), A("angstrom")), DIV(A("joule"), m)],
        "pressure": [DIV(A("newton"), POW(m, 2)), DIV(A("hartree"), POW(A("bohr"), 3)), MUL(N(1000), A("pascal", "giga")),
                     DIV(A("electron_volt"), POW(A("angstrom"), 3))],
        "dipole": [MUL(A("elementary_charge"), A("bohr")), MUL(A("coulomb"), m), MUL(A("elementary_charge"), A("angstrom")),
                   MUL(MUL(N("1e-18"), A("statcoulomb")), A("meter", "centi"))],
        "frequency": [DIV(N(1), s), POW(s, -1), DIV(N(1), A("second", "nano"))],
        "wavenumber": [DIV(N(1), m), POW(A("meter", "centi"), -1), DIV(N(1), A("meter", "nano")), DIV(N(1), A("bohr")), POW(m, -1)],
        "temperature": [MUL(N(300), A("kelvin"))],
        "energy/mol": [DIV(A("calorie", "kilo"), A("mole")), DIV(A("joule", "kilo"), A("mole")), DIV(A("joule"), A("mole")),
                       DIV(A("calorie"), A("mole")), DIV(A("hartree"), A("mole")), DIV(A("electron_volt"), A("mole")),
                       MUL(A("hartree"), A("avogadro_constant")), DIV(MUL(N(2), A("calorie", "kilo")), A("mole"))],
    }


def au_partners(tr, year):
    """each au_* unit with the SI expression CODATA gives for it"""
    out = []
    for k, ck, e in tr["au_defs"][year]:
        out.append((A(k), e))
    return out


def gen_cases(ctx, tr):
    """-> list of (stream, year, a, b)"""
    rng = ctx.rng
    big = ctx.thorough
    comp = compound_exprs()
    per_dim = {}
    for dim, names in DIM_ATOMS.items():
        atoms = [A(n) for n in names]
        pref = [A(n, p) for n in names for p in SI_PREFIXES]
        per_dim[dim] = (atoms, pref, comp.get(dim, []))
    per_dim["energy/mol"] = ([], [], comp["energy/mol"])
    cases = []
    for year in (2014, 2018):
        # same-dimension pairs
        for dim, (atoms, pref, cmp_) in per_dim.items():
            core = atoms + cmp_
            for a, b in itertools.product(core, core):
                cases.append(("same:" + dim, year, a, b))
            npre = len(pref) if big else min(len(pref), 40)
            for a in rng.sample(pref, npre):
                for b in rng.sample(core, min(len(core), 3 if not big else 6)):
                    cases.append(("same-prefixed:" + dim, year, a, b))
                    cases.append(("same-prefixed:" + dim, year, b, a))
                b = rng.choice(pref)
                cases.append(("same-prefixed:" + dim, year, a, b))
        # the 19 au_* units against their CODATA SI expression and back
        for a, e in au_partners(tr, year):
            cases.append(("au", year, a, e))
            cases.append(("au", year, e, a))
            cases.append(("au", year, a, a))
        # random compound expressions built from same-dimension pieces
        dims = [d for d in per_dim if per_dim[d][0]]
        for _ in range(4000 if big else 600):
            d1, d2 = rng.choice(dims), rng.choice(dims)
            x1, x2 = rng.choice(per_dim[d1][0] + per_dim[d1][1][:0] + per_dim[d1][2]), rng.choice(per_dim[d1][0] + per_dim[d1][2])
            y1, y2 = rng.choice(per_dim[d2][0] + per_dim[d2][2]), rng.choice(per_dim[d2][0] + per_dim[d2][2])
            k1, k2 = rng.choice([1, 2, 3, "0.5", "2.5", 1000, "0.001"]), rng.choice([1, 2, 4, "0.25", 10])
            shape = rng.choice(["mul", "div", "pow", "pref"])
            if shape == "mul":
                a, b = MUL(MUL(N(k1), x1), y1), MUL(MUL(N(k2), y2), x2)
            elif shape == "div":
                a, b = DIV(x1, y1), DIV(MUL(N(k2), x2), y2)
            elif shape == "pow":
                n = rng.choice([2, 3, -1, -2])
                a, b = POW(x1, n), MUL(N(k1), POW(x2, n))
            else:
                a, b = MUL(N(k1), x1), DIV(x2, N(k2))
            cases.append(("compound", year, a, b))
            # wave 2: nested powers, negative exponents, prefactors in both operands, parenthesised quotients
            shape2 = rng.choice(["nest", "quot", "both", "negmul", "deep"])
            n = rng.choice([2, 3, -1, -2, -3])
            if shape2 == "nest":
                a, b = POW(POW(x1, 2), n), MUL(N(k2), POW(x2, 2 * n))
            elif shape2 == "quot":
                a, b = DIV(MUL(N(k1), x1), DIV(y1, y2)), DIV(x2, N(k2))
            elif shape2 == "both":
                a, b = MUL(N(k1), DIV(MUL(N(k2), x1), y1)), DIV(MUL(N(k2), x2), MUL(N(k1), y2))
            elif shape2 == "negmul":
                a, b = MUL(MUL(N(k1), x1), POW(y1, n)), DIV(POW(DIV(x2, POW(y2, n)), -1), N(k2))
                a, b = a, POW(b, -1)
            else:
                a, b = POW(DIV(MUL(N(k1), x1), POW(y1, 2)), n), MUL(POW(x2, n), POW(POW(y2, -1), 2 * n))
            cases.append(("compound2", year, a, b))
        # bridges: every ordered pair of bridged dimensions
        bdims = ["energy", "frequency", "wavenumber", "mass", "temperature", "energy/mol"]
        bsrc = {}
        for d in bdims:
            atoms, pref, cmp_ = per_dim[d]
            nist_pref = [x for x in pref if (x[2] in NIST_UNITS or x[1] + x[2] in NIST_UNITS)]
            other_pref = [x for x in pref if x not in nist_pref]
            simple_cmp = [e for e in cmp_ if len(atoms_of(e)) <= 2]
            bsrc[d] = (atoms + simple_cmp, nist_pref, other_pref)
        for d1, d2 in itertools.permutations(bdims, 2):
            s_core, s_np, s_op = bsrc[d1]
            t_core, t_np, t_op = bsrc[d2]
            targets = t_core + (rng.sample(t_np + t_op, min(4, len(t_np + t_op))) if (t_np or t_op) else [])
            for a in s_core:
                for b in targets:
                    cases.append((f"bridge:{d1}->{d2}", year, a, b))
            srcp = s_np if big else rng.sample(s_np, min(len(s_np), 30))
            for a in srcp:
                for b in rng.sample(t_core, min(len(t_core), 2 if not big else 4)):
                    cases.append((f"bridge-prefixed:{d1}->{d2}", year, a, b))
            for a in rng.sample(s_op, min(len(s_op), 10 if not big else 40)):
                b = rng.choice(t_core)
                cases.append((f"bridge-prefixed:{d1}->{d2}", year, a, b))
        # unrelated dimensions
        plain_dims = ["length", "time", "charge", "force", "pressure", "dipole", "energy", "mass", "temperature"]
        for _ in range(1500 if big else 300):
            d1, d2 = rng.sample(plain_dims, 2)
            if {d1, d2} <= {"energy", "mass", "temperature"}:
                continue
            a = rng.choice(per_dim[d1][0] + per_dim[d1][2])
            b = rng.choice(per_dim[d2][0] + per_dim[d2][2])
            cases.append(("unrelated", year, a, b))
    return cases


CORPUS = [
    (2014, A("hertz", "mega"), A("hartree")), (2014, A("hartree"), A("hertz", "mega")), (2014, A("hertz"), A("hartree")),
    (2018, DIV(A("calorie", "kilo"), A("mole")), A("wavenumber")), (2014, A("hartree"), DIV(A("calorie", "kilo"), A("mole"))),
    (2018, DIV(A("joule", "kilo"), A("mole")), A("kelvin")), (2014, A("hertz"), A("kelvin")), (2014, A("meter"), A("second")),
    (2014, A("foot"), A("meter")), (2014, MUL(N(10), A("foot")), A("meter")), (2018, A("hartree", "milli"), A("hertz")),
    (2014, A("debye"), MUL(A("elementary_charge"), A("bohr"))), (2018, A("au_pressure"), A("pascal", "giga")),
    (2014, DIV(MUL(A("gram", "kilo"), POW(A("meter"), 2)), POW(A("second"), 2)), A("hertz")),
    (2014, A("wavenumber"), A("kelvin")), (2018, A("electron_volt", "milli"), A("kelvin")),
]

# spellings with symbols / aliases (implementation only): must give exactly the canonical spelling's answer
ALIAS_PAIRS = [
    ("kcal/mol", "((kilocalorie) / (mole))"), ("kJ/mol", "((kilojoule) / (mole))"), ("eV", "electron_volt"), ("Eh", "hartree"),
    ("E_h", "hartree"), ("au_energy", "hartree"), ("amu", "atomic_mass_unit"), ("u", "atomic_mass_unit"), ("Da", "atomic_mass_unit"),
    ("au_length", "bohr"), ("Bohr", "bohr"), ("bohr_radius", "bohr"), ("e", "elementary_charge"), ("au_charge", "elementary_charge"),
    ("statC", "statcoulomb"), ("D", "debye"), ("au_mass", "electron_mass"), ("MHz", "megahertz"), ("cm^-1", "((centimeter) ** (-1))"),
    ("1/cm", "((1) / (centimeter))"), ("mK", "millikelvin"), ("GPa", "gigapascal"), ("atm", "standard_atmosphere"), ("J", "joule"),
    ("cal", "calorie"), ("Hz", "hertz"), ("K", "kelvin"), ("kg", "kilogram"), ("g", "gram"), ("nm", "nanometer"), ("angstrom", "angstrom"),
    ("hartree/bohr", "((hartree) / (bohr))"), ("N_A * hartree", "((avogadro_constant) * (hartree))"),
]
ALIAS_TARGETS = ["hartree", "joule", "meter", "kilogram", "coulomb", "hertz", "kelvin", "wavenumber", "pascal", "newton",
                 "((joule) / (mole))", "((coulomb) * (meter))"]


# ---- history stream: texts that collide under whitespace removal / case folding / alias spelling, with their meaning
_s_1 = POW(A("second"), -1)
HISTORY_GROUPS = [
    # (group of (text, expression), targets (text, expression))
    ([("ms^-1", POW(A("second", "milli"), -1)), ("m s^-1", MUL(A("meter"), POW(A("second"), -1)))],
     [("Hz", A("hertz")), ("m/s", DIV(A("meter"), A("second")))]),
    ([("min", A("minute")), ("m in", MUL(A("meter"), A("inch")))],
     [("s", A("second")), ("m^2", POW(A("meter"), 2))]),
    ([("mK", A("kelvin", "milli")), ("MK", A("kelvin", "mega")), ("m K", MUL(A("meter"), A("kelvin")))],
     [("K", A("kelvin")), ("hartree", A("hartree"))]),
    ([("mJ", A("joule", "milli")), ("MJ", A("joule", "mega")), ("m J", MUL(A("meter"), A("joule")))],
     [("J", A("joule")), ("cal", A("calorie"))]),
    ([("mm", A("meter", "milli")), ("Mm", A("meter", "mega")), ("m m", MUL(A("meter"), A("meter")))],
     [("m", A("meter")), ("bohr", A("bohr")), ("m^2", POW(A("meter"), 2))]),
    ([("Pa", A("pascal")), ("pA", A("ampere", "pico")), ("P a", None)],
     [("Pa", A("pascal")), ("A", A("ampere"))]),
    ([("mHz", A("hertz", "milli")), ("MHz", A("hertz", "mega")), ("m Hz", MUL(A("meter"), A("hertz")))],
     [("Hz", A("hertz")), ("m/s", DIV(A("meter"), A("second")))]),
    ([("cal", A("calorie")), ("kcal", A("calorie", "kilo")), ("k cal", None)],
     [("J", A("joule")), ("Hz", A("hertz"))]),
    ([("eV", A("electron_volt")), ("electron_volt", A("electron_volt")), ("e V", MUL(A("elementary_charge"), A("volt"))), ("EV", None)],
     [("J", A("joule")), ("hartree", A("hartree"))]),
    ([("kcal/mol", DIV(A("calorie", "kilo"), A("mole"))), ("kcal / mol", DIV(A("calorie", "kilo"), A("mole"))),
      ("kilocalorie/mole", DIV(A("calorie", "kilo"), A("mole"))), ("kcal/mol ", DIV(A("calorie", "kilo"), A("mole")))],
     [("hartree", A("hartree")), ("1/cm", DIV(N(1), A("meter", "centi"))), ("Hz", A("hertz"))]),
    ([("1/s", DIV(N(1), A("second"))), ("1 / s", DIV(N(1), A("second"))), ("1/ms", DIV(N(1), A("second", "milli"))), ("1/m s", MUL(DIV(N(1), A("meter")), A("second")))],
     [("J", A("joule")), ("Hz", A("hertz"))]),
    ([("hartree", A("hartree")), ("Hartree", None), ("E_h", A("hartree")), ("au_energy", A("hartree"))],
     [("eV", A("electron_volt")), ("kcal/mol", DIV(A("calorie", "kilo"), A("mole")))]),
    ([("(kcal/mol)**-1", POW(DIV(A("calorie", "kilo"), A("mole")), -1)), ("(kcal / mol) ** (-1)", POW(DIV(A("calorie", "kilo"), A("mole")), -1)),
      ("mol/kcal", DIV(A("mole"), A("calorie", "kilo"))), ("mol / k cal", None)],
     [("mol/J", DIV(A("mole"), A("joule"))), ("(J/mol)^-1", POW(DIV(A("joule"), A("mole")), -1))]),
    ([("(m/s)^2", POW(DIV(A("meter"), A("second")), 2)), ("m^2/s^2", DIV(POW(A("meter"), 2), POW(A("second"), 2))),
      ("m^2 s^-2", MUL(POW(A("meter"), 2), POW(A("second"), -2))), ("(m/s)^-2", POW(DIV(A("meter"), A("second")), -2)),
      ("m^2/s^-2", DIV(POW(A("meter"), 2), POW(A("second"), -2)))],
     [("J/kg", DIV(A("joule"), A("gram", "kilo"))), ("(bohr/au_time)**2", POW(DIV(A("bohr"), A("au_time")), 2))]),
    ([("2 kJ/(3 mol)", DIV(MUL(N(2), A("joule", "kilo")), MUL(N(3), A("mole")))), ("2 kJ/3 mol", MUL(DIV(MUL(N(2), A("joule", "kilo")), N(3)), A("mole"))),
      ("2kJ/(3mol)", DIV(MUL(N(2), A("joule", "kilo")), MUL(N(3), A("mole"))))],
     [("kcal/mol", DIV(A("calorie", "kilo"), A("mole"))), ("0.5 eV", MUL(N("0.5"), A("electron_volt")))]),
    ([("kWh", MUL(A("watt", "kilo"), A("hour"))), ("kW h", MUL(A("watt", "kilo"), A("hour"))), ("kW*h", MUL(A("watt", "kilo"), A("hour")))],
     [("J", A("joule")), ("Hz", A("hertz")), ("1/cm", DIV(N(1), A("meter", "centi")))]),
]


def same_answer(o1, o2):
    """Equal answers up to binary64 noise: pint caches intermediate factors, so the last ulp may depend on what was converted
    before (observed: 1 ulp); anything beyond 1e-13 relative, or a different exception class, is a real difference."""
    if o1[0] == "val" and o2[0] == "val":
        return abs(o1[1] - o2[1]) <= 1e-13 * max(abs(o1[1]), abs(o2[1]))
    return o1 == o2


def fresh_context(year):
    from qcelemental.physical_constants import PhysicalConstantsContext
    return PhysicalConstantsContext(f"CODATA{year}")


def history_calls(order):
    """The sequence of (source text, source expr, target text, target expr) calls for one ordering of the groups' members."""
    seq = []
    for members, targets in HISTORY_GROUPS:
        ms = list(members) if order == 0 else list(reversed(members))
        for tt, te in targets:
            for mt, me in ms:
                seq.append((mt, me, tt, te))
                seq.append((tt, te, mt, me))
    return seq


# ------------------------------------------------------------------------------------------------
# cross-context stream (wave 4): contexts of BOTH years alive in one process, the same request put to the other year's object first.
# A history is a list of ops executed after `import qcelemental`: ["new", year] builds object #len(objs); ["call", k, a, b] asks
# object #k.  The answer of the LAST op is judged by the independent SI oracle of that object's year; only requests whose 2014 and
# 2018 factors differ by more than 4x the oracle tolerance are used, so an answer served from the other year's constants (a cache or
# registry shared between contexts) cannot pass.

def run_cross_ops(ops):
    objs, out = [], None
    for op in ops:
        if op[0] == "new":
            objs.append(fresh_context(op[1]))
        else:
            out = impl_call(objs[op[1]], op[2], op[3])
    return out


def run_cross_subprocess(ops):
    """run_cross_ops in a fresh interpreter (same PYTHONPATH, i.e. the same implementation tree); -> the answer of every call op"""
    import json
    import subprocess
    import sys
    code = ("import sys, json; from harness.props import c03; ops = json.load(sys.stdin); objs = []; outs = []\n"
            "for op in ops:\n"
            "    if op[0] == 'new': objs.append(c03.fresh_context(op[1]))\n"
            "    else: outs.append(c03.impl_call(objs[op[1]], op[2], op[3]))\n"
            "json.dump(outs, sys.stdout)\n")
    r = subprocess.run([sys.executable, "-c", code], input=json.dumps(ops), capture_output=True, text=True, cwd=coqrun.VERIF, timeout=300)
    if r.returncode != 0:
        raise RuntimeError("cross-context worker: " + r.stderr[-400:])
    return [tuple(o) for o in json.loads(r.stdout)]


def cross_year_sensitive(si, a, b):
    """the factor a->b differs between the two sets by more than 4x the looser oracle tolerance"""
    try:
        e14, e18 = si[2014].expected(a, b), si[2018].expected(a, b)
    except KeyError:
        return False
    if e14[0] != "value" or e18[0] != "value" or e14[1] == 0:
        return False
    return abs(e14[1] - e18[1]) > 4 * max(e14[2], e18[2]) * abs(e14[1])


def probe_replay(ctx, stream, case):
    """does this case fail when replayed in a FRESH process? (about 2 s)"""
    import json
    import subprocess
    import sys
    tmp = os.path.join(coqrun.BUILD, f"c03-probe-{os.getpid()}.json")
    with open(tmp, "w") as fh:
        json.dump({"stream": stream, "case": case}, fh, default=str)
    try:
        rc = subprocess.run([sys.executable, "-c", "import sys; from harness.core import main; sys.exit(main())", ctx.pid, "--replay", tmp],
                            cwd=coqrun.VERIF, stdout=subprocess.DEVNULL, stderr=subprocess.DEVNULL, timeout=120).returncode
    except Exception:
        rc = None
    try:
        os.remove(tmp)
    except OSError:
        pass
    return rc == 1


# ------------------------------------------------------------------------------------------------
# glue stream (wave 3): the entry points themselves — conversion_factor with str / pint Quantity / pint Unit arguments and its
# functools.lru_cache, on fresh context objects, on the long-lived ones and on the module-level singleton qcelemental.constants;
# Datum.to_units (which goes through the singleton).  A HISTORY is a list of calls on ONE object; every answer is judged by the
# oracle and the whole history is replayed by the model of the cache (Model/UnitsGlue.v: run).
# An argument is ["s", text] | ["q", k, text] (the Quantity k * parse_expression(text)) | ["u", text] (the Unit of text).

def garg(kind, e, k=1):
    """argument descriptor + the expression it means"""
    if kind == "s":
        return (["s", render(e)], e)
    if kind == "q":
        return (["q", str(Fraction(k)), render(e)], MUL(N(k), e))
    return (["u", render(e)], e)


def build_arg(cobj, d):
    if d[0] == "s":
        return d[1]
    if d[0] == "q":
        return float(Fraction(d[1])) * cobj.ureg.parse_expression(d[2])
    return cobj.ureg.parse_expression(d[1]).units


def glue_call(cobj, da, db, via_datum=False):
    if via_datum:
        # Datum(label, units, data).to_units(units) = factor * data, through the module-level singleton
        try:
            from qcelemental.datum import Datum
            r = Datum("x", da[1], 2.0).to_units(db[1])
        except Exception as e:
            return ("err", type(e).__name__)
        if isinstance(r, float) and math.isfinite(r):
            return ("val", r / 2.0)
        return ("other", repr(r)[:80])
    try:
        a, b = build_arg(cobj, da), build_arg(cobj, db)
    except Exception as e:
        return ("other", "argument construction failed: " + repr(e)[:60])
    return impl_call(cobj, a, b)


def carg_term(d, e):
    """Gallina carg for an argument descriptor (e = the expression of the descriptor's text, without the Quantity's magnitude)"""
    if d[0] == "s":
        return f"(AStr {cstr(d[1])})"
    if d[0] == "q":
        return f"(AQty {coqrun.cq(Fraction(d[1]))} {cexpr(e)})"
    if d[0] == "u":
        return f"(AUnit {cexpr(e)})"
    return None


def has_pow0(e):
    if e[0] == "pow":
        return e[2] == 0 or has_pow0(e[1])
    if e[0] in ("mul", "div"):
        return has_pow0(e[1]) or has_pow0(e[2])
    return False


def has_num(e):
    if e[0] == "num":
        return True
    if e[0] == "pow":
        return has_num(e[1])
    if e[0] in ("mul", "div"):
        return has_num(e[1]) or has_num(e[2])
    return False


def crosses_prefixed_bridge(si, a, b):
    try:
        return bool(prefixed_nist_sources(a)) and si.md(a)[1] != si.md(b)[1]
    except KeyError:
        return True


GLUE_PINNED = [
    # (calls: list of ((kindA, exprA, kA), (kindB, exprB, kB)))
    # the cache must not identify a str with a Quantity, nor requests in different contexts
    [(("s", MUL(N(2), A("bohr")), 1), ("s", A("angstrom"), 1)), (("q", A("bohr"), 2), ("s", A("angstrom"), 1)),
     (("s", MUL(N(2), A("bohr")), 1), ("s", A("angstrom"), 1)), (("q", A("bohr"), 2), ("q", A("angstrom"), 1)),
     (("q", A("bohr"), 2), ("q", A("angstrom"), 4)), (("s", A("bohr"), 1), ("q", A("angstrom"), 4)), (("s", A("bohr"), 1), ("s", A("angstrom"), 1))],
    # identical-units fast paths: a prefactor with both sides the same unit
    [(("q", A("bohr"), 2), ("s", A("bohr"), 1)), (("s", MUL(N(2), A("bohr")), 1), ("s", A("bohr"), 1)), (("s", A("bohr"), 1), ("q", A("bohr"), 4)),
     (("q", A("hartree"), 3), ("q", A("hartree"), 3)), (("q", A("hartree"), 3), ("q", A("hartree"), 1)), (("s", A("hartree"), 1), ("s", A("hartree"), 1))],
    # Quantities that pint calls equal (same magnitude and units after to_base_units) — same dimension: one answer
    [(("q", A("meter"), 1), ("s", A("bohr"), 1)), (("q", A("meter", "centi"), 100), ("s", A("bohr"), 1)), (("q", A("meter", "milli"), 1000), ("s", A("bohr"), 1)),
     (("q", A("meter"), 1), ("s", A("angstrom"), 1)), (("q", A("second"), 1), ("s", A("bohr"), 1)), (("q", A("meter"), 1), ("s", A("second"), 1))],
    # equal magnitudes in different dimensions / same text on both sides
    [(("q", A("joule"), 1), ("s", A("hartree"), 1)), (("q", A("hertz"), 1), ("s", A("hartree"), 1)), (("q", A("kelvin"), 1), ("s", A("hartree"), 1)),
     (("q", A("gram", "kilo"), 1), ("s", A("hartree"), 1)), (("q", A("wavenumber"), 1), ("s", A("hartree"), 1)), (("q", A("joule"), 1), ("s", A("hartree"), 1)),
     (("s", A("hartree"), 1), ("q", A("joule"), 1)), (("s", A("hartree"), 1), ("q", A("hertz"), 1))],
    # zero and unit magnitudes
    [(("q", A("bohr"), 0), ("s", A("angstrom"), 1)), (("q", A("second"), 0), ("s", A("angstrom"), 1)), (("q", A("bohr"), 1), ("s", A("angstrom"), 1)),
     (("q", A("angstrom"), 0), ("s", A("bohr"), 1)), (("q", A("bohr"), 0), ("s", A("angstrom"), 1))],
    # per-mole and default-route bridges with Quantity arguments
    [(("q", DIV(A("calorie", "kilo"), A("mole")), 1), ("s", A("hartree"), 1)), (("q", DIV(A("calorie"), A("mole")), 1000), ("s", A("hartree"), 1)),
     (("q", A("calorie", "kilo"), 1), ("s", A("hertz"), 1)), (("q", A("calorie"), 1000), ("s", A("hertz"), 1)),
     (("s", A("hartree"), 1), ("q", DIV(A("calorie", "kilo"), A("mole")), 1)), (("q", DIV(A("calorie", "kilo"), A("mole")), 1), ("q", DIV(A("joule", "kilo"), A("mole")), 1))],
]
# the known finding seen through the cache: Quantity(1 MHz) and Quantity(1e6 Hz) are one key; whichever is asked first decides
GLUE_POISON = [
    [(("q", A("hertz", "mega"), 1), ("s", A("hartree"), 1)), (("q", A("hertz"), 1000000), ("s", A("hartree"), 1))],
    [(("q", A("hertz"), 1000000), ("s", A("hartree"), 1)), (("q", A("hertz", "mega"), 1), ("s", A("hartree"), 1))],
]


_EN = [("hartree", "hartree"), ("joule", "joule"), ("electron volt", "electron_volt")]
_OT = [("hertz", "hertz"), ("inverse meter", "1/meter"), ("kilogram", "kilogram"), ("kelvin", "kelvin")]
PUBLISHED_EXACT = [(l, r) for l in _EN for r in _OT] + [(l, ("hartree", "hartree")) for l in _OT + [("atomic mass unit", "atomic_mass_unit")]]


def glue_histories(ctx, si, base_cases):
    """-> list of (year, objkind, calls) ; calls = list of (descA, exprA(with magnitude), rawA, descB, exprB, rawB, via_datum)"""
    rng = ctx.rng
    out = []
    seen_by_obj = {}

    def mk(calls):
        res = []
        for (ka, ea, na), (kb, eb, nb) in calls:
            da, xa = garg(ka, ea, na)
            db, xb = garg(kb, eb, nb)
            res.append((da, xa, ea, db, xb, eb, False))
        return res
    for year in (2014, 2018):
        for h in GLUE_PINNED + GLUE_POISON:
            out.append((year, "fresh", mk(h)))
        pool = [(a, b) for (st, y, a, b) in base_cases if y == year and not st.startswith(("compound", "unrelated", "same-prefixed"))
                and not has_pow0(a) and not has_pow0(b)]
        ks = [1, 2, 3, "0.5", "2.5", 1000, "0.001"]
        for hno in range(60 if ctx.thorough else 24):
            obj = ["fresh", "fresh", "long", "singleton"][hno % 4]
            if obj == "singleton" and year != 2014:
                obj = "long"
            calls = []
            picks = [rng.choice(pool) for _ in range(4)] + [rng.choice([c for c in pool if len(atoms_of(c[0])) == 1 and len(atoms_of(c[1])) == 1]) for _ in range(2)]
            for a, b in picks:
                variants = []
                for _ in range(2):
                    ka = rng.choice(["s", "s", "q", "q", "u"])
                    kb = rng.choice(["s", "s", "s", "q", "u"])
                    if has_num(a) and ka == "u":
                        ka = "s"
                    if has_num(b) and kb == "u":
                        kb = "s"
                    # Quantity keys are only used where the answer cannot depend on which pint-equal Quantity was asked first
                    if ka == "q" and crosses_prefixed_bridge(si[year], a, b):
                        ka = "s"
                    na, nb = rng.choice(ks), rng.choice(ks)
                    variants.append(((ka, a, na), (kb, b, nb)))
                # the same request again later (a cache hit), and the reverse request
                variants.append(variants[0])
                variants.append((("s", b, 1), ("s", a, 1)))
                calls += variants
            rng.shuffle(calls)
            # generator restriction: across a bridge two pint-equal Quantity sources spelled differently (1 N m and 1 J) may take
            # different routes (default constant vs published relationship, 1e-10 apart) and the cache serves whichever came first;
            # whether pint's binary64 == identifies them is a rounding accident, so only one spelling per quantity is sent as Quantity
            seen_q = seen_by_obj.setdefault((year, obj if obj != "fresh" else ("fresh", hno)), {})
            fixed = []
            for (ka, a, na), (kb, b, nb) in calls:
                try:
                    bridge = si[year].md(a)[1] != si[year].md(b)[1]
                    for which, (kk, e, n) in (("a", (ka, a, na)), ("b", (kb, b, nb))):
                        if kk == "q" and bridge:
                            m_, d_, _ = si[year].md(MUL(N(n), e))
                            key = (which, m_, d_)
                            if seen_q.setdefault(key, render(e)) != render(e):
                                if which == "a":
                                    ka = "s"
                                else:
                                    kb = "s"
                except KeyError:
                    ka, kb = "s", "s"
                fixed.append(((ka, a, na), (kb, b, nb)))
            res = mk(fixed)
            if obj == "singleton":
                # Datum.to_units goes through the singleton's conversion_factor with two str arguments
                for i, c_ in enumerate(res):
                    if c_[0][0] == "s" and c_[3][0] == "s" and rng.random() < 0.5:
                        res[i] = c_[:6] + (True,)
            out.append((year, obj, res))
    return out


def run_glue_history(year, objkind, calls, ctxs):
    """-> (answers, object) ; a fresh object per history unless the history is for a long-lived one"""
    if objkind == "fresh":
        cobj = fresh_context(year)
    elif objkind == "singleton":
        import qcelemental
        cobj = qcelemental.constants
    else:
        cobj = ctxs[year]
    outs = []
    for da, _xa, _ea, db, _xb, _eb, via in calls:
        outs.append(glue_call(cobj, da, db, via_datum=via))
    return outs


def pint_equal(si, xa, xb):
    """do the two expressions denote the same quantity (what pint's Quantity.__eq__/__hash__ identify)?"""
    try:
        ma, da, _ = si.md(xa)
        mb, db, _ = si.md(xb)
    except KeyError:
        return False
    return da == db and ma == mb


def correspond(ctx):
    corr = Corr()
    corr.rule = ("per dimension (length, mass, time, charge, energy, energy/mol, dipole, force, pressure, frequency, wavenumber, temperature): all "
                 "ordered pairs of the unprefixed units and compound expressions; every SI prefix on every unit name against sampled partners; "
                 "the 19 au_* units against the SI expression CODATA gives them; random compound products/quotients/powers with numeric "
                 "prefactors; every ordered pair of the six bridged dimensions (unprefixed, compound, SI-prefixed NIST and non-NIST sources); "
                 "pairs of unrelated dimensions; both CODATA contexts. A case is non-trivial if the implementation returned a number and the "
                 "two expressions differ; distinct = distinct (context, source text, target text). Model (exact rationals) vs implementation "
                 "(binary64): relative 1e-12. Oracle (independent SI ratio) vs implementation: 1e-12 for exact factors, 5e-9 where CODATA/NIST "
                 "rounded constants enter.")
    tr = _tr(ctx)
    try:
        ctxs = contexts()
        for c in ctxs.values():
            c.ureg
    except Exception as e:
        corr.failures.append({"stream": "construct", "case": {"year": 0, "a": "", "b": ""},
                              "what": f"the units registry could not be built: {type(e).__name__}: {e}", "observed": repr(e)})
        return corr
    raw = {y: codata.read_raw_txt(ctx.repo, y) for y in codata.YEARS}
    if tr.get("gen_failed"):
        plain, prefixes = uregdefs.plain_units(set()), uregdefs.pint_prefixes()
        tr_for_cases = None
    else:
        plain, prefixes = tr["plain"], tr["prefixes"]
        tr_for_cases = tr
    si = {y: SI(raw[y], plain, prefixes, y) for y in codata.YEARS}
    if tr_for_cases is None:
        # translation failed: oracle only, on a reduced corpus that needs nothing from the translation
        tr_for_cases = {"au_defs": {2014: [], 2018: []}}
    cases = [("corpus", y, a, b) for y, a, b in CORPUS] + gen_cases(ctx, tr_for_cases)
    # binary64 range guard (generator restriction, not an oracle relaxation): pint flattens an expression into a product of
    # base-unit powers and multiplies them up in its own order, so a compound whose flattened per-unit powers have decimal
    # exponents summing beyond ~1e250 may overflow/underflow an intermediate although the factor itself is representable
    # (seed 1: (au_action/hartree)^-3 * ((eV/angstrom^3)^-1)^-6 -> 0.0).  Such cases are outside what binary64 can deliver
    # and are dropped before either side is run.
    kept = []
    for c in cases:
        if c[0].startswith("compound") and flat_log10_span(si[c[1]], c[2]) + flat_log10_span(si[c[1]], c[3]) > 250:
            corr.hit("dropped: flattened powers beyond 1e250 (binary64 intermediate range)")
            continue
        kept.append(c)
    cases = kept
    seen, terms, meta = set(), [], []
    answers = {}
    for stream, year, a, b in cases:
        sa, sb = render(a), render(b)
        key = (year, sa, sb)
        if key in seen:
            continue
        seen.add(key)
        out = impl_call(ctxs[year], sa, sb)
        answers[key] = out
        corr.count(stream.split(":")[0])
        corr.hit("impl_" + out[0] + ("_" + out[1] if out[0] == "err" else ""))
        if out[0] == "val" and sa != sb:
            corr.nontriv(key)
            if ctx.rng.random() < 0.0004:
                corr.sample({"year": year, "from": sa, "to": sb, "impl": out[1]})
        case = {"year": year, "a": sa, "b": sb, "ea": a, "eb": b}
        bad = judge(si[year], a, b, out, rerun=lambda x, y_, _c=ctxs[year]: impl_call(_c, render(x), render(y_)))
        if bad:
            corr.failures.append({"stream": "oracle:" + stream.split(":")[0], "case": case, "what": bad[0], "observed": out, "details": bad[1]})
        et = expect_term(out)
        if et is None:
            corr.failures.append({"stream": "oracle:domain", "case": case, "what": f"answer outside the modelled domain: {out}", "observed": out})
            continue
        terms.append(f"({cz(year)}, {cexpr(a)}, {cexpr(b)}, {et})")
        meta.append((case, out, stream))
    # algebraic laws evaluated on the implementation's own answers
    flagged = {(f["case"]["year"], f["case"]["a"], f["case"]["b"]) for f in corr.failures}

    def ans(year, x, y):
        k = (year, render(x), render(y))
        if k not in answers:
            answers[k] = impl_call(ctxs[year], k[1], k[2])
        return answers[k]

    def law_fail(stream, year, exprs, what, observed):
        corr.failures.append({"stream": "oracle:law-" + stream, "case": {"year": year, "a": render(exprs[0]), "b": render(exprs[1]),
                                                                         "ea": exprs[0], "eb": exprs[1], "law": stream,
                                                                         "exprs": [render(e) for e in exprs]},
                              "what": what, "observed": observed, "details": {}})

    comp = compound_exprs()
    for year in (2014, 2018):
        for dim in list(DIM_ATOMS) + ["energy/mol"]:
            core = [A(n) for n in DIM_ATOMS.get(dim, [])] + comp.get(dim, [])
            pref = [A(n, p) for n in DIM_ATOMS.get(dim, []) for p in COMMON_PREFIXES]
            pool = core + ctx.rng.sample(pref, min(len(pref), 6))
            for x in pool:
                o = ans(year, x, x)
                corr.count("law-diagonal")
                if o[0] != "val" or abs(o[1] - 1.0) > 1e-12:
                    law_fail("diagonal", year, [x, x], f"conversion of an expression to itself gives {o}", o)
            for _ in range(60 if ctx.thorough else 15):
                x, y, z = (ctx.rng.choice(pool) for _ in range(3))
                oxy, oyx, oyz, oxz = ans(year, x, y), ans(year, y, x), ans(year, y, z), ans(year, x, z)
                corr.count("law-reciprocal-chain")
                if all(o[0] == "val" for o in (oxy, oyx, oyz, oxz)):
                    if abs(oxy[1] * oyx[1] - 1.0) > 1e-12:
                        law_fail("reciprocity", year, [x, y], f"factor(a,b)*factor(b,a) = {oxy[1] * oyx[1]!r}", [oxy, oyx])
                    if abs(oxy[1] * oyz[1] / oxz[1] - 1.0) > 1e-12:
                        law_fail("chain", year, [x, z, y], f"factor(a,b)*factor(b,c)/factor(a,c) = {oxy[1] * oyz[1] / oxz[1]!r}", [oxy, oyz, oxz])
                else:
                    law_fail("total", year, [x, y], "a same-dimension conversion raised", [oxy, oyx, oyz, oxz])
                kq = ctx.rng.choice([2, 3, "0.5", "2.5", 1000])
                okx, oky = ans(year, MUL(N(kq), x), y), ans(year, x, MUL(N(kq), y))
                corr.count("law-linearity")
                kf = float(Fraction(kq))
                if okx[0] != "val" or oky[0] != "val" or oxy[0] != "val" or abs(okx[1] / (kf * oxy[1]) - 1.0) > 1e-12 \
                        or abs(oky[1] * kf / oxy[1] - 1.0) > 1e-12:
                    law_fail("linearity", year, [MUL(N(kq), x), y], f"prefactor {kq}: factor(k a,b)={okx}, factor(a,k b)={oky}, factor(a,b)={oxy}", [okx, oky, oxy])
        # bridge round trips a->b->a = 1 (to the precision of the published relationship values), where neither direction is already reported
        for (yr, sa, sb), o in list(answers.items()):
            if yr != year or o[0] != "val" or sa == sb:
                continue
            r = answers.get((yr, sb, sa))
            if r is None or r[0] != "val" or (yr, sa, sb) in flagged or (yr, sb, sa) in flagged:
                continue
            corr.count("law-roundtrip")
            if abs(o[1] * r[1] - 1.0) > 2 * float(TOL_NIST_YEAR[yr]):
                corr.failures.append({"stream": "oracle:law-roundtrip", "case": {"year": yr, "a": sa, "b": sb, "law": "roundtrip"},
                                      "what": f"factor(a,b)*factor(b,a) = {o[1] * r[1]!r}", "observed": [o, r], "details": {}})
    # spelling stream: symbols and aliases give exactly the canonical spelling's answer
    for alias, canon in ALIAS_PAIRS:
        for tgt in ALIAS_TARGETS:
            for year in (2014, 2018):
                for swap in (False, True):
                    x1, x2 = (alias, tgt) if not swap else (tgt, alias)
                    y1, y2 = (canon, tgt) if not swap else (tgt, canon)
                    o1, o2 = impl_call(ctxs[year], x1, x2), impl_call(ctxs[year], y1, y2)
                    if o1[0] == "err" and o2[0] == "err":
                        continue
                    corr.count("spelling")
                    if o1 != o2:
                        corr.failures.append({"stream": "oracle:spelling", "case": {"year": year, "a": x1, "b": x2, "canon_a": y1, "canon_b": y2},
                                              "what": f"spelling {x1!r}->{x2!r} gives {o1}, canonical spelling gives {o2}", "observed": [o1, o2]})
    corr.sample({"year": 2014, "from": "megahertz", "to": "hartree", "impl": answers[(2014, "megahertz", "hartree")][1]})
    # history stream: colliding spellings issued in both orders, each order on its OWN fresh context object; every answer is judged
    # by the oracle (and below by the model) and the two orders must agree call by call
    hist_terms = []
    for year in (2014, 2018):
        per_order = []
        for order in (0, 1):
            try:
                cobj = fresh_context(year)
            except Exception as e:
                corr.failures.append({"stream": "oracle:history", "case": {"year": year, "a": "", "b": ""}, "what": f"fresh context failed: {e!r}", "observed": repr(e), "details": {}})
                continue
            seq = history_calls(order)
            got = {}
            done = []
            for st, se, tt, te in seq:
                out = impl_call(cobj, st, tt)
                corr.count("history")
                prelude = list(done[-40:])
                done.append([st, tt])
                got[(st, tt)] = out
                if se is None or te is None:
                    # a spelling that is no unit at all, or a unit of a dimension unrelated to every target of its group: any number is wrong
                    if out[0] == "val":
                        corr.failures.append({"stream": "oracle:history", "case": {"year": year, "a": st, "b": tt, "prelude": prelude, "must_fail": True},
                                              "what": f"{st!r} -> {tt!r} returned {out[1]!r} although {st!r}/{tt!r} is no unit of a related dimension", "observed": out, "details": {}})
                    continue
                bad = judge(si[year], se, te, out, rerun=lambda x, y_, _c=ctxs[year]: impl_call(_c, render(x), render(y_)))
                if bad:
                    corr.failures.append({"stream": "oracle:history", "case": {"year": year, "a": st, "b": tt, "ea": se, "eb": te, "prelude": prelude},
                                          "what": "after earlier calls on the same context: " + bad[0], "observed": out, "details": bad[1]})
                et = expect_term(out)
                if et is not None and order == 0:
                    hist_terms.append((f"({cz(year)}, {cexpr(se)}, {cexpr(te)}, {et})", {"year": year, "a": st, "b": tt, "ea": se, "eb": te, "prelude": prelude}, out))
            per_order.append(got)
        if len(per_order) == 2:
            for k, o0 in per_order[0].items():
                o1 = per_order[1].get(k)
                if o1 is not None and not same_answer(o0, o1):
                    corr.failures.append({"stream": "oracle:history", "case": {"year": year, "a": k[0], "b": k[1], "order_dependent": True},
                                          "what": f"{k[0]!r} -> {k[1]!r} gives {o0} or {o1} depending on which colliding spelling was asked first", "observed": [o0, o1], "details": {}})
    # cross-context stream: see run_cross_ops
    sens = []
    for (stream_, year_, a_, b_) in cases:
        if year_ == 2014 and not stream_.startswith(("unrelated", "compound")) and (2014, render(a_), render(b_)) not in flagged \
                and (2018, render(a_), render(b_)) not in flagged and not prefixed_nist_sources(a_) and cross_year_sensitive(si, a_, b_):
            sens.append((a_, b_))
    ctx.rng.shuffle(sens)
    sens = sens[:120 if ctx.thorough else 40]
    cross_ops, cross_meta = [], []
    for rnd, build in enumerate(([2018, 2014], [2014, 2018])):
        base = len([o for o in cross_ops if o[0] == "new"])
        idx = {}
        for y in build:
            idx[y] = base + build.index(y)
            cross_ops.append(["new", y])
        for i, (a_, b_) in enumerate(sens[rnd::2]):
            sa, sb = render(a_), render(b_)
            order = (2018, 2014) if i % 2 == 0 else (2014, 2018)
            for y in order:
                cross_ops.append(["call", idx[y], sa, sb])
                cross_meta.append((len(cross_ops), y, a_, b_, order))
    try:
        # executed in a process of its own, so that the history is exactly `import qcelemental` + these ops
        cross_outs = run_cross_subprocess(cross_ops)
        first = True
        for (upto, y, a_, b_, order), out in zip(cross_meta, cross_outs):
            sa, sb = render(a_), render(b_)
            corr.count("cross-context")
            if out[0] == "val":
                corr.nontriv(("cross", upto, y, sa, sb))
            bad = judge(si[y], a_, b_, out)
            if not bad:
                continue
            case = {"year": y, "a": sa, "b": sb, "ea": a_, "eb": b_, "cross": {"ops": [list(o) for o in cross_ops[:upto]]}}
            if first:
                first = False
                other = [o for o in order if o != y][0]
                for short in ([["new", y], ["call", 0, sa, sb]],
                              [["new", other], ["new", y], ["call", 0, sa, sb], ["call", 1, sa, sb]],
                              [["new", y], ["new", other], ["call", 1, sa, sb], ["call", 0, sa, sb]]):
                    cshort = dict(case, cross={"ops": short, "ops_before_minimisation": case["cross"]["ops"]})
                    if probe_replay(ctx, "oracle:cross-context", cshort):
                        case = cshort
                        break
            # reported FIRST: these histories ran in a process of their own, so their replays are self-contained, whereas a single-call
            # case recorded by another stream does not reproduce in a fresh process when the cause is state shared between contexts
            n_cross = sum(1 for f_ in corr.failures if f_["stream"] == "oracle:cross-context")
            corr.failures.insert(n_cross, {"stream": "oracle:cross-context", "case": case,
                                           "what": "with contexts of both years alive in one process: " + bad[0], "observed": out, "details": bad[1]})
    except Exception as e:
        corr.errors.append(f"cross-context stream failed: {e!r}")
    corr.hit(f"cross-context: {len(sens)} year-sensitive requests")
    # published-exact stream: conversions between the two units of a published '<a>-<b> relationship' whose target is the unit the bridge
    # converts to (hartree for sources Hz, 1/m, kg, K, u; Hz, 1/m, kg, K for sources hartree, J, eV) must reproduce NIST's number itself
    # (raw text of the same set) to binary64 precision, not merely to CODATA precision
    for year in (2014, 2018):
        for (lname, ltext), (rname, rtext) in PUBLISHED_EXACT:
            key_name = f"{lname}-{rname} relationship"
            try:
                want = nist_value(raw[year], key_name)
            except KeyError:
                continue
            out = impl_call(ctxs[year], ltext, rtext)
            corr.count("published-exact")
            if out[0] != "val" or abs(Fraction(out[1]) - want) > TOL_EXACT * abs(want):
                corr.failures.append({"stream": "oracle:published-exact", "case": {"year": year, "a": ltext, "b": rtext, "published": key_name},
                                      "what": f"{ltext!r} -> {rtext!r} gives {out}, NIST publishes {float(want)!r} as the {key_name}", "observed": out, "details": {}})
    # glue stream: str / Quantity / Unit arguments, lru_cache, fresh and long-lived objects, the singleton, Datum.to_units
    glue_terms, glue_meta = [], []
    try:
        hists = glue_histories(ctx, si, cases)
    except Exception as e:
        hists = []
        corr.errors.append(f"glue stream generator failed: {e!r}")
    for year, objkind, calls in hists:
        outs = run_glue_history(year, objkind, calls, ctxs)
        descs = [[c_[0], c_[3], bool(c_[6])] for c_ in calls]
        model_ok = True
        items = []
        for i, (c_, out) in enumerate(zip(calls, outs)):
            da, xa, ea, db, xb, eb, via = c_
            corr.count("glue")
            corr.hit("glue arg kinds " + da[0] + "," + db[0] + (" via Datum.to_units" if via else "") + " on " + objkind)
            earlier = [j for j in range(i) if calls[j][0] == da and calls[j][3] == db]
            if earlier:
                corr.hit("glue: identical key asked again (cache hit)")
            eq_earlier = [j for j in range(i) if j not in earlier and "q" in (da[0], db[0]) and calls[j][0][0] == da[0] and calls[j][3][0] == db[0]
                          and pint_equal(si[year], calls[j][1], xa) and pint_equal(si[year], calls[j][4], xb)
                          and (da[0] == "q" or calls[j][0] == da) and (db[0] == "q" or calls[j][3] == db)]
            if eq_earlier:
                corr.hit("glue: pint-equal Quantity key asked before (cache hit on a different spelling)")
            if out[0] == "val":
                corr.nontriv(("glue", year, objkind, i, str(da), str(db)))
            case = {"year": year, "a": render(xa), "b": render(xb), "ea": xa, "eb": xb,
                    "glue": {"obj": objkind, "calls": descs[:i + 1], "index": i}}
            bad = judge(si[year], xa, xb, out, rerun=lambda x, y_, _c=ctxs[year]: impl_call(_c, render(x), render(y_)))
            if bad:
                det = dict(bad[1])
                # the known finding seen through the cache: an earlier pint-equal Quantity request with an SI-prefixed NIST source
                # left its (double-scaled) answer in the cache
                for j in eq_earlier:
                    bj = judge(si[year], calls[j][1], calls[j][4], outs[j], rerun=lambda x, y_, _c=ctxs[year]: impl_call(_c, render(x), render(y_)))
                    if bj and outs[j] == out:
                        alone = glue_call(fresh_context(year), da, db)
                        det["poisoned_by"] = {"earlier_index": j, "earlier_a": render(calls[j][1]), "earlier_b": render(calls[j][4]),
                                              "earlier_details": bj[1], "same_answer": True,
                                              "alone_on_fresh_context_ok": alone[0] == "val" and judge(si[year], xa, xb, alone) is None}
                        break
                corr.failures.append({"stream": "oracle:glue", "case": case, "what": ("after earlier calls on the same object: " if i else "") + bad[0],
                                      "observed": out, "details": det})
            # the model replays the history: str, Quantity and Unit arguments
            ta, tb = carg_term(da, ea), carg_term(db, eb)
            et = expect_term(out)
            if tr.get("gen_failed") or ta is None or tb is None or et is None \
                    or (out[0] == "err" and out[1] not in ("DimensionalityError", "UndefinedUnitError", "ZeroDivisionError")) \
                    or not all(d_[0] != "s" or (d_[1].isascii() and text_in_subset(ctxs[year], d_[1], tr)) for d_ in (da, db)):
                model_ok = False
            else:
                items.append(f"({ta}, {tb}, {et})")
        if model_ok and items and not tr.get("gen_failed"):
            glue_terms.append(f"({cz(year)}, [{'; '.join(items)}])")
            glue_meta.append((year, objkind, calls, outs))
        else:
            corr.hit("glue: history judged by the oracle only (a text outside the modelled subset or an unmodelled exception class)")
    # determinism: re-issue a shuffled sample of the earlier cases on the long-lived contexts and on fresh ones
    keys = [k for k in answers]
    ctx.rng.shuffle(keys)
    fresh = {y: fresh_context(y) for y in (2014, 2018)}
    for n_, (year, sa, sb) in enumerate(keys[:4000 if ctx.thorough else 1500]):
        again = impl_call(ctxs[year], sa, sb)
        corr.count("determinism")
        other = impl_call(fresh[year], sa, sb) if n_ < 400 else again
        if not same_answer(again, answers[(year, sa, sb)]) or not same_answer(other, again):
            corr.failures.append({"stream": "oracle:history", "case": {"year": year, "a": sa, "b": sb, "determinism": True},
                                  "what": f"same request answered {answers[(year, sa, sb)]} first, {again} later, {other} on a fresh context", "observed": [answers[(year, sa, sb)], again, other], "details": {}})
    if tr.get("gen_failed"):
        corr.notes.append("translation failed (" + tr["gen_failed"][:200] + "); model not evaluated, oracle only")
        return corr
    for t, case, out in hist_terms:
        terms.append(t)
        meta.append((case, out, "history"))
    ctx.log(f"{len(terms)} conversions through the implementation; evaluating the model")
    bad, errors = coqrun.eval_bad_indices("C03", ["QV.Common.Outcome", "QV.Common.UnitsC03", "QV.Model.Units"], "", "check_case", terms,
                                          shard=1000, ty="Z * uexpr * uexpr * cexpect")
    corr.errors.extend(f"shard {k}: {e}" for k, e in errors)
    for bi in bad[:8]:
        case, out, stream = meta[bi]
        got, _ = coqrun.eval_terms("C03", ["QV.Common.Outcome", "QV.Common.UnitsC03", "QV.Model.Units"], "",
                                   [f"conv_ctx (ctx_of {cz(case['year'])}) {cexpr(case['ea'])} {cexpr(case['eb'])}"])
        corr.disagreements.append({"stream": stream, "case": case, "impl": out, "model": got})
    if len(bad) > 8:
        corr.notes.append(f"{len(bad)} disagreements in total; first 8 listed")
    # text stream: the model reads the TEXT itself (Model/UnitsText.v: tokenizer, precedence, symbol/alias/prefix resolution)
    texts = []
    for alias, canon in ALIAS_PAIRS:
        for tgt in ALIAS_TARGETS:
            texts += [(alias, tgt), (tgt, alias), (canon, tgt)]
    for members, targets in HISTORY_GROUPS:
        for mt, _me in members:
            for tt, _te in targets:
                texts += [(mt, tt), (tt, mt)]
    sample = [m_ for m_ in meta if m_[2] != "history"]
    ctx.rng.shuffle(sample)
    for case, _out, _stream in sample[:4000 if ctx.thorough else 1200]:
        texts.append((case["a"], case["b"]))
        texts.append((render_sym(case["ea"], tr, ctx.rng), render_sym(case["eb"], tr, ctx.rng)))
    tterms, tmeta, skipped = [], [], 0
    seen_t = set()
    for year in (2014, 2018):
        for ta, tb in texts:
            if (year, ta, tb) in seen_t:
                continue
            seen_t.add((year, ta, tb))
            if not (ta.isascii() and tb.isascii() and text_in_subset(ctxs[year], ta, tr) and text_in_subset(ctxs[year], tb, tr)):
                skipped += 1
                continue
            out = impl_call(ctxs[year], ta, tb)
            et = expect_term(out)
            if et is None or (out[0] == "err" and out[1] not in ("DimensionalityError", "UndefinedUnitError")):
                skipped += 1
                continue
            corr.count("text")
            tterms.append(f"({cz(year)}, {cstr(ta)}, {cstr(tb)}, {et})")
            tmeta.append(({"year": year, "a": ta, "b": tb, "text": True}, out))
    corr.notes.append(f"text stream: {len(tterms)} spellings read by the model from the text itself; {skipped} outside the modelled subset of names (skipped)")
    tbad, terrors = coqrun.eval_bad_indices("C03text", ["QV.Common.Outcome", "QV.Common.UnitsC03", "QV.Model.Units", "QV.Model.UnitsText"], "",
                                            "check_case_text", tterms, shard=1000, ty="Z * string * string * cexpect")
    corr.errors.extend(f"text shard {k}: {e}" for k, e in terrors)
    for bi in tbad[:8]:
        case, out = tmeta[bi]
        got, _ = coqrun.eval_terms("C03text", ["QV.Common.Outcome", "QV.Common.UnitsC03", "QV.Model.Units", "QV.Model.UnitsText"], "",
                                   [f"(conv_text (ctx_of {cz(case['year'])}) {cstr(case['a'])} {cstr(case['b'])}, parse_text {cstr(case['a'])}, parse_text {cstr(case['b'])})"])
        corr.disagreements.append({"stream": "text", "case": case, "impl": out, "model": got})
    # glue histories through the model of the cache
    G_REQ = ["QV.Common.Outcome", "QV.Common.UnitsC03", "QV.Model.Units", "QV.Model.UnitsText", "QV.Model.UnitsGlue"]
    gbad, gerrors = coqrun.eval_bad_indices("C03glue", G_REQ, "", "check_case_glue", glue_terms, shard=12, ty="Z * list (carg * carg * cexpect)")
    corr.errors.extend(f"glue shard {k}: {e}" for k, e in gerrors)
    corr.notes.append(f"glue stream: {len(glue_terms)} call histories ({sum(len(m_[2]) for m_ in glue_meta)} calls) replayed by the model of conversion_factor's lru_cache")
    for bi in gbad[:6]:
        year, objkind, calls, outs = glue_meta[bi]
        got, _ = coqrun.eval_terms("C03glue", G_REQ, "", [f"run (ctx_of {cz(year)}) [] (map fst (snd {glue_terms[bi]}))"])
        corr.disagreements.append({"stream": "glue", "case": {"year": year, "a": render(calls[-1][1]), "b": render(calls[-1][4]), "ea": calls[-1][1], "eb": calls[-1][4],
                                                              "glue": {"obj": objkind, "calls": [[c_[0], c_[3], bool(c_[6])] for c_ in calls], "index": len(calls) - 1}},
                                   "impl": outs, "model": got})
    corr.notes.append("tolerances: model vs implementation 1e-12 relative; oracle by bridge kind: 1e-12 (same dimension, energy/mol, default-route "
                      "frequency), 1e-9 (frequency/wavenumber/mass via published relationships; temperature 2018), 2e-8 (temperature 2014), 1e-9 x total |exponent| of au_* units")
    return corr


def _rejudge(ctx, case):
    tr = _tr(ctx)
    raw = {y: codata.read_raw_txt(ctx.repo, y) for y in codata.YEARS}
    if tr.get("gen_failed"):
        plain, prefixes = uregdefs.plain_units(set()), uregdefs.pint_prefixes()
    else:
        plain, prefixes = tr["plain"], tr["prefixes"]
    year = case["year"]
    si = SI(raw[year], plain, prefixes, year)
    if case.get("published"):
        out = impl_call(contexts()[year], case["a"], case["b"])
        want = nist_value(raw[year], case["published"])
        ok = out[0] == "val" and abs(Fraction(out[1]) - want) <= TOL_EXACT * abs(want)
        return out, (None if ok else (f"not NIST's published {case['published']} ({float(want)!r})", {}))
    if case.get("glue"):
        g = case["glue"]
        if g.get("obj") == "singleton":
            import qcelemental
            cobj = qcelemental.constants
        else:
            cobj = fresh_context(year)
        out = None
        for da, db, via in g["calls"]:
            out = glue_call(cobj, da, db, via_datum=via)

        def tup0(e):
            if isinstance(e, (list, tuple)):
                if e and e[0] == "num":
                    return ("num", Fraction(e[1]))
                return tuple(tup0(x) for x in e)
            return e
        a, b = tup0(case["ea"]), tup0(case["eb"])
        both = contexts()[year]
        return out, judge(si, a, b, out, rerun=lambda x, y_: impl_call(both, render(x), render(y_)))
    if case.get("cross"):
        def tupc(e):
            if isinstance(e, (list, tuple)):
                if e and e[0] == "num":
                    return ("num", Fraction(e[1]))
                return tuple(tupc(x) for x in e)
            return e
        out = run_cross_ops(case["cross"]["ops"])
        return out, judge(si, tupc(case["ea"]), tupc(case["eb"]), out)
    cobj = contexts()[year]
    if case.get("prelude") is not None:
        cobj = fresh_context(year)               # history case: replay the earlier calls on a fresh context first
        for pa, pb in case["prelude"]:
            impl_call(cobj, pa, pb)
    out = impl_call(cobj, case["a"], case["b"])
    if case.get("must_fail"):
        return out, (("a number was returned although one side is not a unit expression", {}) if out[0] == "val" else None)
    if case.get("order_dependent") or case.get("determinism"):
        o2 = impl_call(fresh_context(year), case["a"], case["b"])
        return out, (None if same_answer(out, o2) else ("answer differs between contexts with different histories", {}))

    def tup(e):
        if isinstance(e, (list, tuple)):
            if e and e[0] == "num":
                return ("num", Fraction(e[1]))
            return tuple(tup(x) for x in e)
        return e
    if "canon_a" in case:
        o2 = impl_call(cobj, case["canon_a"], case["canon_b"])
        return out, (None if out == o2 else ("spelling differs", {}))
    a, b = tup(case["ea"]), tup(case["eb"])
    return out, judge(si, a, b, out, rerun=lambda x, y_: impl_call(cobj, render(x), render(y_)))


def search(ctx, corr, reasons):
    found = []
    for d in corr.disagreements:
        try:
            out, bad = _rejudge(ctx, d["case"])
        except Exception:
            continue
        if bad:
            found.append({"stream": "search", "case": d["case"], "what": bad[0], "observed": out, "details": bad[1]})
    return found


def _law_replay(cobj, case):
    """Re-evaluate one algebraic-law failure on the implementation."""
    law = case["law"]
    ex = case.get("exprs") or [case["a"], case["b"]]
    f = lambda x, y: impl_call(cobj, x, y)
    val = lambda o: o[1] if o[0] == "val" else None
    if law == "diagonal":
        o = f(ex[0], ex[0])
        return o, (val(o) is None or abs(val(o) - 1.0) > 1e-12)
    if law in ("reciprocity", "total", "roundtrip"):
        o1, o2 = f(ex[0], ex[1]), f(ex[1], ex[0])
        if val(o1) is None or val(o2) is None:
            return [o1, o2], law == "total"
        tol = 1e-12 if law != "roundtrip" else 2 * float(TOL_NIST_YEAR[case["year"]])
        return [o1, o2], abs(val(o1) * val(o2) - 1.0) > tol
    if law == "chain":
        a, c, b = ex[0], ex[1], ex[2]
        oab, obc, oac = f(a, b), f(b, c), f(a, c)
        if None in (val(oab), val(obc), val(oac)):
            return [oab, obc, oac], True
        return [oab, obc, oac], abs(val(oab) * val(obc) / val(oac) - 1.0) > 1e-12
    return None, False      # linearity: judged through its own factors below


def replay(ctx, rp):
    case = rp["case"]
    if not case.get("a"):
        return {"fails": False}
    if case.get("law") and case["law"] != "linearity":
        obs, bad = _law_replay(contexts()[case["year"]], case)
        return {"case": {k: case.get(k) for k in ("year", "a", "b", "law", "exprs")}, "implementation": obs, "oracle": f"law {case['law']} violated" if bad else None, "fails": bool(bad)}
    out, bad = _rejudge(ctx, case)
    # `details` (as in a normal run) lets the known-finding matcher recognise a replayed instance of C03-prefixed-bridge
    return {"case": {k: case[k] for k in ("year", "a", "b")}, "implementation": out, "oracle": bad[0] if bad else None,
            "details": (bad[1] if bad and len(bad) > 1 else None), "fails": bool(bad)}


def _known_prefixed_bridge(f):
    """Narrow: the conversion crosses a bridge; the source names an SI-prefixed NIST-relationship unit; the same conversion
    with that prefix removed is CORRECT on the implementation; the observed factor is exactly prefix^2 times that correct
    factor (1e-9 relative; binary64 noise only) — i.e. the prefix was applied twice — and hence observed/expected is the
    prefix's scale up to the rounding of the published relationship constants."""
    det = f.get("details") or {}
    pb = det.get("poisoned_by")
    if pb:
        # the same defect seen through lru_cache: an earlier request with a pint-equal Quantity key (e.g. Quantity(1 MHz) before
        # Quantity(1e6 Hz)) is itself an instance of the double scaling, its answer is what was returned (bit for bit), and the
        # present request alone on a fresh context object is answered correctly
        return bool(pb.get("same_answer")) and bool(pb.get("alone_on_fresh_context_ok")) \
            and _known_prefixed_bridge({"details": pb.get("earlier_details") or {}})
    if not det.get("crosses_bridge") or "ratio_num" not in det:
        return False
    ratio = Fraction(int(det["ratio_num"]), int(det["ratio_den"]))
    tol = Fraction(int(det.get("tol_num", 5)), int(det.get("tol_den", 10 ** 9)))
    prefixes = uregdefs.pint_prefixes()
    for d in det.get("double_scaling") or []:
        if [d["prefix"], d["unit"]] not in [list(x) for x in det.get("prefixed_nist_sources") or []]:
            continue
        scale = Fraction(10) ** prefixes[d["prefix"]]
        r2 = Fraction(int(d["obs_over_scale2_times_unprefixed_num"]), int(d["obs_over_scale2_times_unprefixed_den"]))
        if abs(r2 - 1) <= Fraction(1, 10 ** 9) and abs(ratio - scale) <= 2 * tol * scale:
            return True
    return False


KNOWN = {"C03-prefixed-bridge": _known_prefixed_bridge}

TECHNIQUE = ("Coq proofs (field over Q, induction over unit expressions and containers, finite-table computation) over a hand-written Gallina model "
             "of conversion_factor/pint and a registry regenerated from ureg.py by a fail-closed translator; differential correspondence within "
             "1e-12; independent SI oracle on the implementation")
DESIGN_REF = "DESIGN.md §6 C03"
LEVEL_TEXT = (
    "Machine-checked (Coq 8.16.1, no axioms) theorems over Model/Units.v, both CODATA sets. For ALL unit expressions (products, quotients, integer "
    "powers, rational prefactors of (prefix, unit) atoms): C03_same_dimension_is_SI_ratio (the factor is emag a / emag b, the ratio of SI "
    "magnitudes), C03_parse_is_algebraic (pint's ordered unit-container bookkeeping is faithful to the algebraic meaning), C03_diagonal, "
    "C03_reciprocal, C03_chain, C03_linear_in_source_prefactor, C03_linear_in_target_prefactor (field over Q; the non-zero-magnitude hypothesis "
    "is discharged for every registry entry), C03_unrelated_dims_error and C03_number_only_if_dimension_reached. Finite (table) theorems: "
    "C03_anchored / C03_anchored_misc (every re-defined unit is the CODATA decimal of the same set), C03_au_units_consistent (the 19 au_* units "
    "are the right products of e, a0, E_h, hbar, m_e to 1e-8), C03_nist_bridges (to hartree from Hz, 1/m, kg, K, u and from hartree to Hz, 1/m, "
    "kg, K: exactly the published relationship), C03_relationships_reproduced (all 56 relationship constants per set; key always splits), "
    "C03_relationships_consistent_with_physics (each published relationship agrees with h, c, k, e, m_u, E_h of the same set: 2e-8 for 2014, "
    "5e-9 for 2018). Known finding: C03_prefixed_bridge_refuted (MHz -> hartree) and C03_prefixed_bridge_characterised (for every SI prefix, every "
    "single NIST-relationship source unit and EVERY target expression across a one-transformer bridge the factor is exactly prefix^2 times the "
    "unprefixed one), C03_unprefixed_bridge_examples. Tied to the code by the fail-closed translator and by differential execution within 1e-12; "
    "the independent SI oracle judges every answer of the implementation. Wave 2: Model/UnitsText.v reads unit TEXT (C03_text_reader_examples "
    "pins instances; ~7k spellings per quick run are read by the model from the text itself), C03_au_units_consistent tightened to 1e-9. "
    "Wave 3: C03_linear_source_all_paths / C03_linear_target_all_paths (a numeric prefactor scales EVERY conversion: same dimension, every bridge, "
    "every error), C03_unprefixed_nist_source_any_target (an unprefixed NIST unit to every target expression uses the published value exactly once), "
    "C03_published_roundtrip and C03_default_route_roundtrip (a->b then b->a = 1 across the bridges: 4e-8 / 1e-8), and the glue of conversion_factor "
    "(Model/UnitsGlue.v: str / Quantity / Unit arguments, functools.lru_cache with LRU eviction): C03_str_entry_point_is_text_model, "
    "C03_quantity_argument_is_prefactor, C03_cache_transparent (any history of calls with stable keys is answered as without a cache), "
    "C03_cache_transparent_str_history (EVERY history of str calls), C03_cache_stable_same_dimension, and C03_cache_poisoned_refuted (Quantity(1 MHz) "
    "then Quantity(1e6 Hz) -> hartree: the unprefixed request gets the double-scaled cached answer; same root cause as the known finding). "
    "Wave 4: C03_energy_to_per_mole / C03_per_mole_to_energy (energy <-> energy/mol for ALL source and target expressions, prefixed or not: "
    "times resp. divided by the Avogadro constant of the same set), C03_per_mole_roundtrip (exactly 1); C03_text_roundtrip (for ALL expressions "
    "with canonical atoms and non-negative integer numerals, Model/UnitsText.v reads the fully parenthesised text written by render() back to "
    "exactly that expression: tokenizer and parser are left inverses of rendering), C03_text_roundtrip_conv (so conv_text on rendered texts is "
    "conv_ctx on the expressions), C03_text_canonical_atoms (every prefix or none x the 68 self-spelled unit names is canonical); correspondence stream cross-context "
    "(contexts of both sets alive in one process, year-sensitive requests put to the other set's object first, run in a process of its own).")
LEVEL_NOTE = (
    "Clause map (full version at the top of coq/Props/C03.v): same dimension = SI ratio -> C03_same_dimension_is_SI_ratio, C03_parse_is_algebraic, "
    "C03_anchored*, C03_au_units_consistent; diagonal/reciprocal/chain -> C03_diagonal, C03_reciprocal, C03_chain; linear in a prefactor -> "
    "C03_linear_in_*_prefactor and C03_linear_*_all_paths (every path); NIST values to/from hartree -> C03_nist_bridges, C03_relationships_reproduced, "
    "C03_unprefixed_nist_source_any_target; other bridges = physics -> C03_default_route_bridge, C03_bridge_constants_are_physics, "
    "C03_relationships_consistent_with_physics (false for SI-prefixed NIST sources: C03_prefixed_bridge_refuted / _characterised); a->b->a = 1 -> "
    "C03_reciprocal, C03_published_roundtrip, C03_default_route_roundtrip; unrelated dimensions raise -> C03_unrelated_dims_error, "
    "C03_number_only_if_dimension_reached; entry point glue (str/Quantity/Unit, lru_cache) -> C03_cache_* and C03_str_entry_point_is_text_model, with "
    "conversion_factor / ureg / Quantity / Datum.to_units pinned verbatim by the translator; energy<->energy/mol -> C03_energy_to_per_mole, "
    "C03_per_mole_to_energy, C03_per_mole_roundtrip (wave 4); the text reader on rendered expressions -> C03_text_roundtrip, C03_text_roundtrip_conv, "
    "C03_text_canonical_atoms (wave 4); Datum.to_units, the singleton, the lazily built registry, independence of the two "
    "sets' contexts living in one process (stream cross-context, wave 4): correspondence only. The render/parse round trip (wave 4) covers the fully parenthesised spelling with canonical long names and non-negative integer "
    "numerals; symbols, aliases, juxtaposition, unparenthesised precedence and decimal fractions remain pinned examples + ~7k texts per run read "
    "by the model. Unit arguments are identified by ordered container in the cache model (pint: unordered). "
    "The proof content is algebra over the model plus table consistency; the tie carries the weight: pint (parser, alias and prefix resolution, "
    "UnitsContainer, Context graph search, conversion) is external code, modelled by hand in Model/Units.v on expressions that are already "
    "resolved to canonical (prefix, unit) atoms, and tied only by correspondence (about 15k conversions per quick run, 0 tolerance beyond 1e-12 "
    "relative because the model is exact and the implementation binary64). Plain SI/imperial unit factors/dimensions and the prefix table are "
    "trusted data read from the installed pint at translate time. Tolerances: model vs implementation 1e-12; oracle vs implementation 1e-12 for "
    "exact factors and default-route frequency bridges, 1e-9 for frequency/wavenumber/mass bridges through published relationships, 2e-8 (2014) / 1e-9 "
    "(2018) for temperature bridges, 5e-9 with au_* units. A history stream issues colliding spellings in both orders on fresh context objects and "
    "re-issues a shuffled sample at the end (state/caching). Bridge theorems beyond the algebraic laws are finite "
    "(vm_compute over the shipped relationship table) except the characterisation of the known finding, which is universal in the target "
    "expression. Not modelled: offset/logarithmic units, fractional exponents, pint's tokenizer, X->energy->Y chains through two named "
    "transformers are modelled (they raise) but the property does not require them. The compound-source bridge (a NIST unit as one factor of a "
    "product, e.g. kg m^2/s^2 -> Hz raises DimensionalityError) is reproduced by the model and tolerated by the oracle as 'not offered'.")
