"""C09 — exported QCSchema instances conform to the exported schemas; schema translation stable.

translate:   Model.schema() x6 -> Gen/Schemas.v, __fields__ descriptors -> Gen/FieldTypes.v, unit branch of
             to_schema.py (AST) -> Gen/ToSchemaGen.v   (harness/translate/c09_schema.py, fail closed)
correspond:  generated valid instances of the six models: emitted JSON validated by the Gallina validator AND by the
             jsonschema package (differential), instance checked to inhabit its descriptor, modelled emission compared
             with the emitted text; mutated JSON documents (rejection paths, differential); to_schema/from_schema
             index core and unit factor against the model; property oracle on the implementation (jsonschema on the
             emitted JSON, schema round trips v1/v2 x np_out, Molecule(**mol.dict()) == mol with equal hash, Bohr)."""
import copy
import json
from fractions import Fraction

import numpy as np

from .. import coqrun
from ..core import Corr
from ..coqrun import cstr, cn, cq, clist, copt, cbool
from ..translate import c09_schema as tr

PID = "C09"
ALLOWED_AXIOMS = set()
EXTRA_TARGETS = ["Model/C09Check.vo", "Model/SchemaTrans.vo", "Model/GeomInit.vo", "Model/SchemaExtras.vo"]
REQ_INIT = ["QV.Gen.MolGeomInit", "QV.Model.GeomInit"]
REQ_EXTRAS = ["QV.Gen.SchemaExtras", "QV.Model.SchemaExtras"]
REQ = ["QV.Common.Outcome", "QV.Common.JsonS", "QV.Model.QCSchema", "QV.Gen.Schemas", "QV.Gen.FieldTypes",
       "QV.Gen.ToSchemaGen", "QV.Model.SchemaMol", "QV.Model.C09Check"]
REQ_TRANS = ["QV.Common.Outcome", "QV.Model.MolRec", "QV.Gen.ToSchemaGen", "QV.Gen.SchemaKeys", "QV.Model.SchemaTrans"]
BOHR2ANG = (0.52917721067, 0.529177210903)  # CODATA 2014 / 2018, independent of the code under test

_STATE = {"translate_ok": False}


def translate(ctx):
    _STATE["translate_ok"] = False
    # Model/SchemaTrans.v builds on C04's Model/MolRec.v: its generated inputs (Gen/PTable.v, Gen/MolConsts.v) must exist
    # and be current also when C09 is run alone on a fresh tree
    from . import c04
    c04.translate(ctx)
    res = tr.generate(ctx.repo)
    # ndarray fields without a shape-guarding validator, as the translator reads them from the validators' source
    _STATE["unguarded"] = {(m, a) for m, a, g in res["array_fields"] if not g}
    _STATE["array_fields"] = list(res["array_fields"])
    _STATE["translate_ok"] = True


# ------------------------------------------------------------------------------------------------
# building instances from JSON-able recipes

def models():
    import qcelemental.models as qm
    return {m.__name__: m for m in qm.qcschema_models()}


ND = "__nd__"


def nd(dtype, data, shape=None, order="C"):
    """JSON-able description of an ndarray handed to a model: dtype string (numpy syntax, '>' = big-endian, 'O' = object),
    flat data, shape, memory order ('C', 'F' = Fortran-ordered, 'S' = a strided every-other-element view)"""
    return {ND: {"dtype": dtype, "data": list(data), "shape": list(shape) if shape is not None else [len(data)], "order": order}}


def _nd_array(spec):
    a = np.array(spec["data"], dtype=np.dtype(spec["dtype"])).reshape(spec["shape"])
    if spec.get("order") == "F":
        a = np.asfortranarray(a)
    elif spec.get("order") == "S":
        wide = np.zeros(tuple(spec["shape"][:-1]) + (2 * spec["shape"][-1],), dtype=a.dtype)
        wide[..., ::2] = a
        a = wide[..., ::2]
    return a


def nd_specs(x):
    if isinstance(x, dict):
        if set(x) == {ND}:
            yield x[ND]
        else:
            for v in x.values():
                yield from nd_specs(v)
    elif isinstance(x, list):
        for v in x:
            yield from nd_specs(v)


def decode(x):
    """recipe value -> what is handed to the implementation (ndarray descriptions become ndarrays)"""
    if isinstance(x, dict):
        if set(x) == {ND}:
            return _nd_array(x[ND])
        return {k: decode(v) for k, v in x.items()}
    if isinstance(x, list):
        return [decode(v) for v in x]
    return copy.deepcopy(x)


def derive(mol, base, op):
    """one public way of getting a further validated Molecule from a validated one"""
    k = op["op"]
    if k == "scramble":
        out, _ = mol.scramble(do_shift=op.get("shift", False), do_rotate=op.get("rotate", False), do_resort=op.get("resort", False),
                              do_mirror=bool(op.get("mirror", False)), do_test=False, verbose=0)
        return out
    if k == "align":
        out, _ = mol.align(base, atoms_map=bool(op.get("atoms_map", True)), mols_align=bool(op.get("mols_align", True)),
                           run_mirror=bool(op.get("mirror", False)), verbose=0)
        return out
    if k == "orient":
        return mol.orient_molecule()
    if k == "rebuild":
        return type(mol)(**mol.dict())
    if k == "copy":
        return mol.copy()
    if k == "payload":
        # a dictionary that says validated=True, with coordinates that are not multiples of 1e-8
        d = mol.dict()
        d["geometry"] = np.asarray(d["geometry"], dtype=float).reshape(-1) + np.asarray(op["noise"], dtype=float)
        return type(mol)(**d)
    raise ValueError(k)


def build(recipe, probs=None):
    import qcelemental.models as qm
    cls = getattr(qm, recipe["model"])
    if "from_data" in recipe:
        inst = cls.from_data(recipe["from_data"], dtype=recipe.get("dtype", "psi4"))
    else:
        kw = decode(recipe["kwargs"])
        inst = cls(**kw)
        if probs is not None and not _eq(kw, decode(recipe["kwargs"])):
            # the arrays / lists / dictionaries the caller handed over are the caller's
            chg = [k for k, v in decode(recipe["kwargs"]).items() if not _eq(kw.get(k), v)]
            probs.append({"what": f"{recipe['model']}(...) altered the values it was given (keys {chg})",
                          "observed": {k: repr(kw.get(k))[:200] for k in chg[:3]}})
    base = inst
    for op in recipe.get("derive") or []:
        inst = derive(inst, base, op)
    return inst


def emitted(inst):
    return inst.json(exclude_unset=True, exclude_none=True)


def strip_unique_schema(s):
    if isinstance(s, dict):
        return {k: strip_unique_schema(v) for k, v in s.items() if k != "uniqueItems"}
    if isinstance(s, list):
        return [strip_unique_schema(v) for v in s]
    return s


def _drop_key(s, key):
    if isinstance(s, dict):
        return {k: _drop_key(v, key) for k, v in s.items() if k != key or not isinstance(v, str)}
    if isinstance(s, list):
        return [_drop_key(v, key) for v in s]
    return s


_SCHEMAS = {}
_SCHEMA_TEXT = {}
DRAFT4 = "http://json-schema.org/draft-04/schema#"


def schema_of(name):
    """(schema, draft-04 validator, draft-04 validator of the schema without uniqueItems, validator jsonschema picks by itself).
    Five of the six schemas declare draft-04; AtomicResultProperties declares nothing (jsonschema then applies its newest
    dialect, which differs from draft-04 for the keywords in use only by accepting 1.0 as an integer): the differential test
    of the Gallina validator uses draft-04 throughout, the oracle applies both."""
    if name not in _SCHEMAS:
        import jsonschema
        s = models()[name].schema()
        own = jsonschema.validators.validator_for(s)
        import re

        def pattern_ecma(validator, patrn, instance, schema):
            # JSON Schema patterns are ECMA 262: '$' matches at the very end only (Python's also matches before a final newline)
            if validator.is_type(instance, "string") and not re.search(patrn[:-1] + r"\Z" if patrn.endswith("$") else patrn, instance):
                yield jsonschema.ValidationError(f"{instance!r} does not match {patrn!r}")
        d4 = jsonschema.validators.extend(jsonschema.Draft4Validator, validators={"pattern": pattern_ecma})
        # (a nested "$schema" makes jsonschema switch back to its stock class for that subtree: drop the annotation)
        s4 = _drop_key(s, "$schema")
        _SCHEMA_TEXT[name] = json.dumps(s, sort_keys=True)
        _SCHEMAS[name] = (s, d4(s4), d4(strip_unique_schema(s4)), own(s))
    return _SCHEMAS[name]


def err_record(e):
    r = {"validator": e.validator, "schema_path": [str(x) for x in e.absolute_schema_path],
         "path": [str(x) for x in e.absolute_path], "message": e.message[:200]}
    if e.validator == "anyOf" and e.context:
        br = {}
        for c in e.context:
            br.setdefault(str(c.schema_path[0]), []).append(err_record(c))
        r["branches"] = [br[k] for k in sorted(br)]
    return r


def schema_errors(name, doc):
    _, v, _, own = schema_of(name)
    out = [err_record(e) for e in v.iter_errors(doc)]
    if type(own) is not type(v):
        seen = {json.dumps(r, sort_keys=True) for r in out}
        for e in own.iter_errors(doc):
            r = err_record(e)
            if json.dumps(r, sort_keys=True) not in seen:
                out.append(r)
    return out


# ------------------------------------------------------------------------------------------------
# the property oracle on the implementation

def _eq(a, b):
    if isinstance(a, dict) and isinstance(b, dict):
        return a.keys() == b.keys() and all(_eq(a[k], b[k]) for k in a)
    if isinstance(a, np.ndarray) or isinstance(b, np.ndarray):
        try:
            aa, bb = np.asarray(a), np.asarray(b)
            return aa.shape == bb.shape and bool(np.array_equal(aa, bb))
        except Exception:
            return False
    if isinstance(a, (list, tuple)) and isinstance(b, (list, tuple)):
        return len(a) == len(b) and all(_eq(x, y) for x, y in zip(a, b))
    try:
        return bool(a == b)
    except Exception:
        return False


def molecule_oracle(mol, recipe=None):
    """round trips of a validated Molecule; returns (list of (what, observed), index core)."""
    from qcelemental.models import Molecule
    from qcelemental.molparse import from_schema
    bad = []
    if not bool(mol.validated):
        return bad, None  # the round-trip half of the property is about validated molecules (as in C04)
    kw = (recipe or {}).get("kwargs")
    if kw is not None and not (recipe or {}).get("derive"):
        bad += input_kept(decode(kw), mol)
    d = mol.dict()
    m2 = Molecule(**d)
    if not (m2 == mol) or not (mol == d) or m2.get_hash() != mol.get_hash():
        bad.append(("Molecule(**mol.dict()) differs from mol", {"hash": mol.get_hash(), "hash_rebuilt": m2.get_hash(),
                                                                 "geometry": np.asarray(mol.geometry).reshape(-1).tolist()}))
    m5 = Molecule(**mol.dict(encoding="json"))
    if not (m5 == mol) or m5.get_hash() != mol.get_hash():
        bad.append(("Molecule(**mol.dict(encoding='json')) differs from mol", {"hash": mol.get_hash(), "hash_rebuilt": m5.get_hash(),
                                                                                "geometry": np.asarray(mol.geometry).reshape(-1).tolist()}))
    dj = json.loads(emitted(mol))
    m3 = Molecule(**dj)
    if m3.get_hash() != mol.get_hash():
        bad.append(("Molecule(**json.loads(mol.json())) has a different hash", {"hash": mol.get_hash(), "hash_rebuilt": m3.get_hash()}))
    # the same dictionary, re-validated from scratch
    m4 = Molecule(**{k: v for k, v in d.items() if k != "validated"})
    if m4.get_hash() != mol.get_hash():
        chg = [f for f in mol.hash_fields if not _same_field(f, getattr(mol, f), getattr(m4, f))]
        bad.append((f"re-validating mol.dict() gives a different hash (fields {chg})",
                    {"hash": mol.get_hash(), "hash_revalidated": m4.get_hash(), "masses": [mol.masses.tolist(), m4.masses.tolist()]}))
    for f in ("masses", "mass_numbers", "atomic_numbers", "real", "atom_labels"):
        if not _same_field(f, getattr(mol, f), getattr(m4, f)):
            bad.append((f"re-validating mol.dict() changes '{f}'", {"held": repr(getattr(mol, f))[:200], "revalidated": repr(getattr(m4, f))[:200]}))
    # from_schema must read every key of the dictionary: compare with the molrec made from the instance's own fields
    d2 = {k: v for k, v in d.items() if k not in ("validated", "identifiers", "extras", "id")}
    mfs = from_schema(d2)  # a validated molecule must be accepted again (an exception here is reported by the caller)
    m0 = molrec_of_instance(mol)
    core = None
    if m0 is not None:
        for k in sorted(set(m0) | set(mfs)):
            if k == "provenance":
                continue
            if k not in m0 or k not in mfs or not _same_field(k, m0[k], mfs[k]):
                bad.append((f"from_schema(mol.dict()) does not read '{k}' as the molecule holds it",
                            {"molecule": repr(m0.get(k, "<absent>"))[:300], "from_schema": repr(mfs.get(k, "<absent>"))[:300]}))
        more, core = schema_trip(m0, "molrec of the instance")
        bad += more
    return bad, core


def unvalidated_oracle(mol):
    """a Molecule that did not go through the validating constructor (validate=False, or a payload that says validated=True):
    rebuilt from its own dictionary in the same way, it is equal to the original with the same hash"""
    from qcelemental.models import Molecule
    bad = []
    h = mol.get_hash()
    for how, d in (("mol.dict()", mol.dict()), ("mol.dict(encoding='json')", mol.dict(encoding="json")), ("json.loads(mol.json())", json.loads(emitted(mol)))):
        m2 = Molecule(validate=False, **d)
        if m2.get_hash() != h or not (m2 == mol):
            bad.append((f"Molecule(validate=False, **{how}) differs from the unvalidated mol", {"hash": h, "hash_rebuilt": m2.get_hash()}))
        if not _same_field("geometry", np.asarray(m2.geometry, dtype=float).reshape(-1), np.asarray(mol.geometry, dtype=float).reshape(-1)):
            bad.append((f"Molecule(validate=False, **{how}) does not hold the geometry of the unvalidated mol",
                        {"held": np.asarray(mol.geometry).reshape(-1).tolist(), "rebuilt": np.asarray(m2.geometry).reshape(-1).tolist()}))
    return bad


FIELD_MAP = [("symbols", "elem"), ("atomic_numbers", "elez"), ("mass_numbers", "elea"), ("masses", "mass"), ("real", "real"),
             ("atom_labels", "elbl"), ("molecular_charge", "molecular_charge"), ("molecular_multiplicity", "molecular_multiplicity"),
             ("fragment_charges", "fragment_charges"), ("fragment_multiplicities", "fragment_multiplicities"),
             ("fix_com", "fix_com"), ("fix_orientation", "fix_orientation"), ("fix_symmetry", "fix_symmetry"),
             ("connectivity", "connectivity"), ("comment", "comment")]


def _conn(c):
    return None if c is None else sorted((int(a), int(b), float(o)) for a, b, o in c)


def _same_field(key, a, b):
    if key == "connectivity":
        return _conn(a) == _conn(b)
    if a is None or b is None:
        return a is None and b is None
    if key in ("elem", "symbols", "elbl", "atom_labels"):
        return [str(x) for x in np.asarray(a).reshape(-1)] == [str(x) for x in np.asarray(b).reshape(-1)]
    if isinstance(a, (list, tuple, np.ndarray)) or isinstance(b, (list, tuple, np.ndarray)):
        try:
            aa, bb = np.asarray(a), np.asarray(b)
            return aa.shape == bb.shape and bool(np.array_equal(aa, bb))
        except Exception:
            return _eq(a, b)
    return _eq(a, b)


def schema_trip(m0, tag):
    """to_schema / from_schema on a molrec m0 (from from_arrays or from_string, i.e. NOT produced by from_schema):
    every field the schema carries is compared with the molrec, the molrec read back is compared key by key, the second
    translation must reproduce the first, and re-validating the exported dictionary must not change the hash."""
    from qcelemental.models import Molecule
    from qcelemental.molparse import from_schema, to_schema
    from qcelemental.exceptions import ValidationError
    bad = []
    nat = len(m0["elem"])
    g0 = np.asarray(m0["geom"], dtype=float).reshape(-1)
    if m0["units"] == "Bohr":
        want_g = [g0]
    else:
        want_g = [g0 * m0["input_units_to_au"]] if "input_units_to_au" in m0 else [g0 / b for b in BOHR2ANG]
    seps = [int(x) for x in m0["fragment_separators"]]
    bounds = [0] + seps + [nat]
    idx = list(range(nat))
    want_frags = [idx[bounds[i]:bounds[i + 1]] for i in range(len(bounds) - 1)]    # numpy splits by slicing (negative separators count from the end)
    hashes = set()
    core = None
    for v in (1, 2):
        for np_out in (True, False):
            what = f"{tag}: to_schema(m, {v}, np_out={np_out})"
            s = to_schema(m0, dtype=v, np_out=np_out)
            ms = s["molecule"] if v == 1 else s
            if v == 1 and (s.get("schema_name"), s.get("schema_version")) != ("qcschema_input", 1):
                bad.append((what + " has the wrong schema_name/schema_version", [s.get("schema_name"), s.get("schema_version")]))
            if v == 2 and (s.get("schema_name"), s.get("schema_version")) != ("qcschema_molecule", 2):
                bad.append((what + " has the wrong schema_name/schema_version", [s.get("schema_name"), s.get("schema_version")]))
            for sk, mk in FIELD_MAP:
                if mk not in m0 and sk not in ms:
                    continue
                if not _same_field(mk, m0.get(mk), ms.get(sk)):
                    bad.append((what + f" exports '{sk}' different from the molrec's '{mk}'",
                                {"molrec": repr(m0.get(mk))[:300], "schema": repr(ms.get(sk))[:300]}))
            g = np.asarray(ms["geometry"], dtype=float).reshape(-1)
            if m0["units"] == "Bohr" or "input_units_to_au" in m0:
                okg = bool(np.array_equal(g, want_g[0]))
            else:
                okg = any(np.allclose(g, w, rtol=1e-8, atol=1e-10) for w in want_g)
            if not okg:
                bad.append((what + " geometry is not the molrec geometry in Bohr", {"exported": g.tolist(), "bohr": want_g[0].tolist()}))
            frs = [[int(i) for i in f] for f in ms["fragments"]]
            if frs != want_frags:
                bad.append((what + " fragments do not follow the separators", {"fragments": frs, "expected": want_frags}))
            if not np_out:
                try:
                    json.dumps(s)
                except TypeError as e:
                    bad.append((what + " is not JSON-able", str(e)))
            m1 = from_schema(s)
            for k in sorted(set(m0) | set(m1)):
                if k in ("provenance", "units", "geom", "input_units_to_au"):
                    continue
                if k == "name" and k not in m0:
                    continue   # to_schema names an unnamed molecule by its formula (documented)
                if k not in m1 or k not in m0 or not _same_field(k, m0[k], m1[k]):
                    bad.append((f"{tag}: from_schema(to_schema(m, {v}, np_out={np_out})) changed '{k}'",
                                {"before": repr(m0.get(k, "<absent>"))[:300], "after": repr(m1.get(k, "<absent>"))[:300]}))
            if m1.get("units") != "Bohr" or not np.array_equal(np.asarray(m1["geom"], dtype=float).reshape(-1), g):
                bad.append((f"{tag}: from_schema(to_schema(m, {v}, np_out={np_out})) is not the exported Bohr geometry", None))
            s2 = to_schema(m1, dtype=v, np_out=np_out)
            ms2 = s2["molecule"] if v == 1 else s2
            diff = [k for k in sorted(set(ms) | set(ms2)) if k != "provenance" and
                    not (k in ms and k in ms2 and (_same_field(k, ms[k], ms2[k]) if k != "fragments" else _eq(ms[k], ms2[k])))]
            if diff:
                bad.append((f"{tag}: a second translation to_schema(from_schema(to_schema(m, {v}, np_out={np_out}))) changed {diff}",
                            {k: [repr(ms.get(k))[:150], repr(ms2.get(k))[:150]] for k in diff[:4]}))
            try:
                to_schema(m0, dtype=v, units="Angstrom", np_out=np_out)
                bad.append((f"{tag}: to_schema(dtype={v}, units='Angstrom') did not refuse", None))
            except ValidationError:
                pass
            # the exported dictionary taken as is, and re-validated
            as_is = Molecule(**{**ms, "validated": True})
            redo = Molecule(**{k: x for k, x in ms.items() if k != "validated"})
            hashes.add(as_is.get_hash())
            if redo.get_hash() != as_is.get_hash():
                chg = [f for f in as_is.hash_fields if not _same_field(f, getattr(as_is, f), getattr(redo, f))]
                bad.append((f"{tag}: re-validating the dictionary exported by to_schema(m, {v}, np_out={np_out}) changes the hash "
                            f"(fields {chg})", {"hash": as_is.get_hash(), "hash_revalidated": redo.get_hash(),
                                                "masses": [as_is.masses.tolist(), redo.masses.tolist()]}))
            for f in ("masses", "mass_numbers", "atomic_numbers", "real", "atom_labels"):
                if not _same_field(f, getattr(as_is, f), getattr(redo, f)):
                    bad.append((f"{tag}: re-validating the dictionary exported by to_schema(m, {v}, np_out={np_out}) changes '{f}'",
                                {"exported": repr(getattr(as_is, f))[:200], "revalidated": repr(getattr(redo, f))[:200]}))
            core = (nat, seps, frs, [int(x) for x in m1["fragment_separators"]])
    if len(hashes) > 1:
        bad.append((f"{tag}: schema versions / np_out settings export molecules with different hashes", sorted(hashes)))
    # deduplicate (the same defect shows under four settings)
    out, seen = [], set()
    for w, o in bad:
        key = w.split(": ", 1)[-1].split("(m, ")[0] + w.split(")")[-1]
        if key not in seen:
            seen.add(key)
            out.append((w, o))
    return out, core


def molrec_of_instance(mol):
    """the molrec of a validated Molecule built WITHOUT from_schema (from_arrays on the instance's own fields)"""
    from qcelemental.molparse import from_arrays
    nat = len(mol.symbols)
    frs = [[int(i) for i in f] for f in mol.fragments]
    if [i for f in frs for i in f] != list(range(nat)):
        return None
    seps = list(np.cumsum([len(f) for f in frs])[:-1])
    return from_arrays(geom=np.asarray(mol.geometry, dtype=float).reshape(-1), elea=np.asarray(mol.mass_numbers), elez=np.asarray(mol.atomic_numbers),
                       elem=[str(x) for x in mol.symbols], mass=np.asarray(mol.masses, dtype=float), real=np.asarray(mol.real),
                       elbl=[str(x) for x in mol.atom_labels], name=mol.name, units="Bohr", fix_com=mol.fix_com,
                       fix_orientation=mol.fix_orientation, fix_symmetry=mol.fix_symmetry, fragment_separators=seps,
                       fragment_charges=list(mol.fragment_charges), fragment_multiplicities=list(mol.fragment_multiplicities),
                       molecular_charge=mol.molecular_charge, molecular_multiplicity=mol.molecular_multiplicity, comment=mol.comment,
                       connectivity=mol.connectivity, speclabel=False, verbose=0)


def input_kept(kw, mol):
    """what the caller supplied to the validating constructor is what the instance holds"""
    bad = []
    if kw.get("orient"):
        return bad
    nat = len(kw["symbols"])
    chk = [("masses", lambda: np.asarray(mol.masses, dtype=float), lambda v: np.asarray(v, dtype=float)),
           ("mass_numbers", lambda: np.asarray(mol.mass_numbers), lambda v: np.asarray(v)),
           ("real", lambda: np.asarray(mol.real), lambda v: np.asarray(v)),
           ("atom_labels", lambda: [str(x) for x in mol.atom_labels], lambda v: [str(x) for x in v]),
           ("fragments", lambda: [[int(i) for i in f] for f in mol.fragments], lambda v: [[int(i) for i in f] for f in v]),
           ("connectivity", lambda: _conn(mol.connectivity), lambda v: _conn([(min(a, b), max(a, b), o) for a, b, o in v])),
           ("fragment_charges", lambda: [float(x) for x in mol.fragment_charges], lambda v: [float(x) for x in v]),
           ("fragment_multiplicities", lambda: [int(x) for x in mol.fragment_multiplicities], lambda v: [int(x) for x in v]),
           ("molecular_charge", lambda: float(mol.molecular_charge), float),
           ("molecular_multiplicity", lambda: int(mol.molecular_multiplicity), int),
           ("fix_com", lambda: bool(mol.fix_com), bool), ("fix_orientation", lambda: bool(mol.fix_orientation), bool),
           ("fix_symmetry", lambda: mol.fix_symmetry, lambda v: v), ("name", lambda: mol.name, lambda v: v),
           ("comment", lambda: mol.comment, lambda v: v)]
    for key, got, norm in chk:
        if kw.get(key) is None:
            continue
        g, w = got(), norm(kw[key])
        if key == "mass_numbers":     # -1 means "not specified": only the specified isotopes must be kept
            keep = w != -1
            g, w = np.asarray(g)[keep], w[keep]
        same = bool(np.array_equal(g, w)) if isinstance(w, np.ndarray) else g == w
        if not same:
            bad.append((f"Molecule(...) does not hold the '{key}' it was given", {"given": repr(kw[key])[:300], "held": repr(g)[:300]}))
    if [str(x) for x in mol.symbols] != [str(x).title() for x in kw["symbols"]]:
        bad.append(("Molecule(...) does not hold the symbols it was given", [str(x) for x in mol.symbols]))
    if not np.allclose(np.asarray(mol.geometry, dtype=float).reshape(-1), np.asarray(kw["geometry"], dtype=float).reshape(-1), rtol=0, atol=6e-9):
        bad.append(("Molecule(...) does not hold the geometry it was given (beyond the 8-decimal rounding)", None))
    return bad


def angstrom_oracle(text, coords_ang):
    """A psi4-format string in Angstrom: molrec units Angstrom -> exported geometry must be Bohr."""
    from qcelemental.molparse import from_string, from_schema, to_schema
    from qcelemental.models import Molecule
    bad = []
    m0 = from_string(text, dtype="psi4")["qm"]
    if m0["units"] != "Angstrom":
        bad.append(("from_string did not keep units Angstrom", m0["units"]))
        return bad
    want = [np.asarray(coords_ang, dtype=float).reshape(-1) / b for b in BOHR2ANG]
    bad += schema_trip(m0, "molrec from_string (Angstrom)")[0]
    for v in (1, 2):
        s = to_schema(m0, dtype=v)
        ms = s["molecule"] if v == 1 else s
        g = np.asarray(ms["geometry"], dtype=float).reshape(-1)
        if not any(np.allclose(g, w, rtol=1e-8, atol=1e-10) for w in want):
            bad.append((f"to_schema(dtype={v}) of an Angstrom molrec is not in Bohr", {"exported": g.tolist(), "bohr": want[0].tolist()}))
        m1 = from_schema(s)
        if m1["units"] != "Bohr" or not np.allclose(np.asarray(m1["geom"]).reshape(-1), g, rtol=0, atol=0):
            bad.append((f"from_schema(to_schema(Angstrom molrec, {v})) is not the exported Bohr geometry", None))
        s2 = to_schema(m1, dtype=v)
        if not _eq(s2 if v == 2 else s2["molecule"], {k: x for k, x in ms.items()}):
            diff = [k for k in ms if not _eq(ms[k], (s2 if v == 2 else s2["molecule"]).get(k))]
            if diff != ["provenance"] and diff:
                bad.append((f"to_schema(from_schema(to_schema(m, {v}))) differs from to_schema(m, {v})", diff))
    mol = Molecule.from_data(text, dtype="psi4")
    g = np.asarray(mol.geometry, dtype=float).reshape(-1)
    if not any(np.allclose(g, w, rtol=1e-8, atol=1e-7) for w in want):
        bad.append(("Molecule.from_data(Angstrom text).geometry is not in Bohr", {"geometry": g.tolist(), "bohr": want[0].tolist()}))
    return bad


def oracle(recipe):
    """Everything the property says about one instance. Returns (problems, info).
    (the implementation prints diagnostics while it validates; they are not part of the observation)"""
    import contextlib
    import io
    with contextlib.redirect_stdout(io.StringIO()):
        return _oracle(recipe)


class Refused(Exception):
    """the implementation did not accept the generated input: not an instance"""


def _oracle(recipe):
    probs = []
    try:
        inst = build(recipe, probs)
    except Exception as e:
        raise Refused(f"{type(e).__name__}: {e}") from e
    name = recipe["model"]
    text = emitted(inst)
    doc = json.loads(text)
    errs = schema_errors(name, doc)
    if errs:
        probs.append({"what": f"JSON emitted for a valid {name} fails {name}.schema(): " +
                              "; ".join(f"{e['validator']} at /{'/'.join(e['schema_path'])}" for e in errs[:4]),
                      "observed": {"errors": errs, "emitted": text[:1500]}})
    info = {"inst": inst, "text": text, "doc": doc, "errors": errs, "core": None}
    if name == "Molecule":
        try:
            bad, core = [], None
            if (recipe.get("kwargs") or {}).get("validate") is not False and bool(inst.validated):   # went through the validating constructor
                bad, core = molecule_oracle(inst, recipe)
            else:
                bad = unvalidated_oracle(inst)
            info["core"] = core
            if "from_data" in recipe and recipe.get("angstrom_coords") is not None:
                bad = bad + angstrom_oracle(recipe["from_data"], recipe["angstrom_coords"])
        except Exception as e:
            bad = [(f"round trip of a validated molecule raised {type(e).__name__}: {e}"[:300], None)]
        for what, obs in bad:
            probs.append({"what": what, "observed": obs})
    return probs, info


# ------------------------------------------------------------------------------------------------
# generators (recipes are JSON-able so that they can be replayed)

ELEMS = ["H", "He", "Li", "C", "N", "O", "F", "Ne", "Na", "Cl", "Ar", "Fe", "Br", "Xe"]


def rfloat(rng, lo=-4.0, hi=4.0):
    return rng.choice([round(rng.uniform(lo, hi), rng.choice([0, 1, 3, 6])), rng.uniform(lo, hi), float(rng.randint(-3, 3)), 0.5 * rng.randint(-8, 8)])


def rword(rng, n=6):
    return "".join(rng.choice("abcdefghijklmnopqrstuvwxyz_-0123456789 ") for _ in range(rng.randint(1, n))).strip() or "x"


def rany(rng, depth=0):
    k = rng.randint(0, 9 if depth < 2 else 6)
    if k == 0:
        return None
    if k == 1:
        return rng.random() < 0.5
    if k == 2:
        return rng.randint(-5, 50)
    if k == 3:
        return rfloat(rng)
    if k in (4, 5, 6):
        return rword(rng)
    if k == 7:
        return [rany(rng, depth + 1) for _ in range(rng.randint(0, 3))]
    return {rword(rng, 4): rany(rng, depth + 1) for _ in range(rng.randint(0, 3))}


def rdict(rng, p=0.5):
    if rng.random() > p:
        return {}
    return {rword(rng, 5): rany(rng) for _ in range(rng.randint(1, 3))}


def grid_points(rng, n):
    """distinct points at least 0.9 apart (the validator refuses atoms closer than 0.1 Bohr)"""
    pts = set()
    while len(pts) < n:
        pts.add((rng.randint(-3, 3), rng.randint(-3, 3), rng.randint(-3, 3)))
    pts = list(pts)
    rng.shuffle(pts)
    jit = lambda: rng.choice([0.0, 0.0, 0.25, -0.125, round(rng.uniform(-0.2, 0.2), 4), rng.uniform(-0.2, 0.2)])
    return [[1.5 * x + jit(), 1.5 * y + jit(), 1.5 * z + jit()] for x, y, z in pts]


AVG_WEIGHT = {"H": 1.008, "He": 4.0026, "Li": 6.94, "C": 12.011, "N": 14.007, "O": 15.999, "F": 18.998, "Ne": 20.180, "Na": 22.990,
              "Cl": 35.45, "Ar": 39.948, "Fe": 55.845, "Br": 79.904, "Xe": 131.29}
ISOTOPES = {"H": [2, 3], "He": [3], "Li": [6], "C": [13, 14], "N": [15], "O": [17, 18], "Cl": [37], "Ne": [22], "Fe": [54, 57], "Br": [81]}


def pick_mass(rng, sym):
    """a user mass for one atom: tabulated isotope mass, average atomic weight, rounded / slightly perturbed isotope
    masses inside and outside the 1e-3 tolerance within which a mass identifies its nuclide"""
    from qcelemental import periodictable
    sym = sym.title()
    m0 = float(periodictable.to_mass(sym))
    k = rng.randint(0, 6)
    if k == 0:
        return m0
    if k == 1:
        return AVG_WEIGHT[sym]
    if k == 2:
        return round(m0, 3)
    if k == 3:
        return m0 + rng.choice([4e-4, -4e-4, 9e-4])
    if k == 4:
        return m0 + rng.choice([3e-3, -2e-3, 0.0105])
    if k == 5 and sym in ISOTOPES:
        return round(float(periodictable.to_mass(f"{sym}{rng.choice(ISOTOPES[sym])}")), rng.choice([4, 6, 12]))
    return round(m0 * rng.choice([1.0005, 0.9995]), 6)


# open-shell atoms and the multiplicities they can carry as neutral one-atom fragments (charge -> multiplicities for ions below)
OPEN_SHELL = {"H": [2], "Li": [2], "N": [4, 2], "O": [3, 1], "F": [2], "Na": [2], "Cl": [2], "C": [3, 1], "Br": [2]}
IU_BASE = 1.0 / 0.52917721067
IU_SPREAD = [0.0, 1e-9, -1e-9, 0.005, -0.005, 0.019, -0.019, 0.021, -0.021, 0.026, -0.026, 0.012, -0.0234]


def pick_iutau(rng):
    """input_units_to_au for an Angstrom record, spread over the whole window from_arrays accepts (|x - 1/bohr2angstroms| < 0.05)"""
    return IU_BASE * (1.0 + rng.choice(IU_SPREAD))


def open_shell_fragments(rng, nmax=3):
    """one-atom open-shell fragments with their own multiplicities (and sometimes charges) and a total multiplicity that is
    NOT necessarily the high-spin one: low-spin and intermediate couplings, ionic pairs with zero or non-zero total charge.
    Returns (symbols, fragment sizes, fragment charges, fragment multiplicities, total charge, total multiplicity)."""
    nfr = rng.randint(2, nmax)
    syms, fchg, fmult = [], [], []
    for _ in range(nfr):
        el = rng.choice(sorted(OPEN_SHELL))
        q = 0
        m = rng.choice(OPEN_SHELL[el])
        r = rng.random()
        if r < 0.15 and el in ("Li", "Na"):
            q, m = 1, 1            # closed-shell cation
        elif r < 0.3 and el in ("F", "Cl", "Br"):
            q, m = -1, 1           # closed-shell anion
        elif r < 0.2 and el == "O":
            q, m = rng.choice([(1, 4), (1, 2), (-1, 2)])
        syms.append(el)
        fchg.append(q)
        fmult.append(m)
    hi = sum(m - 1 for m in fmult) + 1
    feasible = list(range(hi, 0, -2))            # same parity as high spin, down to 1 or 2
    tot = rng.choice(feasible + feasible[-1:] * 2 + feasible[1:2])      # favour low-spin / intermediate
    return syms, fchg, fmult, sum(fchg), tot


def gen_molecule_open_shell(rng):
    syms, fchg, fmult, chg, mult = open_shell_fragments(rng)
    nat = len(syms)
    geom = [[0.0, 0.0, 6.0 * i + rng.choice([0.0, 0.25, -0.5])] for i in range(nat)]
    kw = {"symbols": syms, "geometry": [c for p_ in geom for c in p_], "fragments": [[i] for i in range(nat)],
          "fragment_multiplicities": fmult, "molecular_multiplicity": mult}
    if any(fchg) or rng.random() < 0.5:
        kw["fragment_charges"] = [float(q) for q in fchg]
        kw["molecular_charge"] = float(chg)
    if rng.random() < 0.3:
        kw["name"] = rword(rng, 6)
    return kw


def gen_molecule_kwargs(rng, nmax=6):
    if nmax >= 3 and rng.random() < 0.15:
        return gen_molecule_open_shell(rng)
    nat = rng.randint(1, nmax)
    syms = [rng.choice(ELEMS) for _ in range(nat)]
    if rng.random() < 0.2:
        syms = [s.lower() if rng.random() < 0.5 else s.upper() for s in syms]
    geom = grid_points(rng, nat)
    kw = {"symbols": syms, "geometry": [c for p in geom for c in p] if rng.random() < 0.7 else geom}
    if rng.random() < 0.4:
        kw["name"] = rword(rng, 8)
    if rng.random() < 0.3:
        kw["comment"] = rword(rng, 12)
    if rng.random() < 0.35:
        kw["real"] = [rng.random() < 0.7 for _ in range(nat)]
    if rng.random() < 0.25:
        kw["atom_labels"] = [rng.choice(["", "a", "1", "x2"]) for _ in range(nat)]
    r = rng.random()
    if r < 0.35:
        kw["masses"] = [pick_mass(rng, s) for s in syms]          # also for ghost atoms
    elif r < 0.5:
        kw["mass_numbers"] = [rng.choice(ISOTOPES.get(s.title(), [-1]) + [-1]) for s in syms]
        if all(a == -1 for a in kw["mass_numbers"]):
            kw.pop("mass_numbers")
    if nat >= 2 and rng.random() < 0.45:
        nfr = rng.randint(2, min(nat, 4))
        cuts = sorted(rng.sample(range(1, nat), nfr - 1))
        bounds = [0] + cuts + [nat]
        kw["fragments"] = [list(range(bounds[i], bounds[i + 1])) for i in range(nfr)]
        if rng.random() < 0.3:
            kw["fragment_charges"] = [0.0] * nfr
    if nat >= 2 and rng.random() < 0.4:
        bonds = set()
        for _ in range(rng.randint(1, 4)):
            a, b = rng.sample(range(nat), 2)
            bonds.add((min(a, b), max(a, b)))
        kw["connectivity"] = [[a, b, rng.choice([1, 2, 1.5, 3, 0.5, 5, 0, 2.25])] for a, b in sorted(bonds)]
    if rng.random() < 0.25:
        kw["molecular_charge"] = rng.choice([0, 0.0, 1, -1, 2.0])
    if rng.random() < 0.15:
        kw["molecular_multiplicity"] = rng.choice([1, 2, 3])
    if rng.random() < 0.2:
        kw["fix_com"] = rng.random() < 0.5
    if rng.random() < 0.2:
        kw["fix_orientation"] = rng.random() < 0.5
    if rng.random() < 0.1:
        kw["fix_symmetry"] = rng.choice(["c1", "cs", "c2v"])
    if rng.random() < 0.2:
        kw["identifiers"] = {k: rword(rng, 10) for k in rng.sample(
            ["molecule_hash", "molecular_formula", "smiles", "inchi", "inchikey", "canonical_smiles", "pubchem_cid"], rng.randint(1, 3))}
    if rng.random() < 0.25:
        kw["extras"] = rdict(rng, 1.0)
    if rng.random() < 0.15:
        kw["provenance"] = gen_provenance_kwargs(rng)
    if rng.random() < 0.1:
        kw["id"] = rng.choice([rng.randint(1, 999), rword(rng, 6)])
    if rng.random() < 0.1:
        kw["orient"] = True
    if rng.random() < 0.15:
        kw["geometry_noise"] = rng.choice([8, 9, 10, 11, 12, 13, 13])      # a finer (public) coordinate truncation
    if rng.random() < 0.08:
        # far from the origin
        off = [rng.choice([0.0, 1.0e3, -2.5e4, 1.0e5, rng.uniform(-1e4, 1e4)]) for _ in range(3)]
        flat = [c for p_ in kw["geometry"] for c in p_] if isinstance(kw["geometry"][0], list) else list(kw["geometry"])
        kw["geometry"] = [c + off[i % 3] for i, c in enumerate(flat)]
    return kw


def rot_matrix(rng):
    """a proper rotation matrix from a random unit quaternion (or a plain rotation about z)"""
    import math
    if rng.random() < 0.3:
        th = rng.choice([0.3, math.pi / 2, rng.uniform(-3, 3)])
        return [[math.cos(th), -math.sin(th), 0.0], [math.sin(th), math.cos(th), 0.0], [0.0, 0.0, 1.0]]
    q = [rng.gauss(0, 1) for _ in range(4)]
    n = math.sqrt(sum(x * x for x in q)) or 1.0
    w, x, y, z = (c / n for c in q)
    return [[1 - 2 * (y * y + z * z), 2 * (x * y - z * w), 2 * (x * z + y * w)],
            [2 * (x * y + z * w), 1 - 2 * (x * x + z * z), 2 * (y * z - x * w)],
            [2 * (x * z - y * w), 2 * (y * z + x * w), 1 - 2 * (x * x + y * y)]]


def gen_derive(rng, nat, single_fragment):
    """public calls that hand back a further validated Molecule (scramble/align build theirs with a finer coordinate truncation),
    all with explicit, reproducible arguments"""
    ops = []
    sc = {"op": "scramble"}
    r = rng.random()
    if r < 0.75:
        sc["shift"] = [rng.choice([rng.uniform(-3, 3), round(rng.uniform(-3, 3), rng.choice([2, 9, 11, 13])), 0.3141592653589]) for _ in range(3)]
    if rng.random() < 0.5 or "shift" not in sc:
        sc["rotate"] = rot_matrix(rng)
    if single_fragment and nat > 1 and rng.random() < 0.3:
        perm = list(range(nat))
        rng.shuffle(perm)
        sc["resort"] = perm
    if rng.random() < 0.1:
        sc["mirror"] = True
    ops.append(sc)
    r = rng.random()
    if r < 0.35:
        # (run_mirror / atoms_map=False need the optional networkx, which is not installed here)
        ops.append({"op": "align", "atoms_map": True, "mols_align": "resort" not in sc and not sc.get("mirror"), "mirror": False})
    elif r < 0.45:
        ops.append({"op": "rebuild"})
    elif r < 0.55:
        ops.append({"op": "copy"})
    elif r < 0.62:
        ops.append({"op": "orient"})
    return ops


def gen_molecule_unvalidated(rng):
    """validate=False: only the pydantic layer runs; non-contiguous fragments, arbitrary charges etc. are accepted"""
    nat = rng.randint(1, 5)
    kw = {"validate": False, "symbols": [rng.choice(ELEMS) for _ in range(nat)],
          "geometry": [c for p in grid_points(rng, nat) for c in p]}
    if rng.random() < 0.5:
        perm = list(range(nat))
        rng.shuffle(perm)
        k = rng.randint(1, nat)
        cuts = sorted(rng.sample(range(1, nat), k - 1)) if nat > 1 else []
        b = [0] + cuts + [nat]
        kw["fragments"] = [perm[b[i]:b[i + 1]] for i in range(len(b) - 1)]
        kw["fragment_charges"] = [float(rng.randint(-1, 1)) for _ in kw["fragments"]]
        kw["fragment_multiplicities"] = [rng.randint(1, 3) for _ in kw["fragments"]]
    if rng.random() < 0.4:
        kw["masses"] = [round(rng.uniform(1, 100), 3) for _ in range(nat)]
    if rng.random() < 0.4:
        kw["real"] = [rng.random() < 0.5 for _ in range(nat)]
    if rng.random() < 0.3:
        kw["atomic_numbers"] = [rng.randint(0, 90) for _ in range(nat)]
        kw["mass_numbers"] = [rng.choice([-1, rng.randint(1, 200)]) for _ in range(nat)]
    if rng.random() < 0.3:
        kw["atom_labels"] = [rword(rng, 3) for _ in range(nat)]
    if rng.random() < 0.3:
        kw["molecular_charge"] = rng.choice([0.5, -1.0, 2, 0.25])
        kw["molecular_multiplicity"] = rng.randint(1, 4)
    if rng.random() < 0.3:
        kw["connectivity"] = [[rng.randint(0, 9), rng.randint(0, 9), rng.choice([0, 1, 2.5, 5])] for _ in range(rng.randint(1, 3))]
    if rng.random() < 0.3:
        kw["extras"] = rdict(rng, 1.0)
    if rng.random() < 0.2:
        kw["validated"] = False
    if rng.random() < 0.3:
        kw["geometry"] = [c + rng.uniform(-1e-3, 1e-3) for c in kw["geometry"]]      # coordinates that are not multiples of 1e-8
    return kw


def gen_molecule_text(rng):
    """psi4-format text, Angstrom or Bohr, fragments, ghosts, labels, charge/multiplicity lines"""
    nat = rng.randint(1, 5)
    pts = grid_points(rng, nat)
    ang = rng.random() < 0.7
    lines, coords = [], []
    nfr = rng.randint(1, min(nat, 3))
    cuts = sorted(rng.sample(range(1, nat), nfr - 1)) if nat > 1 else []
    for i, p in enumerate(pts):
        if i in cuts:
            lines.append("--")
        el = rng.choice(["H", "He", "C", "N", "O", "Ne", "Ar"])
        lab = el + rng.choice(["", "", "1", "_a"])
        r = rng.random()
        if r < 0.15 and el in ISOTOPES:
            lab = str(rng.choice(ISOTOPES[el])) + lab
        elif r < 0.45:
            lab = lab + "@" + repr(pick_mass(rng, el))
        if rng.random() < 0.2:
            lab = "@" + lab if rng.random() < 0.5 else f"Gh({lab})"      # a ghost may carry a mass: Gh(He@4.0026)
        p = [round(c, 6) for c in p]
        coords.append(p)
        lines.append(f"{lab} {p[0]!r} {p[1]!r} {p[2]!r}")
    lines.append("units " + ("angstrom" if ang else "bohr"))
    if rng.random() < 0.3:
        lines.append("no_com")
    if rng.random() < 0.3:
        lines.append("no_reorient")
    return "\n".join(lines), (coords if ang else None)


def gen_molrec_open_shell(rng):
    syms, fchg, fmult, chg, mult = open_shell_fragments(rng)
    nat = len(syms)
    kw = {"elem": syms, "geom": [c for i in range(nat) for c in (0.0, 0.0, 6.0 * i + rng.choice([0.0, 0.25, -0.5]))],
          "units": rng.choice(["Bohr", "Bohr", "Angstrom"]), "fragment_separators": list(range(1, nat)),
          "fragment_multiplicities": fmult, "molecular_multiplicity": mult}
    if kw["units"] == "Angstrom" and rng.random() < 0.5:
        kw["input_units_to_au"] = pick_iutau(rng)
    if any(fchg) or rng.random() < 0.5:
        kw["fragment_charges"] = [float(q) for q in fchg]
        kw["molecular_charge"] = float(chg)
    return kw


def gen_molrec_arrays(rng):
    """keyword arguments of molparse.from_arrays: a molrec that does not come from from_schema"""
    if rng.random() < 0.2:
        return gen_molrec_open_shell(rng)
    nat = rng.randint(1, 5)
    syms = [rng.choice(ELEMS) for _ in range(nat)]
    kw = {"elem": syms, "geom": [c for p in grid_points(rng, nat) for c in p], "units": rng.choice(["Bohr", "Bohr", "Angstrom"])}
    if kw["units"] == "Angstrom" and rng.random() < 0.6:
        kw["input_units_to_au"] = pick_iutau(rng)
    r = rng.random()
    if r < 0.6:
        kw["mass"] = [pick_mass(rng, s) for s in syms]
    elif r < 0.8:
        kw["elea"] = [rng.choice(ISOTOPES.get(s, [None]) + [None]) for s in syms]
    if rng.random() < 0.4:
        kw["real"] = [rng.random() < 0.6 for _ in range(nat)]
    if rng.random() < 0.3:
        kw["elbl"] = [rng.choice(["", "a", "1", "_x"]) for _ in range(nat)]
    if nat >= 2 and rng.random() < 0.5:
        kw["fragment_separators"] = sorted(rng.sample(range(1, nat), rng.randint(1, min(nat - 1, 3))))
    if nat >= 2 and rng.random() < 0.4:
        bonds = {tuple(sorted(rng.sample(range(nat), 2))) for _ in range(rng.randint(1, 3))}
        kw["connectivity"] = [[a, b, rng.choice([1, 2, 1.5, 0.5])] for a, b in sorted(bonds)]
    if rng.random() < 0.2:
        kw["molecular_charge"] = rng.choice([0, 1, -1, 2])
    for k in ("fix_com", "fix_orientation"):
        if rng.random() < 0.3:
            kw[k] = rng.random() < 0.5
    if rng.random() < 0.15:
        kw["fix_symmetry"] = rng.choice(["c1", "cs"])
    if rng.random() < 0.2:
        kw["name"] = rword(rng, 6)
    if rng.random() < 0.2:
        kw["comment"] = rword(rng, 10)
    return kw


def molrec_oracle(arrays):
    import contextlib
    import io
    from qcelemental.molparse import from_arrays
    with contextlib.redirect_stdout(io.StringIO()):
        try:
            m0 = from_arrays(speclabel=False, verbose=0, **copy.deepcopy(arrays))
        except Exception as e:
            raise Refused(f"{type(e).__name__}: {e}") from e
        try:
            bad, core = schema_trip(m0, "molrec from_arrays")
        except Exception as e:
            bad, core = [(f"round trip of a molrec accepted by from_arrays raised {type(e).__name__}: {e}"[:300], None)], None
    return [{"what": w, "observed": o} for w, o in bad], core


def gen_exports(rng):
    """a sequence of exports (dtype, np_out, copy) from one live record"""
    n = rng.randint(2, 5)
    seq = [[rng.choice([1, 2, 2, "psi4"]), rng.random() < 0.5, rng.random() < 0.5] for _ in range(n)]
    if rng.random() < 0.5:
        seq[rng.randrange(n - 1)][2] = False         # at least one copy=False export that is not the last
    for e in seq:
        if rng.random() < 0.35:
            e[2] = None                              # copy= not given: the signature default (documented: a copy)
        if e[2] is not False and rng.random() < 0.4:
            e.append("edit")                         # the caller edits the arrays of the dictionary it was handed (its own copy)
    return seq


def list_form_exports(exports):
    """a record held as plain lists cannot be exported with an explicit copy=False (NumPy 2 refuses np.array(list, copy=False)):
    that is the caller's request, not a defect - such exports ask for the default instead"""
    return [[e[0], e[1], None if e[2] is False else e[2]] + list(e[3:]) for e in exports]


def edit_exported(d):
    """what a caller may do with a dictionary it owns: overwrite every array / list of numbers in place"""
    for k, v in list(d.items()):
        if isinstance(v, dict) and k == "molecule":
            edit_exported(v)
        elif isinstance(v, np.ndarray) and v.size:
            if v.dtype.kind == "f":
                v[...] = 99.0
            elif v.dtype.kind in "iu":
                v[...] = 7
            elif v.dtype.kind == "b":
                v[...] = ~v
            elif v.dtype.kind == "U":
                v[...] = "Q"
        elif isinstance(v, list) and v and k in ("geom", "geometry", "mass", "masses", "elez", "atomic_numbers", "real", "fragment_charges",
                                                  "fragment_multiplicities", "fragment_separators"):
            for j in range(len(v)):
                v[j] = 7


def _expected_bohr(m_ref, arrays):
    g0 = np.asarray(m_ref["geom"], dtype=float).reshape(-1)
    if m_ref["units"] == "Bohr":
        return [g0], True
    if "input_units_to_au" in m_ref:
        return [g0 * m_ref["input_units_to_au"]], True
    return [g0 / b for b in BOHR2ANG], False


def molrec_history_oracle(arrays, exports):
    """several exports from ONE live molrec (copy=False and copy=True interleaved): each must be the export a fresh record gives
    with the same options, its geometry must be the ORIGINAL coordinates in Bohr, must read back as such, and answers handed out
    earlier must not change afterwards"""
    import contextlib
    import io
    from qcelemental.molparse import from_arrays, from_schema, to_schema
    with contextlib.redirect_stdout(io.StringIO()):
        try:
            live = from_arrays(speclabel=False, verbose=0, **copy.deepcopy(arrays))
        except Exception as e:
            raise Refused(f"{type(e).__name__}: {e}") from e
        fresh = lambda: from_arrays(speclabel=False, verbose=0, **copy.deepcopy(arrays))
        want_g, exact = _expected_bohr(fresh(), arrays)
        bad, handed = [], []
        form = "plain-list" if arrays.get("np_out") is False else "ndarray"
        for i, (dt, np_out, cp, *todo) in enumerate(list(exports) + [[2, False, True]]):
            ckw = {} if cp is None else {"copy": cp}
            what = (f"export #{i + 1} from one live {arrays.get('units')} molrec ({form} form) after {[list(e) for e in exports[:i]]}: "
                    f"to_schema(m, {dt!r}, np_out={np_out}{'' if cp is None else ', copy=%s' % cp})")
            try:
                got = to_schema(live, dtype=dt, np_out=np_out, **ckw)
            except Exception as e:
                bad.append((what + f" raised {type(e).__name__}: {e}"[:200], None))
                break
            want = to_schema(fresh(), dtype=dt, np_out=np_out, **ckw)
            a, b = ({k: v for k, v in x.items() if k != "provenance"} for x in (got, want))
            if dt == 1:
                a["molecule"], b["molecule"] = ({k: v for k, v in x["molecule"].items() if k != "provenance"} for x in (got, want))
            ms = got["molecule"] if dt == 1 else got
            g = np.asarray(ms["geom" if dt == "psi4" else "geometry"], dtype=float).reshape(-1)
            okg = bool(np.array_equal(g, want_g[0])) if exact else any(np.allclose(g, w, rtol=1e-8, atol=1e-10) for w in want_g)
            if not okg:
                bad.append((what + " does not give the record's coordinates in Bohr", {"exported": g.tolist(), "bohr": want_g[0].tolist()}))
                break
            if not _eq(a, b):
                diff = [k for k in sorted(set(a) | set(b)) if not (k in a and k in b and _eq(a[k], b[k]))]
                bad.append((what + f" differs from the same export of a fresh record in {diff}", {k: [repr(a.get(k))[:200], repr(b.get(k))[:200]] for k in diff[:3]}))
                break
            snap = copy.deepcopy(got)
            if dt != "psi4":
                back = from_schema(got)
                if back["units"] != "Bohr" or not np.array_equal(np.asarray(back["geom"], dtype=float).reshape(-1), g):
                    bad.append((what + " does not read back (from_schema) as the exported Bohr geometry", None))
                    break
                again = from_schema(got)
                diff = [k for k in sorted(set(back) | set(again)) if k != "provenance" and not (k in back and k in again and _same_field(k, back[k], again[k]))]
                if diff:
                    bad.append((what + f": reading the same dictionary twice (from_schema) gives different records in {diff}", None))
                    break
            if "edit" in todo and cp is not False:
                edit_exported(got)                  # the caller's own copy: the record and every later export must not notice
                snap = copy.deepcopy(got)
            handed.append((what, got, snap))
        if not bad:
            for what, got, snap in handed:
                if not _eq(got, snap):
                    bad.append(("the dictionary handed out by " + what + " changed during later exports", None))
                    break
    return [{"what": w, "observed": o} for w, o in bad]


def gen_provenance_kwargs(rng):
    kw = {"creator": rword(rng, 10)}
    if rng.random() < 0.6:
        kw["version"] = rng.choice(["", "1.0", "v0.25.1+3", rword(rng, 5)])
    if rng.random() < 0.6:
        kw["routine"] = rng.choice(["", "qcelemental.models", rword(rng, 8)])
    if rng.random() < 0.3:
        kw[rng.choice(["nthreads", "memory", "note"])] = rany(rng, 1)
    return kw


def gen_shell(rng):
    kind = rng.choice(["simple", "simple", "general", "fused"])
    nprim = rng.randint(1, 3)
    fl = lambda: rng.choice([round(rng.uniform(0.01, 50), 4), rng.uniform(-2, 2), float(rng.randint(1, 9)), str(round(rng.uniform(0.1, 9), 3))])
    if kind == "fused":
        am = rng.sample(range(0, 4), rng.randint(2, 3))
        rows = len(am)
    else:
        am = [rng.randint(0, 5)]
        rows = 1 if kind == "simple" else rng.randint(2, 3)
    return {"angular_momentum": am, "harmonic_type": rng.choice(["spherical", "cartesian"]),
            "exponents": [fl() for _ in range(nprim)], "coefficients": [[fl() for _ in range(nprim)] for _ in range(rows)]}


def gen_ecp(rng):
    n = rng.randint(1, 3)
    fl = lambda: rng.choice([round(rng.uniform(0.01, 50), 4), float(rng.randint(1, 9))])
    return {"ecp_type": rng.choice(["scalar", "spinorbit"]), "angular_momentum": [rng.randint(0, 4)],
            "r_exponents": [rng.randint(-2, 2) for _ in range(n)], "gaussian_exponents": [fl() for _ in range(n)],
            "coefficients": [[fl() for _ in range(n)] for _ in range(rng.randint(1, 2))]}


def shell_nbf(sh):
    if sh["harmonic_type"] == "spherical":
        return sum(2 * L + 1 for L in sh["angular_momentum"])
    return sum((L + 1) * (L + 2) // 2 for L in sh["angular_momentum"])


def gen_basis_kwargs(rng, small=False):
    ncen = rng.randint(1, 2 if small else 3)
    centers = {}
    for i in range(ncen):
        key = rng.choice(["bs_sto3g_", "c", "He_", "x"]) + str(i)
        shells = [gen_shell(rng) for _ in range(rng.randint(1, 2 if small else 3))]
        if small:
            for sh in shells:
                sh["angular_momentum"] = [min(L, 1) for L in sh["angular_momentum"]][:1]
                sh["coefficients"] = sh["coefficients"][:1]
        # identical shells are the known finding; keep them out of this stream
        uniq = []
        for sh in shells:
            if all(json.dumps(sh, sort_keys=True) != json.dumps(u, sort_keys=True) for u in uniq):
                uniq.append(sh)
        c = {"electron_shells": uniq}
        if rng.random() < 0.35:
            c["ecp_electrons"] = rng.choice([0, 2, 10, 28])
        if rng.random() < 0.3:
            c["ecp_potentials"] = [gen_ecp(rng) for _ in range(rng.randint(1, 2))]
            if len(c["ecp_potentials"]) == 2 and c["ecp_potentials"][0] == c["ecp_potentials"][1]:
                c["ecp_potentials"].pop()
        centers[key] = c
    keys = list(centers)
    atom_map = [rng.choice(keys) for _ in range(rng.randint(1, 3))]
    kw = {"name": rng.choice(["sto-3g", "cc-pVDZ", rword(rng, 8)]), "center_data": centers, "atom_map": atom_map}
    nbf = sum(sum(shell_nbf(sh) for sh in centers[k]["electron_shells"]) for k in atom_map)
    if rng.random() < 0.4:
        kw["nbf"] = nbf
    if rng.random() < 0.3:
        kw["description"] = rword(rng, 15)
    if rng.random() < 0.2:
        kw["schema_name"] = rng.choice(["qcschema_basis", " qcschema_basis "])
    return kw, nbf


def gen_properties_kwargs(rng, nat):
    kw = {}
    ints = ["calcinfo_nbasis", "calcinfo_nmo", "calcinfo_nalpha", "calcinfo_nbeta", "scf_iterations", "ccsd_iterations", "ccsdt_iterations", "ccsdtq_iterations"]
    floats = ["nuclear_repulsion_energy", "return_energy", "scf_one_electron_energy", "scf_two_electron_energy", "scf_vv10_energy",
              "scf_xc_energy", "scf_dispersion_correction_energy", "scf_total_energy", "mp2_same_spin_correlation_energy",
              "mp2_opposite_spin_correlation_energy", "mp2_singles_energy", "mp2_doubles_energy", "mp2_correlation_energy",
              "mp2_total_energy", "ccsd_same_spin_correlation_energy", "ccsd_opposite_spin_correlation_energy", "ccsd_singles_energy",
              "ccsd_doubles_energy", "ccsd_correlation_energy", "ccsd_total_energy", "ccsd_prt_pr_correlation_energy",
              "ccsd_prt_pr_total_energy", "ccsdt_correlation_energy", "ccsdt_total_energy", "ccsdtq_correlation_energy", "ccsdtq_total_energy"]
    dip = ["scf_dipole_moment", "mp2_dipole_moment", "ccsd_dipole_moment", "ccsd_prt_pr_dipole_moment", "ccsdt_dipole_moment", "ccsdtq_dipole_moment"]
    for k in rng.sample(ints, rng.randint(0, 3)):
        kw[k] = rng.randint(0, 40)
    for k in rng.sample(floats, rng.randint(0, 6)):
        kw[k] = rng.choice([rfloat(rng, -200, 0), rng.randint(-100, 0)])
    for k in rng.sample(dip, rng.randint(0, 2)):
        kw[k] = [rfloat(rng) for _ in range(3)]
    if rng.random() < 0.2:
        q = [rfloat(rng) for _ in range(9)]
        kw["scf_quadrupole_moment"] = q if rng.random() < 0.5 else [q[0:3], q[3:6], q[6:9]]
    if rng.random() < 0.5:
        kw["calcinfo_natom"] = nat
        for k in rng.sample(["return_gradient", "scf_total_gradient"], rng.randint(0, 2)):
            kw[k] = [rfloat(rng) for _ in range(3 * nat)]
        if nat <= 2:
            for k in rng.sample(["return_hessian", "scf_total_hessian"], rng.randint(0, 1)):
                kw[k] = [rfloat(rng) for _ in range(9 * nat * nat)]
    return kw


def gen_wavefunction_kwargs(rng):
    bkw, nbf = gen_basis_kwargs(rng, small=True)
    if nbf > 6:
        return None
    restricted = rng.random() < 0.5
    nmo = rng.randint(1, nbf)
    kw = {"basis": bkw, "restricted": restricted}
    mat = lambda r, c: [rfloat(rng) for _ in range(r * c)]
    spins = ["a"] if restricted and rng.random() < 0.5 else ["a", "b"]
    for sp in spins:
        for k in rng.sample(["h_core", "h_effective", "scf_density", "scf_fock", "scf_coulomb", "scf_exchange"], rng.randint(0, 2)):
            kw[f"{k}_{sp}"] = mat(nbf, nbf)
        if rng.random() < 0.6:
            kw[f"scf_orbitals_{sp}"] = mat(nbf, nmo)
            if rng.random() < 0.6:
                kw[f"orbitals_{sp}"] = f"scf_orbitals_{sp}"
        if rng.random() < 0.5:
            kw[f"scf_eigenvalues_{sp}"] = mat(1, nmo)
            if rng.random() < 0.6:
                kw[f"eigenvalues_{sp}"] = f"scf_eigenvalues_{sp}"
        if rng.random() < 0.4:
            kw[f"scf_occupations_{sp}"] = [float(rng.randint(0, 2)) for _ in range(nmo)]
            if rng.random() < 0.6:
                kw[f"occupations_{sp}"] = f"scf_occupations_{sp}"
        if rng.random() < 0.2:
            kw[f"localized_orbitals_{sp}"] = mat(nbf, nmo)
            kw[f"localized_fock_{sp}"] = mat(nmo, nmo)
    return kw


def gen_input_kwargs(rng):
    mkw = gen_molecule_kwargs(rng, nmax=3)
    mkw.pop("orient", None)
    model = {"method": rng.choice(["hf", "b3lyp", "mp2", "UFF", rword(rng, 6)])}
    r = rng.random()
    if r < 0.35:
        model["basis"] = rng.choice(["sto-3g", "6-31G*", "cc-pvdz"])
    elif r < 0.55:
        model["basis"] = gen_basis_kwargs(rng, small=True)[0]
    elif r < 0.65:
        model["basis"] = None
    if rng.random() < 0.15:
        model[rng.choice(["basis_spec", "note"])] = rany(rng, 1)
    kw = {"molecule": mkw, "driver": rng.choice(["energy", "gradient", "hessian", "properties"]), "model": model}
    if rng.random() < 0.5:
        kw["keywords"] = rdict(rng, 0.8)
    if rng.random() < 0.5:
        p = {}
        if rng.random() < 0.6:
            p["wavefunction"] = rng.choice(["all", "orbitals_and_eigenvalues", "occupations_and_eigenvalues", "return_results", "none"])
        if rng.random() < 0.5:
            p["stdout"] = rng.random() < 0.6
        if rng.random() < 0.4:
            ec = {}
            if rng.random() < 0.6:
                ec["default_policy"] = rng.random() < 0.5
            if rng.random() < 0.6:
                ec["policies"] = {rword(rng, 5): rng.random() < 0.5 for _ in range(rng.randint(0, 2))}
            p["error_correction"] = ec
        if rng.random() < 0.4:
            p["native_files"] = rng.choice(["all", "input", "none"])
        kw["protocols"] = p
    if rng.random() < 0.4:
        kw["extras"] = rdict(rng, 0.8)
    if rng.random() < 0.3:
        kw["id"] = rword(rng, 8)
    if rng.random() < 0.4:
        kw["provenance"] = gen_provenance_kwargs(rng)
    if rng.random() < 0.2:
        kw["schema_name"] = rng.choice(["qcschema_input", "qc_schema_input"])
    if rng.random() < 0.2:
        kw["schema_version"] = 1
    return kw


def gen_result_kwargs(rng):
    kw = gen_input_kwargs(rng)
    kw.pop("schema_name", None)
    nat = len(kw["molecule"]["symbols"])
    kw["properties"] = gen_properties_kwargs(rng, nat)
    kw["provenance"] = gen_provenance_kwargs(rng)
    kw["success"] = rng.random() < 0.8
    d = kw["driver"]
    if d == "energy":
        kw["return_result"] = rng.choice([rfloat(rng, -100, 0), rng.randint(-50, 0)])
    elif d == "gradient":
        g = [rfloat(rng) for _ in range(3 * nat)]
        kw["return_result"] = g if rng.random() < 0.6 else [g[3 * i:3 * i + 3] for i in range(nat)]
    elif d == "hessian":
        kw["return_result"] = [rfloat(rng) for _ in range(9 * nat * nat)]
    else:
        kw["return_result"] = rng.choice([rdict(rng, 1.0), rfloat(rng), [rfloat(rng) for _ in range(rng.randint(1, 4))]])
    if rng.random() < 0.4:
        w = gen_wavefunction_kwargs(rng)
        if w is not None:
            kw["wavefunction"] = w
    if rng.random() < 0.4:
        kw["stdout"] = rword(rng, 20)
    if rng.random() < 0.3:
        kw["stderr"] = rword(rng, 20)
    if rng.random() < 0.3:
        kw["native_files"] = {rng.choice(["input", "gamess.dat", "out"]): rword(rng, 10) for _ in range(rng.randint(0, 2))}
    if rng.random() < 0.25:
        e = {"error_type": rng.choice(["input_error", "random_error", rword(rng, 6)]), "error_message": rword(rng, 20)}
        if rng.random() < 0.4:
            e["extras"] = rdict(rng, 0.8)
        kw["error"] = e
    if rng.random() < 0.15:
        kw["schema_name"] = rng.choice(["qcschema_output", "qcschema_input"])
    return kw


# ------------------------------------------------------------------------------------------------
# ndarray inputs of non-default dtype / byte order / memory order for every array-typed field

FREE_OWNERS = {"AtomicResultProperties", "WavefunctionProperties", "AtomicResult"}     # array fields whose entries may be any number
DT_FLOAT = ["float64", "float32", "float16", ">f8", ">f4"]
DT_INT = ["int8", "int16", "int32", "int64", ">i2", ">i8", "uint8", "uint16", "uint32", "uint64"]
_RANGE = {"int8": (-128, 127), "int16": (-2 ** 15, 2 ** 15 - 1), "int32": (-2 ** 31, 2 ** 31 - 1), "int64": (-2 ** 62, 2 ** 62), ">i2": (-2 ** 15, 2 ** 15 - 1),
          ">i8": (-2 ** 62, 2 ** 62), "uint8": (0, 255), "uint16": (0, 2 ** 16 - 1), "uint32": (0, 2 ** 32 - 1), "uint64": (0, 2 ** 62)}


def array_sites(cls, kw, path=()):
    """(path, kind of the field's dtype, owner model, alias) of every list value sitting at an array-typed field, by the models' own
    field tables"""
    import pydantic.v1 as pyd
    from qcelemental.models.types import TypedArray

    def isarr(t):
        return isinstance(t, type) and issubclass(t, TypedArray)

    def ismod(t):
        return isinstance(t, type) and issubclass(t, pyd.BaseModel)

    def kind(t):
        return np.dtype(t._dtype).kind if t._dtype is not str else "U"
    by_alias = {f.alias: f for f in cls.__fields__.values()}
    by_alias.update({n: f for n, f in cls.__fields__.items() if n not in by_alias})
    for key, val in kw.items():
        f = by_alias.get(key)
        if f is None or val is None:
            continue
        cands = [f] + list(f.sub_fields or [])
        for c in cands:
            if isarr(c.type_) and isinstance(val, list) and val:
                if c.shape == 1:
                    yield path + (key,), kind(c.type_), cls.__name__, f.alias
                elif c.shape == 2 and all(isinstance(x, list) and x for x in val):       # List[Array]: each item
                    for i in range(len(val)):
                        yield path + (key, i), kind(c.type_), cls.__name__, f.alias
                break
            if ismod(c.type_) and c.shape == 1 and isinstance(val, dict) and ND not in val:
                yield from array_sites(c.type_, val, path + (key,))
                break


def _flat(v):
    if v and isinstance(v[0], list):
        return [x for row in v for x in row], [len(v), len(v[0])]
    return list(v), [len(v)]


def dtype_choices(kind, flat, allow_bytes):
    """the dtypes that can hold these values without changing what they mean"""
    nums = all(isinstance(x, (int, float)) for x in flat)
    out = []
    if kind == "U":
        if all(isinstance(x, str) for x in flat):
            out = ["<U8", ">U8", "O"] + (["S8"] if allow_bytes and all(x.isascii() for x in flat) else [])
        return out
    if not nums:
        return out
    integral = all(float(x).is_integer() for x in flat)
    if kind == "f":
        out += DT_FLOAT if all(abs(float(x)) < 6e4 for x in flat) else ["float64", ">f8"]
    elif integral:
        out += ["float64", "float32"]
    if integral:
        lo, hi = min(int(x) for x in flat), max(int(x) for x in flat)
        out += [d for d in DT_INT if _RANGE[d][0] <= lo and hi <= _RANGE[d][1]]
        if lo >= 0 and hi <= 1:
            out.append("bool")
    return out


def retype_arrays(rng, recipe, cover, p=0.45):
    """hand some of the recipe's array-typed fields over as ndarrays of another dtype (narrow / unsigned integers, booleans, half and
    single precision, big-endian, object), Fortran-ordered or strided; the (field, dtype) pairs seen least so far are preferred"""
    import qcelemental.models as qm
    if "kwargs" not in recipe:
        return recipe
    kw = recipe["kwargs"]
    try:
        sites = list(array_sites(getattr(qm, recipe["model"]), kw))
    except Exception:
        return recipe
    for path, kind, owner, alias in sites:
        if rng.random() > p:
            continue
        holder = kw
        for k_ in path[:-1]:
            holder = holder[k_]
        val = holder[path[-1]]
        try:
            flat, shape = _flat(val)
        except Exception:
            continue
        if any(isinstance(x, (list, dict)) for x in flat):
            continue
        mol_holder = kw
        for k_ in path[:-1]:
            if isinstance(mol_holder, dict) and isinstance(k_, str) and k_ != "fragments":
                mol_holder = mol_holder[k_]
        free = owner in FREE_OWNERS and kind == "f" and all(isinstance(x, (int, float)) for x in flat)
        choices = dtype_choices(kind, flat, allow_bytes=(owner == "Molecule" and isinstance(mol_holder, dict) and mol_holder.get("validate") is False))
        if free:
            choices = sorted(set(choices) | {"bool", "int8", "uint8", "int64"})
        if alias == "fragments":
            choices = [d for d in choices if d in _RANGE]       # index lists: a boolean or float array there means something else to numpy
        if not choices:
            continue
        low = min(cover.get((owner, alias, d), 0) for d in choices)
        dt = rng.choice([d for d in choices if cover.get((owner, alias, d), 0) == low])
        if free and dt in ("bool", "int8", "uint8", "int64") and dt not in dtype_choices(kind, flat, False):
            flat = [rng.randint(0, 1) for _ in flat]                    # e.g. an occupied/virtual mask, a 0/1 selection
        if dt == "bool":
            flat = [bool(x) for x in flat]
        elif dt == "O" or dt[-2] == "U" or dt[0] == "S":
            pass
        elif dt in _RANGE:
            flat = [int(x) for x in flat]
        else:
            flat = [float(x) for x in flat]
        if len(shape) == 1 and (alias == "geometry" or alias.endswith("gradient")) and len(flat) % 3 == 0 and rng.random() < 0.5:
            shape = [len(flat) // 3, 3]
        order = "C"
        r = rng.random()
        if len(shape) == 2 and r < 0.5:
            order = "F"
        elif r > 0.85 and dt != "O":
            order = "S"
        holder[path[-1]] = nd(dt, flat, shape, order)
        cover[(owner, alias, dt)] = cover.get((owner, alias, dt), 0) + 1
        cover[("order", order)] = cover.get(("order", order), 0) + 1
    return recipe


def gen_payload_noise(rng, n):
    return [rng.choice([0.0, 3e-10, -4e-10, 1e-9, rng.uniform(-4e-9, 4e-9), 1.2345e-12]) for _ in range(n)]


def gen_recipe(rng, which):
    if which == "Molecule":
        r = rng.random()
        if r < 0.55:
            kw = gen_molecule_kwargs(rng)
            rc = {"model": "Molecule", "kwargs": kw}
            if rng.random() < 0.3:
                nat = len(kw["symbols"])
                rc["derive"] = gen_derive(rng, nat, "fragments" not in kw)
            elif rng.random() < 0.08:
                rc["derive"] = [{"op": "payload", "noise": gen_payload_noise(rng, 3 * len(kw["symbols"]))}]
            return rc
        if r < 0.75:
            return {"model": "Molecule", "kwargs": gen_molecule_unvalidated(rng)}
        text, coords = gen_molecule_text(rng)
        return {"model": "Molecule", "from_data": text, "dtype": "psi4", "angstrom_coords": coords}
    if which == "Provenance":
        return {"model": "Provenance", "kwargs": gen_provenance_kwargs(rng)}
    if which == "BasisSet":
        return {"model": "BasisSet", "kwargs": gen_basis_kwargs(rng)[0]}
    if which == "AtomicResultProperties":
        return {"model": "AtomicResultProperties", "kwargs": gen_properties_kwargs(rng, rng.randint(1, 3))}
    if which == "AtomicInput":
        return {"model": "AtomicInput", "kwargs": gen_input_kwargs(rng)}
    return {"model": "AtomicResult", "kwargs": gen_result_kwargs(rng)}


SHELL0 = {"angular_momentum": [0], "harmonic_type": "spherical", "exponents": [1.0], "coefficients": [[1.0]]}
SHELL00 = {"angular_momentum": [0, 0], "harmonic_type": "spherical", "exponents": [1.0], "coefficients": [[1.0], [1.0]]}
ECP0 = {"ecp_type": "scalar", "angular_momentum": [1], "r_exponents": [2], "gaussian_exponents": [1.0], "coefficients": [[1.0]]}
ECP11 = {"ecp_type": "scalar", "angular_momentum": [1, 1], "r_exponents": [2], "gaussian_exponents": [1.0], "coefficients": [[1.0]]}


def _basis(shells, ecps=None):
    c = {"electron_shells": shells}
    if ecps:
        c["ecp_potentials"] = ecps
    return {"name": "x", "center_data": {"a": c}, "atom_map": ["a"]}


# instances that exhibit the known findings (kept in the corpus so that a regression of the matcher is seen)
KNOWN_PROBES = [
    ("C09-uniqueitems", {"model": "BasisSet", "kwargs": _basis([SHELL0, SHELL0])}, False),
    ("C09-uniqueitems", {"model": "BasisSet", "kwargs": _basis([SHELL00])}, False),
    ("C09-uniqueitems", {"model": "AtomicInput", "kwargs": {"molecule": {"symbols": ["He"], "geometry": [0, 0, 0]}, "driver": "energy",
                                                            "model": {"method": "hf", "basis": _basis([SHELL0, SHELL0])}}}, False),
    ("C09-uniqueitems-ecp", {"model": "BasisSet", "kwargs": _basis([SHELL0], [ECP0, ECP0])}, False),
    ("C09-uniqueitems-ecp", {"model": "BasisSet", "kwargs": _basis([SHELL0], [ECP11])}, False),
    ("C09-scalar-array-0d", {"model": "AtomicResult", "kwargs": {
        "molecule": {"symbols": ["He"], "geometry": [0, 0, 0]}, "driver": "energy", "model": {"method": "hf"},
        "protocols": {"wavefunction": "all"}, "provenance": {"creator": "x"}, "properties": {},
        "wavefunction": {"basis": _basis([SHELL0]), "restricted": True, "localized_fock_a": 1.0},
        "return_result": 1.0, "success": True}}, True),
    ("C09-scalar-array-0d", {"model": "AtomicResult", "kwargs": {
        "molecule": {"symbols": ["He"], "geometry": [0, 0, 0]}, "driver": "energy", "model": {"method": "hf"},
        "protocols": {"wavefunction": "all"}, "provenance": {"creator": "x"}, "properties": {},
        "wavefunction": {"basis": _basis([SHELL0]), "restricted": False, "localized_fock_b": 2},
        "return_result": 1.0, "success": True}}, True),
    ("C09-scalar-array-0d", {"model": "Molecule", "kwargs": {"validate": False, "symbols": ["He"], "geometry": [0, 0, 0],
                                                             "atomic_numbers": 2}}, True),
    ("C09-scalar-array-0d", {"model": "Molecule", "kwargs": {"validate": False, "symbols": ["He"], "geometry": [0, 0, 0],
                                                             "mass_numbers": 4, "atom_labels": "a"}}, True),
    ("C09-scalar-array-0d", {"model": "Molecule", "kwargs": {"validate": False, "symbols": ["He"], "geometry": [0, 0, 0],
                                                             "fragments": [0]}}, True),
]

# inputs that exhibited a finding before a fix in /repo and must now be refused by the models
# (e040dda: ccsdt_/ccsdtq_dipole_moment, localized_orbitals_*, scf_coulomb_*, scf_exchange_* got shape validators)
_WFN1 = {"basis": _basis([SHELL0]), "restricted": True}
MUST_REJECT = [
    {"model": "AtomicResultProperties", "kwargs": {"ccsdt_dipole_moment": 1.0}},
    {"model": "AtomicResultProperties", "kwargs": {"ccsdtq_dipole_moment": 2}},
    {"model": "AtomicResultProperties", "kwargs": {"ccsdt_dipole_moment": [1.0, 2.0]}},
]

# molrecs whose masses are off the isotope table (average weights -> mass number -1), explicit isotopes, ghost with a mass
MOLREC_CORPUS = [
    # open-shell fragments coupled low-spin / intermediate (the totals must survive the translation), ionic pair
    {"elem": ["H", "H"], "geom": [0, 0, 0, 0, 0, 6.0], "units": "Bohr", "fragment_separators": [1], "fragment_multiplicities": [2, 2],
     "molecular_multiplicity": 1},
    {"elem": ["O", "O"], "geom": [0, 0, 0, 0, 0, 8.0], "units": "Bohr", "fragment_separators": [1], "fragment_multiplicities": [3, 3],
     "molecular_multiplicity": 3},
    {"elem": ["N", "H", "Li"], "geom": [0, 0, 0, 0, 0, 3.0, 0, 0, 6.0], "units": "Angstrom", "fragment_separators": [1, 2],
     "fragment_multiplicities": [4, 2, 2], "molecular_multiplicity": 2},
    {"elem": ["Na", "Cl"], "geom": [0, 0, 0, 0, 0, 5.0], "units": "Bohr", "fragment_separators": [1], "fragment_charges": [1.0, -1.0],
     "fragment_multiplicities": [1, 1], "molecular_charge": 0.0},
    # Angstrom records whose own input_units_to_au is near the edges of the window from_arrays accepts
    {"elem": ["He", "Ne"], "geom": [0, 0, 0, 0, 0, 3.0], "units": "Angstrom", "input_units_to_au": IU_BASE * 1.026},
    {"elem": ["He", "Ne"], "geom": [0.5, 0, 0, 0, 0, 3.0], "units": "Angstrom", "input_units_to_au": IU_BASE * (1 - 0.0234)},
    {"elem": ["O", "H", "H"], "geom": [0, 0, 0, 0, 0, 1.8, 0, 1.7, -0.5], "mass": [15.999, 1.008, 1.008], "units": "Bohr"},
    {"elem": ["O", "H", "H"], "geom": [0, 0, 0, 0, 0, 0.96, 0, 0.93, -0.3], "mass": [15.999, 2.0141, 1.008], "units": "Angstrom"},
    {"elem": ["C", "H"], "geom": [0, 0, 0, 0, 0, 2.0], "elea": [13, 2], "units": "Bohr"},
    {"elem": ["He", "H"], "geom": [0, 0, 0, 0, 0, 2.5], "units": "Bohr", "molecular_charge": 1, "name": "helium hydride", "comment": "a comment; with (punctuation)"},
    {"elem": ["He", "Ne"], "geom": [0, 0, 0, 0, 0, 5.0], "mass": [4.0026, 20.18], "real": [True, False], "fragment_separators": [1],
     "units": "Bohr"},
]

# from_arrays accepts negative separators (numpy reads them as slice indices) and keeps them; the round trip returns the
# non-negative equivalents (known finding C09-negative-separators, theorem C09_roundtrip_negative_separators_refuted)
KNOWN_MOLREC_PROBES = [
    {"elem": ["He", "He", "He"], "geom": [0, 0, 0, 0, 0, 3, 0, 0, 6], "units": "Bohr", "fragment_separators": [-1]},
    {"elem": ["He", "Ne", "He", "Ar"], "geom": [0, 0, 0, 0, 0, 3, 0, 0, 6, 0, 3, 0], "units": "Angstrom", "fragment_separators": [-3, 2]},
]

CORPUS = [
    {"model": "Molecule", "kwargs": {"symbols": ["He"], "geometry": [0, 0, 0]}},
    {"model": "Molecule", "kwargs": {"symbols": ["O", "H", "H"], "geometry": [0, 0, 0, 0, 0, 1.8, 0, 1.7, -0.5],
                                     "connectivity": [[0, 1, 1], [0, 2, 1.0]], "fragments": [[0, 1], [2]], "real": [True, True, False]}},
    {"model": "Molecule", "from_data": "He 0 0 0\n--\n@Ne 0 0 3.5\nunits angstrom", "dtype": "psi4",
     "angstrom_coords": [[0, 0, 0], [0, 0, 3.5]]},
    {"model": "Molecule", "kwargs": {"symbols": ["O", "H", "H"], "geometry": [0, 0, 0, 0, 0, 1.8, 0, 1.7, -0.5],
                                     "masses": [15.999, 1.008, 2.0141]}},
    {"model": "Molecule", "kwargs": {"symbols": ["C", "H"], "geometry": [0, 0, 0, 0, 0, 2.0], "mass_numbers": [13, 2]}},
    {"model": "Molecule", "from_data": "O@15.999 0 0 0\nH@1.008 0 0 0.96\n--\nGh(He@4.0026) 0 0 3.0\nunits angstrom", "dtype": "psi4",
     "angstrom_coords": [[0, 0, 0], [0, 0, 0.96], [0, 0, 3.0]]},
    {"model": "Molecule", "kwargs": {"symbols": ["H", "H"], "geometry": [0, 0, 0, 0, 0, 6.0], "fragments": [[0], [1]],
                                     "fragment_multiplicities": [2, 2], "molecular_multiplicity": 1}},
    {"model": "Molecule", "kwargs": {"symbols": ["O", "O"], "geometry": [0, 0, 0, 0, 0, 8.0], "fragments": [[0], [1]],
                                     "fragment_multiplicities": [3, 3], "molecular_multiplicity": 3}},
    # validated molecules handed back by scramble()/align() (stored with a finer coordinate truncation), a finer geometry_noise
    {"model": "Molecule", "kwargs": {"symbols": ["O", "H", "H"], "geometry": [0, 0, -0.125, 0, -1.5, 1.0, 0, 1.5, 1.0]},
     "derive": [{"op": "scramble", "shift": [0.1234567890123, -0.2, 0.3000000000007]}]},
    {"model": "Molecule", "kwargs": {"symbols": ["O", "H", "H"], "geometry": [0, 0, -0.125, 0, -1.5, 1.0, 0, 1.5, 1.0]},
     "derive": [{"op": "scramble", "shift": [0.5, 0.25, -1.0], "rotate": [[0.8, -0.6, 0.0], [0.6, 0.8, 0.0], [0.0, 0.0, 1.0]]},
                {"op": "align", "atoms_map": True, "mols_align": True}]},
    {"model": "Molecule", "kwargs": {"symbols": ["He", "Ne"], "geometry": [0, 0, 0, 0.1234567890123, 0, 3.0], "geometry_noise": 12}},
    # ndarrays of other dtypes / byte order / memory order in array-typed fields
    {"model": "Molecule", "kwargs": {"symbols": nd(">U8", ["He", "ne"]), "geometry": nd("float32", [0, 0, 0, 0, 0, 3], [2, 3], "F"),
                                     "real": nd("int8", [1, 0])}},
    {"model": "AtomicResultProperties", "kwargs": {"calcinfo_natom": 1, "scf_dipole_moment": nd("bool", [True, False, True]),
                                                   "return_gradient": nd("uint8", [0, 1, 2], [1, 3], "F")}},
    {"model": "Provenance", "kwargs": {"creator": "x"}},
    {"model": "BasisSet", "kwargs": _basis([SHELL0, {"angular_momentum": [0, 1], "harmonic_type": "cartesian", "exponents": ["0.5", 3.0],
                                                      "coefficients": [[1, 2], [3, 4]]}], [ECP0])},
    {"model": "AtomicResultProperties", "kwargs": {"calcinfo_natom": 1, "return_gradient": [0, 0, 1], "scf_dipole_moment": [0, 0, 1]}},
    {"model": "AtomicInput", "kwargs": {"molecule": {"symbols": ["He"], "geometry": [0, 0, 0]}, "driver": "gradient",
                                        "model": {"method": "hf", "basis": "sto-3g"}, "protocols": {"stdout": False}}},
    {"model": "AtomicResult", "kwargs": {"molecule": {"symbols": ["He"], "geometry": [0, 0, 0]}, "driver": "gradient",
                                         "model": {"method": "hf"}, "properties": {}, "return_result": [0, 0, 0.5],
                                         "success": True, "provenance": {"creator": "p"}}},
]


# ------------------------------------------------------------------------------------------------
# mutated JSON documents

def _paths(doc, pre=()):
    yield pre
    if isinstance(doc, dict):
        for k, v in doc.items():
            yield from _paths(v, pre + (k,))
    elif isinstance(doc, list):
        for i, v in enumerate(doc):
            yield from _paths(v, pre + (i,))


def _get(doc, path):
    for p in path:
        doc = doc[p]
    return doc


def _set(doc, path, val):
    if not path:
        return val
    par = _get(doc, path[:-1])
    par[path[-1]] = val
    return doc


def mutate(rng, doc):
    doc = copy.deepcopy(doc)
    paths = list(_paths(doc))
    path = rng.choice(paths)
    node = _get(doc, path)
    op = rng.randint(0, 9)
    if isinstance(node, dict):
        if op < 3 and node:
            del node[rng.choice(list(node))]
        elif op < 6:
            node[rng.choice(["zzz", "masses_", "extra", "geometry", "name"])] = rany(rng, 1)
        elif op < 8 and node:
            k = rng.choice(list(node))
            node[k] = rany(rng, 1)
        else:
            doc = _set(doc, path, rng.choice([[], "obj", 3, None]))
    elif isinstance(node, list):
        if op < 2 and node:
            node.append(copy.deepcopy(rng.choice(node)))
        elif op < 4 and node:
            node.pop(rng.randrange(len(node)))
        elif op < 5:
            node.clear()
        elif op < 7:
            node.append(rany(rng, 1))
        elif op < 8 and node:
            i = rng.randrange(len(node))
            node[i] = [node[i]]
        else:
            doc = _set(doc, path, rng.choice([{}, "list", 1.5, None, True]))
    else:
        if isinstance(node, bool):
            new = rng.choice([0, 1, "true", None, not node])
        elif isinstance(node, int):
            new = rng.choice([float(node), -node - 1, node + 0.5, str(node), None, True, 6, -1, 5])
        elif isinstance(node, float):
            new = rng.choice([int(node) if abs(node) < 1e9 else 0, -abs(node) - 1.0, str(node), None, [node], 5.0, 5.5, -0.0, 6])
        elif isinstance(node, str):
            new = rng.choice([node + "x", node[:-1], node.upper(), 7, None, [node], "", node + " "])
        else:
            new = rng.choice([0, "null", [], {}])
        doc = _set(doc, path, new)
    return doc


SPECIAL = {"connectivity", "atomic_numbers", "mass_numbers", "fragments", "angular_momentum", "electron_shells", "ecp_potentials",
           "schema_name", "driver", "harmonic_type", "ecp_type", "exponents", "coefficients", "r_exponents", "wavefunction",
           "stdout", "native_files", "policies", "basis", "return_result", "symbols", "geometry", "real", "schema_version",
           "fragment_multiplicities", "molecular_multiplicity", "provenance", "creator"}


def directed(rng, doc):
    """a mutation aimed at one keyword of the schema (uniqueItems, minimum/maximum, multipleOf, min/maxItems, enum, pattern, anyOf)"""
    doc = copy.deepcopy(doc)
    sites = [p for p in _paths(doc) if p and p[-1] in SPECIAL]
    if not sites:
        return mutate(rng, doc)
    path = rng.choice(sites)
    key, node = path[-1], _get(doc, path)
    try:
        if key == "connectivity":
            b = rng.choice(node)
            rng.choice([lambda: b.__setitem__(2, rng.choice([5.5, -0.5, 5, 5.0, 0, 6, "1"])), lambda: b.append(1), lambda: b.pop(),
                        lambda: b.__setitem__(0, rng.choice([-1, 1.0, 0])), lambda: node.clear()])()
        elif key in ("atomic_numbers", "mass_numbers"):
            node[rng.randrange(len(node))] = rng.choice([1.5, 2.0, -1, "1", True, 1e300])
        elif key == "fragments":
            fr = rng.choice(node)
            rng.choice([lambda: fr.append(rng.choice([0.5, 1.0, 7, "0"])), lambda: fr.clear(), lambda: node.append(3)])()
        elif key == "angular_momentum":
            rng.choice([lambda: node.append(node[0]), lambda: node.append(float(node[0])), lambda: node.__setitem__(0, -1),
                        lambda: node.clear(), lambda: node.append(rng.randint(0, 6)), lambda: node.__setitem__(0, 1.0), lambda: node.append(True)])()
        elif key in ("electron_shells", "ecp_potentials"):
            rng.choice([lambda: node.append(copy.deepcopy(node[0])), lambda: node.clear(),
                        lambda: node.append({k: node[0][k] for k in reversed(list(node[0]))}),
                        lambda: node.append(json.loads(json.dumps(node[0]).replace("1.0", "1"))), lambda: node[0].pop(rng.choice(list(node[0])))])()
        elif key in ("schema_name", "driver", "harmonic_type", "ecp_type", "creator"):
            doc = _set(doc, path, rng.choice([node + "x", node[1:], node.upper(), node + "\n", "qc_schema_input", "qcschema_input", "qcschema_output",
                                               "energy", "properties", "cartesian", "scalar", 1, None]))
        elif key in ("exponents", "r_exponents"):
            rng.choice([lambda: node.clear(), lambda: node.append("2.5"), lambda: node.append(None), lambda: node.append(1.5), lambda: node.append(2)])()
        elif key == "coefficients":
            rng.choice([lambda: node.clear(), lambda: node[0].clear(), lambda: node.append([]), lambda: node[0].append("x"), lambda: node.append(1.0)])()
        elif key == "basis":
            doc = _set(doc, path, rng.choice(["sto-3g", 3, None, {}, {"name": "x", "center_data": {}, "atom_map": []}, ["a"]]))
        elif key == "return_result":
            doc = _set(doc, path, rng.choice([1, 1.5, "e", [1, 2.5], [[1.0]], ["a"], {}, {"a": [None]}, None, True]))
        elif key in ("schema_version", "molecular_multiplicity"):
            doc = _set(doc, path, rng.choice([1.0, 2, "2", None, 1.5, True]))
        elif key in ("symbols", "geometry", "real", "fragment_multiplicities"):
            rng.choice([lambda: node.append(rng.choice([1, 1.5, "He", True, None])), lambda: node.clear(),
                        lambda: node.__setitem__(0, rng.choice([1, 2.5, "x", False, [0.0]]))])()
        elif key == "policies":
            node[rword(rng, 3)] = rng.choice([True, 1, "yes", None])
        elif key == "provenance":
            rng.choice([lambda: node.pop("creator", None), lambda: node.__setitem__("zz", [1, {"a": None}]), lambda: node.__setitem__("version", 1)])()
        else:
            doc = _set(doc, path, rany(rng, 1))
    except (IndexError, KeyError, TypeError, AttributeError, ValueError):
        return mutate(rng, doc)
    return doc


# ------------------------------------------------------------------------------------------------
# correspondence

def cinst(name, lax, inst, doc, expect, expect_stripped):
    return f"({cstr(name)}, {cbool(lax)}, {tr.cpval(inst)}, {tr.cjson(doc)}, {cbool(expect)}, {cbool(expect_stripped)})"


def lunit(u):
    return {"Bohr": "Bohr", "Angstrom": "Angstrom"}.get(u, "OtherUnit")


# what a caller may pass as to_schema(units=...): the two documented names first, then other spellings of them, other length units
# known to qcel.constants ('au' is the astronomical unit there), and names that are not length units at all
REQUEST_UNITS = ["Bohr", "Angstrom", "bohr", "BOHR", "a0", "angstrom", "ANGSTROM", "au", "nm", "pm", "meter", "garbage", "hartree", ""]


def known_length_unit(mu, u):
    from qcelemental import constants
    try:
        constants.conversion_factor(mu, u)
        return True
    except Exception:
        return False


def bohr_x(mu, iu):
    """the x coordinate(s) an atom stored at x = 1.0 may have in a Bohr export"""
    if mu == "Bohr":
        return [1.0]
    return [iu] if iu is not None else [1.0 / b for b in BOHR2ANG]


def factor_cases(rng, n):
    """probe to_schema's unit branch: an atom stored at x = 1.0 is exported at x = factor"""
    from qcelemental.molparse import from_arrays, to_schema
    from qcelemental import constants
    from qcelemental.exceptions import ValidationError
    out = []
    base = from_arrays(geom=[1.0, 0.0, 0.0, 0.0, 0.0, 3.0], elem=["He", "He"], units="Bohr")
    grid = [(mu, u, dt) for u in REQUEST_UNITS[2:] for mu in ("Bohr", "Angstrom") for dt in (1, 2, "psi4")]
    for k in range(n + len(grid)):
        if k < len(grid):                       # every other spelling / length unit x stored unit x dtype once
            mu, u, dt0 = grid[k]
        else:
            mu, dt0 = rng.choice(["Bohr", "Angstrom"]), None
            u = rng.choice(["Bohr", "Bohr", "Angstrom"])
        m = copy.deepcopy(base)
        m["units"] = mu
        iu = None
        if rng.random() < 0.6:
            iu = rng.choice([1.0 / 0.52917721067, 1.8897261, 1.88972612462, 2.0, pick_iutau(rng), pick_iutau(rng), pick_iutau(rng)])
            m["input_units_to_au"] = iu
        dt = rng.choice([1, 2, "psi4"]) if dt0 is None else dt0
        try:
            s = to_schema(m, dtype=dt, units=u)
        except ValidationError:
            out.append(("refused", (mu, u, iu, dt), "ValidationError"))
            continue
        except Exception as e:
            if u in ("Bohr", "Angstrom"):
                raise
            out.append(("refused", (mu, u, iu, dt), type(e).__name__))
            continue
        g = s["geom"] if dt == "psi4" else (s["molecule"] if dt == 1 else s)["geometry"]
        try:
            conv = Fraction(float(constants.conversion_factor(mu, u)))   # what the else branch of to_schema multiplies by
        except Exception:
            conv = None                                                  # (an accepted name qcel.constants does not know)
        out.append(("ok", (mu, u, iu, dt), (conv, Fraction(float(np.asarray(g).reshape(-1)[0])))))
    return out


# ------------------------------------------------------------------------------------------------
# whole-record translation: to_schema / from_schema against Model/SchemaTrans.v (on C04's molrec model)

def _dec(x):
    """exact decimal reading of a float's shortest repr (the convention of the C04 model: from_arrays only compares)"""
    from decimal import Decimal
    return cq(Fraction(Decimal(repr(float(x)))))


def _zint(x):
    f = float(x)
    if not f.is_integer():
        raise ValueError("non-integer charge / multiplicity is outside the modelled domain")
    return coqrun.cz(int(f))


def _some(v, f):
    return "None" if v is None else f"(Some {f(v)})"


def canon_molrec(r):
    """molrec dict -> canonical JSON-able record (fields of Model/MolRec.v molrec)"""
    return {"units": str(r["units"]), "iutau": (float(r["input_units_to_au"]) if "input_units_to_au" in r else None),
            "geom": [float(x) for x in np.asarray(r["geom"], dtype=float).reshape(-1)], "elea": [int(x) for x in r["elea"]],
            "elez": [int(x) for x in r["elez"]], "elem": [str(x) for x in r["elem"]], "mass": [float(x) for x in r["mass"]],
            "real": [bool(x) for x in r["real"]], "elbl": [str(x) for x in r["elbl"]],
            "seps": [int(x) for x in r["fragment_separators"]], "fchg": [float(x) for x in r["fragment_charges"]],
            "fmult": [float(x) for x in r["fragment_multiplicities"]], "chg": float(r["molecular_charge"]),
            "mult": float(r["molecular_multiplicity"]), "fix_com": bool(r["fix_com"]), "fix_orientation": bool(r["fix_orientation"]),
            "fix_symmetry": r.get("fix_symmetry"),
            "conn": ([(int(a), int(b), float(o)) for a, b, o in r["connectivity"]] if "connectivity" in r else None)}


def cconn(c):
    return clist(c, lambda t: f"({coqrun.cz(int(t[0]))}, {coqrun.cz(int(t[1]))}, {_dec(t[2])})")


def cmolrec(c):
    return "(Build_molrec %s %s %s %s %s %s %s %s %s %s %s %s %s %s %s %s %s %s)" % (
        cstr(c["units"]), _some(c["iutau"], _dec), clist(c["geom"], _dec), clist(c["elea"], coqrun.cz), clist(c["elez"], coqrun.cz),
        clist(c["elem"], cstr), clist(c["mass"], _dec), clist(c["real"], cbool), clist(c["elbl"], cstr), clist(c["seps"], coqrun.cz),
        clist(c["fchg"], _zint), clist(c["fmult"], _zint), _zint(c["chg"]), _zint(c["mult"]), cbool(c["fix_com"]),
        cbool(c["fix_orientation"]), _some(c["fix_symmetry"], cstr), _some(c["conn"], cconn))


def csmol(ms):
    """the molecule keys of a schema dictionary -> Build_schema_mol (None = key absent)"""
    def arr(key, f):
        if key not in ms:
            return "None"
        v = ms[key]
        v = np.asarray(v).reshape(-1).tolist() if key == "geometry" else list(v)
        return "(Some " + clist(v, f) + ")"

    def sc(key, f):
        return "None" if key not in ms else f"(Some {f(ms[key])})"
    frs = "None" if "fragments" not in ms else "(Some " + clist(ms["fragments"], lambda fr: clist([int(i) for i in fr], coqrun.cz)) + ")"
    return "(Build_schema_mol %s %s %s %s %s %s %s %s %s %s %s %s %s %s %s %s %s)" % (
        arr("symbols", lambda x: cstr(str(x))), arr("geometry", _dec), arr("masses", _dec), arr("atomic_numbers", lambda x: coqrun.cz(int(x))),
        arr("mass_numbers", lambda x: coqrun.cz(int(x))), arr("atom_labels", lambda x: cstr(str(x))), arr("real", lambda x: cbool(bool(x))),
        frs, arr("fragment_charges", _zint), arr("fragment_multiplicities", _zint), sc("molecular_charge", _zint),
        sc("molecular_multiplicity", _zint), sc("fix_com", lambda x: cbool(bool(x))), sc("fix_orientation", lambda x: cbool(bool(x))),
        sc("fix_symmetry", cstr), sc("connectivity", cconn), sc("validated", lambda x: cbool(bool(x))))


def cdoc(s):
    name, ver = s.get("schema_name"), s.get("schema_version")
    if not (name is None or isinstance(name, str)) or not (ver is None or (type(ver) is int)):
        raise ValueError("header outside the modelled domain")
    nested = s.get("molecule")
    return "(Build_schema_doc %s %s %s %s)" % (_some(name, cstr), _some(ver, coqrun.cz), csmol(s),
                                                 "None" if nested is None else f"(Some {csmol(nested)})")


EK9 = {"ValidationError": "Validation", "NotAnElementError": "NotAnElement", "KeyError": "PyKeyError", "IndexError": "PyIndexError",
       "ValueError": "PyValueError", "TypeError": "PyTypeError", "AttributeError": "PyAttributeError"}


def impl_from_schema(doc):
    import contextlib
    import io
    from qcelemental.molparse import from_schema
    try:
        with contextlib.redirect_stdout(io.StringIO()):
            r = from_schema(copy.deepcopy(doc))
    except Exception as e:
        return ("Err", type(e).__name__)
    return ("Ok", canon_molrec(r))


def cout(out, f):
    if out[0] == "Ok":
        return f"(Ok {f(out[1])})"
    return f"(Err {EK9.get(out[1], 'PyAssertion')})"


SCHEMA_NAMES = ["qcschema_molecule", "qcschema_input", "qc_schema_input", "qcschema", "qc_schema", "QCSchema_input", "", "schema",
                "qcschema_output", "qcschema_moleculex", "qcschema_mol", "qc_schem", " qcschema_input"]


def damage(rng, doc):
    """one realistic damage to an exported schema dictionary (JSON-able form); returns (what, damaged)"""
    d = copy.deepcopy(doc)
    ms = d["molecule"] if "molecule" in d else d
    nat = len(ms["symbols"])
    k = rng.randint(0, 15)
    if k == 0:
        d["schema_name"] = rng.choice(SCHEMA_NAMES)
        return "schema_name", d
    if k == 1:
        d["schema_version"] = rng.choice([1, 2, 3, 0])
        return "schema_version", d
    if k == 2:
        d.pop(rng.choice(["schema_name", "schema_version"]), None)
        return "header_key_removed", d
    if k == 3:
        d["schema_name"], d["schema_version"] = rng.choice(SCHEMA_NAMES), rng.choice([1, 2])
        return "header_both", d
    if k == 4:
        ms.pop("fragments", None)
        for key in ("fragment_charges", "fragment_multiplicities"):
            if rng.random() < 0.7:
                ms.pop(key, None)
        return "fragments_removed", d
    if k == 5:
        idx = list(range(nat))
        rng.shuffle(idx)
        ms["fragments"] = [idx[:1], idx[1:]] if nat > 1 else [idx]
        return "fragments_shuffled", d
    if k == 6:
        ms["fragments"] = rng.choice([[], [[]], [list(range(nat)), []], [list(range(1, nat + 1))], [list(range(nat - 1))] if nat > 1 else [[0, 1]],
                                      [list(range(nat)) + [nat]], [[0] * nat], [[i] for i in range(nat)][::-1], [list(range(nat))[::-1]]])
        return "fragments_odd", d
    if k == 7:
        key = rng.choice(["masses", "atomic_numbers", "mass_numbers", "atom_labels", "real", "symbols"])
        if key in ms and len(ms[key]):
            ms[key] = list(ms[key]) + [ms[key][-1]] if rng.random() < 0.5 else list(ms[key])[:-1]
        return "column_length", d
    if k == 8:
        g = list(np.asarray(ms["geometry"]).reshape(-1))
        ms["geometry"] = g[:-1] if rng.random() < 0.5 else g + [9.5] * rng.choice([1, 3])
        return "geometry_length", d
    if k == 9:
        ms.pop(rng.choice(["geometry", "symbols", "masses", "real", "atomic_numbers", "mass_numbers", "atom_labels", "molecular_charge",
                           "molecular_multiplicity", "fix_com", "fix_orientation", "fragment_charges", "fragment_multiplicities", "validated"]), None)
        return "key_removed", d
    if k == 10:
        i = rng.randrange(nat)
        which = rng.choice(["symbols", "mass_numbers", "atomic_numbers"])
        col = list(ms[which])
        col[i] = {"symbols": rng.choice(["Xx", "He", "U"]), "mass_numbers": rng.choice([999, -1, 4]), "atomic_numbers": rng.choice([2, 92, 0])}[which]
        ms[which] = col
        return "nuclear_clue", d
    if k == 11 and "fragments" in ms and len(ms["fragments"]) > 1:
        fr = [list(f) for f in ms["fragments"]]
        fr[0], fr[1] = fr[1], fr[0]
        ms["fragments"] = fr
        return "fragments_swapped", d
    if k == 12 and "molecule" in d:
        d.pop("molecule")
        return "nested_removed", d
    if k == 13 and "molecule" not in d:
        d2 = {"schema_name": d["schema_name"], "schema_version": d["schema_version"], "molecule": {x: y for x, y in d.items() if x not in ("schema_name", "schema_version")}}
        return "nested_instead_of_flat", d2
    if k == 14:
        ms["real"] = [not bool(x) for x in ms["real"]]
        return "real_flipped", d
    if k == 15 and nat > 1:
        g = list(np.asarray(ms["geometry"]).reshape(-1))
        g[3:6] = [g[0], g[1], g[2] + rng.choice([0.0, 0.05, 0.0999, 0.11])]
        ms["geometry"] = g
        return "atoms_close", d
    return "none", d


def trans_cases(ctx, corr):
    """molrecs accepted by from_arrays (Bohr) through to_schema x {1,2} x np_out and back; damaged dictionaries through from_schema.
    Returns the Gallina cases of check_trans / check_from_schema with their replay records."""
    import contextlib
    import io
    from qcelemental.molparse import from_arrays, to_schema
    rng = ctx.rng
    tterms, tmeta, dterms, dmeta = [], [], [], []
    xterms, xmeta = _STATE.setdefault("xterms", []), _STATE.setdefault("xmeta", [])
    del xterms[:], xmeta[:]
    n = 700 if ctx.thorough else 130
    pool = [dict(a) for a in MOLREC_CORPUS if a.get("units") == "Bohr"]
    for i in range(n):
        arrays = pool[i] if i < len(pool) else gen_molrec_arrays(rng)
        arrays = dict(arrays, units="Bohr")
        arrays.pop("input_units_to_au", None)
        if rng.random() < 0.15 and i >= len(pool):
            arrays["input_units_to_au"] = rng.choice([1.0, 1.0000001])
        try:
            with contextlib.redirect_stdout(io.StringIO()):
                m0 = from_arrays(speclabel=False, verbose=0, **copy.deepcopy(arrays))
        except Exception:
            corr.hit("trans_molrec_refused")
            continue
        try:
            mterm = cmolrec(canon_molrec(m0))
        except ValueError:
            corr.hit("trans_outside_model_domain")
            continue
        for v in (1, 2):
            np_out = rng.random() < 0.5
            try:
                s = to_schema(m0, dtype=v, np_out=np_out)
                exported = ("Ok", s)
            except Exception as e:
                exported = ("Err", type(e).__name__)
            back = impl_from_schema(s) if exported[0] == "Ok" else ("Err", "ValidationError")
            if exported[0] == "Ok" and back[0] == "Ok":
                # name / comment through the translation (Model/SchemaExtras.v)
                try:
                    from qcelemental.molparse import from_schema as _fs
                    from qcelemental.molparse.to_string import formula_generator
                    ms_ = s["molecule"] if v == 1 else s
                    with contextlib.redirect_stdout(io.StringIO()):
                        raw_back = _fs(copy.deepcopy(s))
                    ex = lambda d_: "(Build_extras %s %s)" % (_some(d_.get("name"), cstr), _some(d_.get("comment"), cstr))
                    vals = [m0.get("name"), m0.get("comment"), ms_.get("name"), ms_.get("comment"), raw_back.get("name"), raw_back.get("comment")]
                    if all(x is None or (isinstance(x, str) and x.isascii()) for x in vals):
                        xterms.append(f"({ex(m0)}, {cstr(formula_generator(m0['elem']))}, {ex(ms_)}, {ex(raw_back)})")
                        xmeta.append({"molrec": arrays, "dtype": v, "np_out": np_out})
                        corr.count("extras")
                        corr.hit("extras_" + ("named" if "name" in m0 else "unnamed") + ("_comment" if "comment" in m0 else ""))
                except Exception as e:
                    corr.errors.append(f"extras case could not be built: {type(e).__name__}: {e}"[:200])
            try:
                tterms.append(f"({mterm}, {coqrun.cz(v)}, {cout(exported, cdoc)}, {cout(back, cmolrec)})")
            except ValueError:
                corr.hit("trans_outside_model_domain")
                continue
            tmeta.append({"molrec": arrays, "dtype": v, "np_out": np_out})
            corr.count("trans")
            corr.hit(f"trans_v{v}_" + ("np" if np_out else "list"))
            corr.hit("trans_back_" + (back[0] if back[0] == "Ok" else back[1]))
            if exported[0] != "Ok":
                continue
            sj = to_schema(m0, dtype=v, np_out=False)
            for _ in range(3 if ctx.thorough else 2):
                what, dd = damage(rng, sj)
                if what == "none":
                    continue
                out = impl_from_schema(dd)
                try:
                    dterms.append(f"({cdoc(dd)}, {cout(out, cmolrec)})")
                except (ValueError, TypeError, KeyError):
                    corr.hit("damaged_outside_model_domain")
                    continue
                dmeta.append({"schema": dd, "damage": what})
                corr.count("damaged-schema")
                corr.hit("damage_" + what)
                corr.hit("damaged_" + (out[0] if out[0] == "Ok" else out[1]))
    return tterms, tmeta, dterms, dmeta


# ------------------------------------------------------------------------------------------------
# histories: several observations on ONE live instance must each equal the same observation on a fresh twin

HISTORY_CALLS = ["emitted", "dict", "dict_json", "json", "serialize_json", "schema", "hash", "emitted_copy", "dict_exclude"]


def _observe(inst, call):
    if call == "emitted":
        return json.loads(emitted(inst))
    if call == "dict":
        return inst.dict()
    if call == "dict_json":
        return inst.dict(encoding="json")
    if call == "json":
        return json.loads(inst.json())
    if call == "serialize_json":
        return json.loads(inst.serialize("json"))
    if call == "schema":
        return json.loads(json.dumps(type(inst).schema(), sort_keys=True))
    if call == "hash":
        return inst.get_hash() if hasattr(inst, "get_hash") else None
    if call == "emitted_copy":
        return json.loads(emitted(inst.copy()))
    if call == "dict_exclude":
        return inst.dict(exclude={"provenance", "extras"})
    raise ValueError(call)


def history_oracle(recipe, calls):
    """run `calls` in order on one live instance; each answer must equal the answer of a fresh twin that saw nothing else"""
    import contextlib
    import io
    with contextlib.redirect_stdout(io.StringIO()):
        try:
            live = build(recipe)
        except Exception as e:
            raise Refused(f"{type(e).__name__}: {e}") from e
        bad = []
        for i, call in enumerate(calls):
            try:
                got = _observe(live, call)
            except Exception as e:
                got = ("raised", type(e).__name__, str(e)[:200])
            try:
                want = _observe(build(recipe), call)
            except Exception as e:
                want = ("raised", type(e).__name__, str(e)[:200])
            if not _eq(got, want):
                bad.append({"what": f"after {calls[:i]} on the same {recipe['model']} instance, {call} differs from {call} on a fresh instance",
                            "observed": {"live": repr(got)[:600], "fresh": repr(want)[:600]}})
                break
    return bad


def geom_init_cases(rng, n):
    """constructions Molecule(validate=..., **payload) over the validate argument, the payload's validated flag, the private
    _geometry_prep flag and geometry_noise, with coordinates of 17 significant digits: what the implementation is seen to do to the
    coordinates (kept / float_prep at which number of decimals) -> Gallina case of check_init, with its replay record"""
    import contextlib
    import io
    from qcelemental.models import Molecule
    from qcelemental.models.molecule import float_prep
    out = []
    with contextlib.redirect_stdout(io.StringIO()):
        base = Molecule(symbols=["He", "Ne", "Ar"], geometry=[0, 0, 0, 0, 0, 3, 0, 4, 0]).dict()
    for _ in range(n):
        g = [c + rng.uniform(0.1, 0.9) * 1.0000000123456789 for c in [0.0, 0.0, 0.0, 0.0, 0.0, 3.0, 0.0, 4.0, 0.0]]
        va = rng.choice([None, None, True, False])
        vk = rng.choice([None, True, True, False])
        gp = rng.random() < 0.25
        nk = rng.choice([None, None, 5, 8, 9, 11, 13])
        kw = {k: v for k, v in base.items() if k != "validated"}
        kw["geometry"] = list(g)
        if vk is not None:
            kw["validated"] = vk
        if gp:
            kw["_geometry_prep"] = True
        if nk is not None:
            kw["geometry_noise"] = nk
        if va is not None:
            kw["validate"] = va
        try:
            with contextlib.redirect_stdout(io.StringIO()):
                mol = Molecule(**copy.deepcopy(kw))
        except Exception:
            continue
        stored = np.asarray(mol.geometry, dtype=float).reshape(-1)
        given = np.asarray(g, dtype=float)
        keep = bool(np.array_equal(stored, given))
        match = [k for k in range(0, 15) if np.array_equal(stored, float_prep(given.copy(), k))]
        if keep and not match:
            seen = "GKeep"
        elif len(match) == 1 and not keep:
            seen = f"(GPrep {coqrun.cz(match[0])})"
        else:
            seen = None
        meta = {"init": {k: v for k, v in kw.items() if k in ("geometry", "validated", "_geometry_prep", "geometry_noise", "validate")},
                "seen": seen, "stored": stored.tolist(), "unexplained": not keep and not match}
        term = None
        if seen is not None:
            term = "(false, %s, %s, %s, %s, %s)" % (copt(va, cbool), cbool(bool(vk)), cbool(gp), copt(nk, coqrun.cz), seen)
        out.append((term, meta))
    return out


def geom_init_replay(case):
    import contextlib
    import io
    from qcelemental.models import Molecule
    from qcelemental.models.molecule import float_prep
    with contextlib.redirect_stdout(io.StringIO()):
        base = Molecule(symbols=["He", "Ne", "Ar"], geometry=[0, 0, 0, 0, 0, 3, 0, 4, 0]).dict()
        kw = {k: v for k, v in base.items() if k != "validated"}
        kw.update(copy.deepcopy(case["init"]))
        mol = Molecule(**kw)
    stored = np.asarray(mol.geometry, dtype=float).reshape(-1)
    given = np.asarray(case["init"]["geometry"], dtype=float)
    keep = bool(np.array_equal(stored, given))
    match = [k for k in range(0, 15) if np.array_equal(stored, float_prep(given.copy(), k))]
    if keep and not match:
        return "GKeep", False
    if len(match) == 1 and not keep:
        return f"(GPrep {match[0]})", False
    return None, not keep and not match


def run_cases(tag, fn, terms, shard, ty, req=None):
    """eval_bad_indices, re-running (in smaller shards) the shards whose coqc was killed without any output:
    out-of-memory kills and timeouts on an overloaded machine are not verdicts."""
    bad, errors = set(), []
    todo, size = list(range(len(terms))), shard
    for attempt in range(4):
        b, e = coqrun.eval_bad_indices(tag + "r" * attempt, req or REQ, "", fn, [terms[i] for i in todo], shard=size, ty=ty, timeout=1800)
        bad |= {todo[i] for i in b}
        again = []
        for k, out in e:
            # a verdict-free failure (killed without output, or the shard's files vanished under a concurrent run) is retried
            if out.strip() and "Can't open" not in out and "No such file" not in out:
                errors.append((todo[k], out))
            else:
                again.extend(todo[k:k + size])
        todo, size = again, max(8, size // 3)
        if not todo:
            break
    if todo:
        errors.append((todo[0], f"coqc was killed without output four times ({len(todo)} cases not evaluated)"))
    return sorted(bad), errors


def correspond(ctx):
    corr = Corr()
    corr.rule = ("an instance is non-trivial if the implementation accepted it and emitted JSON; distinct = distinct emitted JSON text "
                 "per model; mutated documents are counted separately (distinct documents)")
    rng = ctx.rng
    per_model = 1000 if ctx.thorough else 160
    n_mut = 3 if ctx.thorough else 2
    recipes = [("corpus", r) for r in CORPUS]
    cover = {}
    for name in tr.SIX:
        k = per_model * (3 if name == "Molecule" else 1)
        for _ in range(k):
            recipes.append((name, retype_arrays(rng, gen_recipe(rng, name), cover)))
    inst_terms, inst_meta, json_terms, json_meta, split_terms, split_meta = [], [], [], [], [], []
    seen_docs = set()
    built = 0
    for stream, rc in recipes:
        try:
            probs, info = oracle(rc)
        except Refused as e:
            # the generator proposes, the implementation disposes: refused inputs are not instances
            corr.hit("refused_by_implementation")
            if not str(e).startswith(("ValidationError", "MoleculeFormatError")):
                corr.hit("refused_with_" + str(e).split(":")[0])
            continue
        except Exception as e:
            corr.failures.append({"stream": "instances", "case": {"recipe": rc}, "what": f"unexpected {type(e).__name__}: {e}"[:300],
                                  "observed": None})
            continue
        built += 1
        name = rc["model"]
        corr.count("instances:" + name)
        corr.hit("model_" + name)
        for spec in nd_specs(rc.get("kwargs")):
            corr.hit("nd_dtype_" + spec["dtype"])
            corr.hit("nd_order_" + spec["order"])
        for op in rc.get("derive") or []:
            corr.hit("derive_" + op["op"])
        if "geometry_noise" in (rc.get("kwargs") or {}):
            corr.hit("geometry_noise_given")
        for p in probs:
            corr.failures.append({"stream": "instances", "case": {"recipe": rc}, "what": p["what"], "observed": p["observed"]})
        key = name + info["text"]
        if key in seen_docs:
            continue
        seen_docs.add(key)
        if not tr.is_ascii_json(info["doc"]):
            corr.hit("skipped_non_latin1")
            continue
        corr.nontriv({"m": name, "t": info["text"]})
        if len(corr.samples) < 4 and stream != "corpus" and len(info["text"]) < 600:
            corr.sample({"model": name, "emitted": info["text"]})
        _, _, vstrip, _ = schema_of(name)
        try:
            term = cinst(name, False, info["inst"], info["doc"], not info["errors"], vstrip.is_valid(info["doc"]))
        except ValueError as e:
            corr.hit("skipped_outside_model_domain")
            continue
        inst_terms.append(term)
        inst_meta.append(rc)
        if info["core"] is not None:
            nat, seps, frs, back = info["core"]
            split_terms.append(f"({cn(nat)}, {clist(seps, cn)}, {clist(frs, lambda f: clist(f, cn))}, {clist(back, cn)})")
            split_meta.append(rc)
            corr.count("split")
        for im in range(n_mut):
            md = mutate(rng, info["doc"]) if im % 2 == 0 else directed(rng, info["doc"])
            if not tr.is_ascii_json(md):
                continue
            s, v, _, _ = schema_of(name)
            try:
                ok = v.is_valid(md)
                jt = tr.cjson(md)
            except Exception:
                continue
            corr.count("mutated")
            corr.hit("mutated_valid" if ok else "mutated_invalid")
            if not ok:
                for e in v.iter_errors(md):
                    corr.hit("reject_" + str(e.validator))
            json_terms.append(f"({cstr(name)}, {jt}, {cbool(ok)})")
            json_meta.append((name, md, ok))
    # histories on one live object (a memo keyed too coarsely, state left behind by an earlier call)
    hist_pool = [rc for st, rc in recipes if "kwargs" in rc or "from_data" in rc]
    for _ in range(900 if ctx.thorough else 150):
        rc = rng.choice(hist_pool)
        calls = [rng.choice(HISTORY_CALLS) for _ in range(rng.randint(3, 6))]
        try:
            probs = history_oracle(rc, calls)
        except Refused:
            continue
        corr.count("history")
        for c_ in calls:
            corr.hit("history_" + c_)
        for p_ in probs:
            corr.failures.append({"stream": "history", "case": {"recipe": rc, "history": calls}, "what": p_["what"], "observed": p_["observed"]})
    # the module-level singletons: Model.schema() is still what it was when first read
    for name in tr.SIX:
        corr.count("schema-stable")
        first = _SCHEMA_TEXT.get(name)
        now = json.dumps(models()[name].schema(), sort_keys=True)
        if first is not None and first != now:
            corr.failures.append({"stream": "schema-stable", "case": {"schema_of": name}, "what": f"{name}.schema() changed during the run",
                                  "observed": {"first": first[:400], "now": now[:400]}})
    # known-finding probes (their schema failures are reported through `failures` and matched by KNOWN)
    for fid, rc, lax in KNOWN_PROBES:
        try:
            probs, info = oracle(rc)
        except Exception as e:
            corr.hit("known_probe_refused")
            continue
        corr.count("known-probes")
        for p in probs:
            corr.failures.append({"stream": "known-probes", "case": {"recipe": rc}, "what": p["what"], "observed": p["observed"]})
        _, _, vstrip, _ = schema_of(rc["model"])
        inst_terms.append(cinst(rc["model"], lax, info["inst"], info["doc"], not info["errors"], vstrip.is_valid(info["doc"])))
        inst_meta.append(rc)
    for arrays in KNOWN_MOLREC_PROBES:
        try:
            probs, _ = molrec_oracle(arrays)
        except Refused:
            corr.hit("known_probe_refused")
            continue
        corr.count("known-probes")
        for p_ in probs:
            corr.failures.append({"stream": "known-probes", "case": {"molrec": arrays}, "what": p_["what"], "observed": p_["observed"]})
    n_molrec = 2500 if ctx.thorough else 400
    # records held as plain lists (from_arrays(np_out=False): the json-able form, what unnp() / a JSON file give) next to ndarray ones
    molrec_corpus = list(MOLREC_CORPUS) + [dict(a, np_out=False) for a in MOLREC_CORPUS[:3]]
    for i in range(n_molrec + len(molrec_corpus)):
        arrays = molrec_corpus[i] if i < len(molrec_corpus) else gen_molrec_arrays(rng)
        if i >= len(molrec_corpus) and rng.random() < 0.25:
            arrays["np_out"] = False
        corr.hit("molrec_form_" + ("list" if arrays.get("np_out") is False else "ndarray"))
        try:
            probs, core = molrec_oracle(arrays)
        except Refused:
            corr.hit("molrec_refused")
            continue
        corr.count("molrec")
        corr.nontriv({"molrec": arrays})
        if "mass" in arrays:
            corr.hit("molrec_user_masses")
        for p_ in probs:
            corr.failures.append({"stream": "molrec", "case": {"molrec": arrays}, "what": p_["what"], "observed": p_["observed"]})
        if core is not None:
            nat, seps, frs, back = core
            split_terms.append(f"({cn(nat)}, {clist(seps, cn)}, {clist(frs, lambda f: clist(f, cn))}, {clist(back, cn)})")
            split_meta.append({"model": "molrec", "arrays": arrays})
            corr.count("split")
    # several exports from one live record, copy=False and copy=True interleaved, each judged against the original values
    hist_corpus = [({"elem": ["O", "H", "H"], "geom": [0, 0, 0, 0, 0.757, 0.587, 0, -0.757, 0.587], "units": "Angstrom"}, [[2, True, False], [1, False, True]]),
                   ({"elem": ["He", "Ne"], "geom": [0.5, 0, 0, 0, 0, 3.0], "units": "Angstrom", "input_units_to_au": IU_BASE * 1.012}, [[1, False, False], [2, True, False], [2, False, True]]),
                   ({"elem": ["He", "Ne"], "geom": [0.5, 0, 0, 0, 0, 3.0], "units": "Bohr"}, [["psi4", True, False], [2, True, False], [1, False, True]]),
                   ({"elem": ["He", "Ne"], "geom": [0.5, 0, 0, 0, 0, 3.0], "units": "Bohr"}, [[2, True, None, "edit"], [1, True, None, "edit"], ["psi4", True, None, "edit"], [2, False, None]]),
                   ({"elem": ["O", "H", "H"], "geom": [0, 0, 0, 0, 0.757, 0.587, 0, -0.757, 0.587], "units": "Angstrom"}, [[1, True, None, "edit"], [2, True, True, "edit"], [2, False, None, "edit"]]),
                   ({"elem": ["He", "Ne"], "geom": [0.5, 0, 0, 0, 0, 3.0], "units": "Angstrom", "np_out": False}, [[2, True, None, "edit"], [1, False, None], ["psi4", True, True, "edit"]])]
    for i in range((900 if ctx.thorough else 160) + len(hist_corpus)):
        if i < len(hist_corpus):
            arrays, exports = hist_corpus[i]
        else:
            arrays, exports = gen_molrec_arrays(rng), gen_exports(rng)
            if arrays["units"] == "Bohr" and rng.random() < 0.5:
                arrays["units"] = "Angstrom"
            if rng.random() < 0.3:
                arrays["np_out"], exports = False, list_form_exports(exports)
        try:
            probs = molrec_history_oracle(arrays, exports)
        except Refused:
            corr.hit("molrec_history_refused")
            continue
        except Exception as e:
            probs = [{"what": f"exports from one live molrec raised {type(e).__name__}: {e}"[:300], "observed": None}]
        corr.count("molrec-history")
        corr.hit("molrec_history_" + arrays["units"] + ("_own_factor" if "input_units_to_au" in arrays else ""))
        if any(e_[2] is False for e_ in exports[:-1]):
            corr.hit("molrec_history_copy_false_then_more")
        if any(e_[2] is None for e_ in exports):
            corr.hit("molrec_history_copy_omitted_" + ("list_form" if arrays.get("np_out") is False else "ndarray_form"))
        if any("edit" in e_[3:] for e_ in exports[:-1]):
            corr.hit("molrec_history_export_edited_then_more")
        for p_ in probs:
            corr.failures.append({"stream": "molrec-history", "case": {"molrec": arrays, "exports": exports}, "what": p_["what"], "observed": p_["observed"]})
    # every ndarray field given a bare scalar: fields with a shape-guarding validator must refuse it; for the others the
    # emitted scalar fails the schema (known finding) - which is how the generated guard table is tied to the code
    if _STATE.get("translate_ok"):
        allf = sorted(_STATE.get("array_fields") or [])
        for (m_, a_, g_), rc in [((m_, a_, g_), rc) for (m_, a_, g_) in allf for rc in scalar_probe_recipes([(m_, a_)])]:
            corr.count("scalar-probe")
            try:
                probs, info = oracle(rc)
            except Refused:
                corr.hit("scalar_refused_guarded" if g_ else "scalar_refused_unguarded")
                continue
            except Exception as e:
                probs = [{"what": f"unexpected {type(e).__name__}: {e}"[:300], "observed": None}]
            corr.hit("scalar_accepted_guarded" if g_ else "scalar_accepted_unguarded")
            for p_ in probs:
                corr.failures.append({"stream": "scalar-probe", "case": {"recipe": rc}, "what": p_["what"], "observed": p_["observed"]})
    # every array-typed field handed an ndarray of every dtype class (booleans, narrow / unsigned / big-endian integers, half / single
    # precision, big-endian floats, object strings): the emitted JSON must validate, Molecules must survive their dictionary
    try:
        probes = dtype_probe_recipes()
    except Exception as e:
        probes = []
        corr.errors.append(f"dtype probe: the models' field tables could not be read ({type(e).__name__}: {e})"[:300])
    for owner, alias, dt, cands in probes:
        done = False
        for rc in cands:
            try:
                probs, info = oracle(rc)
            except Refused:
                continue
            except Exception as e:
                probs, info = [{"what": f"unexpected {type(e).__name__}: {e}"[:300], "observed": None}], None
            if info is not None and f'"{alias}"' not in info["text"]:
                continue              # the field was dropped on the way (protocols): not a probe of it
            done = True
            corr.count("dtype-probe")
            corr.hit("dtype_probe_" + dt)
            for p_ in probs:
                corr.failures.append({"stream": "dtype-probe", "case": {"recipe": rc}, "what": p_["what"], "observed": p_["observed"]})
            if rc["model"] != "Molecule":
                break
        if not done:
            corr.hit("dtype_probe_refused")
            corr.hit(f"dtype_probe_refused_{owner}.{alias}")
    for rc in MUST_REJECT:
        corr.count("must-reject")
        try:
            probs, info = oracle(rc)
        except Refused:
            corr.hit("must_reject_refused")
            continue
        except Exception as e:
            probs, info = [{"what": f"unexpected {type(e).__name__}: {e}"[:300], "observed": None}], None
        corr.failures.append({"stream": "must-reject", "case": {"recipe": rc, "must_reject": True},
                              "what": "an input that used to exhibit a repaired defect (scalar / wrong size in a shaped ndarray field) is accepted again"
                                      + ("; " + probs[0]["what"] if probs else ""),
                              "observed": (probs[0]["observed"] if probs else (info or {}).get("text"))})
    # unit factor branch
    fterms, fmeta = [], []
    for kind, (mu, u, iu, dt), obs in factor_cases(rng, 400 if ctx.thorough else 120):
        corr.count("factor")
        if kind == "refused":
            corr.hit("factor_refused")
            if dt in (1, 2) and u == "Bohr":
                corr.failures.append({"stream": "factor", "case": {"units": mu, "requested": u, "iu2au": iu, "dtype": dt},
                                      "what": "to_schema refused a Bohr export", "observed": None})
            if u not in ("Bohr", "Angstrom"):
                corr.hit("factor_other_unit_" + ("refused" if obs == "ValidationError" else "unknown_to_constants"))
                if obs != "ValidationError" and known_length_unit(mu, u):
                    corr.failures.append({"stream": "factor", "case": {"units": mu, "requested": u, "iu2au": iu, "dtype": dt},
                                          "what": f"to_schema(units={u!r}) (a length unit qcel.constants knows, not allowed for this dtype) was refused with "
                                                  f"a bare {obs} instead of ValidationError", "observed": obs})
            continue
        conv, seen = obs
        if dt in (1, 2) and u != "Bohr" and (u == "Angstrom" or not any(abs(float(seen) - x) <= 1e-6 * abs(x) for x in bohr_x(mu, iu) + bohr_x(mu, None))):
            corr.failures.append({"stream": "factor", "case": {"units": mu, "requested": u, "iu2au": iu, "dtype": dt},
                                  "what": f"QCSchema export with units={u!r} was not refused and its geometry is not in Bohr: an atom stored at x = 1.0 {mu} "
                                          f"is exported at x = {float(seen)!r}", "observed": float(seen)})
        if dt == "psi4" and u not in ("Bohr", "Angstrom"):
            corr.hit("factor_psi4_other_unit_accepted")
        if mu == "Angstrom" and u == "Bohr" and not any(abs(float(seen) * b - 1) < 1e-6 for b in BOHR2ANG) and iu is None:
            corr.failures.append({"stream": "factor", "case": {"units": mu, "requested": u, "iu2au": iu, "dtype": dt},
                                  "what": "Angstrom -> Bohr factor is not 1/bohr2angstroms", "observed": float(seen)})
        if mu == "Angstrom" and u == "Bohr" and iu is not None and abs(iu - IU_BASE) < 0.05 and float(seen) != iu:
            corr.failures.append({"stream": "factor", "case": {"units": mu, "requested": u, "iu2au": iu, "dtype": dt},
                                  "what": "an Angstrom record's own input_units_to_au (inside the window from_arrays accepts) is not the factor "
                                          "applied to its coordinates on export to Bohr", "observed": float(seen)})
        if mu == "Bohr" and u == "Bohr" and seen != 1:
            corr.failures.append({"stream": "factor", "case": {"units": mu, "requested": u, "iu2au": iu, "dtype": dt},
                                  "what": "Bohr -> Bohr export changed the coordinates", "observed": float(seen)})
        if conv is None:
            continue
        fterms.append(f"({lunit(mu)}, {lunit(u)}, {copt(None if iu is None else Fraction(iu), cq)}, {cq(conv)}, {cq(seen)})")
        fmeta.append({"units": mu, "requested": u, "iu2au": iu, "dtype": dt, "observed_factor": float(seen)})
    tterms, tmeta, dterms, dmeta = trans_cases(ctx, corr)
    gterms, gmeta = [], []
    for term, meta in geom_init_cases(rng, 600 if ctx.thorough else 150):
        corr.count("geom-init")
        corr.hit("geom_init_" + ("ambiguous" if meta["seen"] is None else "kept" if meta["seen"] == "GKeep" else "float_prep"))
        if term is None and not meta["unexplained"]:
            continue            # (kept and rounded coincide, or two numbers of decimals give the same coordinates: nothing to compare)
        if term is None:
            corr.failures.append({"stream": "geom-init", "case": meta, "what": "Molecule.__init__ stores coordinates that are neither the ones given "
                                  "nor float_prep of them at one number of decimals", "observed": meta["stored"]})
            continue
        gterms.append(term)
        gmeta.append(meta)
    ctx.log(f"{built} instances built ({len(inst_terms)} distinct to the model), {len(json_terms)} mutated documents, "
            f"{len(split_terms)} split cases, {len(fterms)} factor cases, {len(tterms)} whole-record translations, "
            f"{len(dterms)} damaged schema dictionaries")
    if not _STATE["translate_ok"]:
        corr.notes.append("translator failed: the Coq side of the correspondence was skipped (Gen files are stale)")
        return corr
    bad, errors = run_cases("C09i", "check_instance", inst_terms, 40, "inst_case")
    corr.errors.extend(f"instances shard {k}: {e}" for k, e in errors)
    for b in bad[:6]:
        parts, _ = coqrun.eval_terms("C09i", REQ, "", [f"check_parts {inst_terms[b]}"])
        corr.disagreements.append({"stream": "instances", "case": {"recipe": inst_meta[b]},
                                   "impl": "expected all true: [inhabits descriptor; modelled emission == emitted JSON; verdict == jsonschema; "
                                           "verdict without uniqueItems == jsonschema; duplicate-free descriptors <-> fully valid]",
                                   "model": (parts or ["?"])[0]})
    bad, errors = run_cases("C09j", "check_json", json_terms, 120, "string * json * bool")
    corr.errors.extend(f"mutated shard {k}: {e}" for k, e in errors)
    for b in bad[:6]:
        name, md, ok = json_meta[b]
        corr.disagreements.append({"stream": "mutated", "case": {"model": name, "document": md}, "impl": f"jsonschema valid={ok}",
                                   "model": f"Gallina validator says otherwise"})
    bad, errors = run_cases("C09s", "check_split", split_terms, 500, "N * list N * list (list N) * list N")
    corr.errors.extend(f"split shard {k}: {e}" for k, e in errors)
    for b in bad[:6]:
        corr.disagreements.append({"stream": "split", "case": {"recipe": split_meta[b]}, "impl": split_terms[b], "model": "differs"})
    bad, errors = run_cases("C09t", "check_trans", tterms, 60, "molrec * Z * outcome schema_doc * outcome molrec", req=REQ_TRANS)
    corr.errors.extend(f"trans shard {k}: {e}" for k, e in errors)
    for b in bad[:6]:
        parts, _ = coqrun.eval_terms("C09t", REQ_TRANS, "", [f"let '(m, v, e, b) := {tterms[b]} in (to_schema_full m v Bohr 1, "
                                                               f"match e with Ok d => from_schema_full false d | Err k => Err k end)"])
        corr.disagreements.append({"stream": "trans", "case": tmeta[b], "impl": "to_schema / from_schema of the implementation (see replay)",
                                   "model": ((parts or ["?"])[0])[:1500]})
    bad, errors = run_cases("C09x", "check_from_schema", dterms, 60, "schema_doc * outcome molrec", req=REQ_TRANS)
    corr.errors.extend(f"damaged-schema shard {k}: {e}" for k, e in errors)
    for b in bad[:6]:
        parts, _ = coqrun.eval_terms("C09x", REQ_TRANS, "", [f"from_schema_full false (fst {dterms[b]})"])
        corr.disagreements.append({"stream": "damaged-schema", "case": dmeta[b], "impl": impl_from_schema(dmeta[b]["schema"])[:1] + (str(impl_from_schema(dmeta[b]["schema"])[1])[:600],),
                                   "model": ((parts or ["?"])[0])[:1500]})
    xterms, xmeta = _STATE.get("xterms") or [], _STATE.get("xmeta") or []
    bad, errors = run_cases("C09e", "check_extras", xterms, 500, "extras * string * extras * extras", req=REQ_EXTRAS)
    corr.errors.extend(f"extras shard {k}: {e}" for k, e in errors)
    for b in bad[:6]:
        corr.disagreements.append({"stream": "extras", "case": xmeta[b], "impl": xterms[b][:600],
                                   "model": "to_schema_extras / from_schema_extras (Model/SchemaExtras.v) say otherwise"})
    bad, errors = run_cases("C09g", "check_init", gterms, 500, "bool * option bool * bool * bool * option Z * geom_action", req=REQ_INIT)
    corr.errors.extend(f"geom-init shard {k}: {e}" for k, e in errors)
    for b in bad[:6]:
        corr.disagreements.append({"stream": "geom-init", "case": gmeta[b], "impl": gmeta[b]["seen"],
                                   "model": "init_geometry_action (Gen/MolGeomInit.v) says otherwise"})
    bad, errors = run_cases("C09f", "check_factor", fterms, 500, "lunit * lunit * option Q * Q * Q")
    corr.errors.extend(f"factor shard {k}: {e}" for k, e in errors)
    for b in bad[:6]:
        corr.disagreements.append({"stream": "factor", "case": fmeta[b], "impl": fmeta[b]["observed_factor"], "model": "geom_factor differs"})
    return corr


def scalar_probe_recipes(fields):
    """for each ndarray field: an instance that is given a bare scalar there (guarded fields must refuse it)"""
    he = {"symbols": ["He"], "geometry": [0, 0, 0]}
    out = []
    for model, alias in fields:
        if model == "AtomicResultProperties":
            out.append({"model": model, "kwargs": {"calcinfo_natom": 1, alias: 1.0}})
        elif model == "WavefunctionProperties":
            for restricted in ([True] if alias.endswith("_a") else [False]):
                out.append({"model": "AtomicResult", "kwargs": {
                    "molecule": he, "driver": "energy", "model": {"method": "hf"}, "protocols": {"wavefunction": "all"},
                    "provenance": {"creator": "x"}, "properties": {}, "return_result": 1.0, "success": True,
                    "wavefunction": {"basis": _basis([SHELL0]), "restricted": restricted, alias: 1.0}}})
        elif model == "Molecule":
            val = "He" if alias in ("symbols", "atom_labels") else (True if alias == "real" else 1)
            kw = {"validate": False, **he}
            kw[alias] = val
            out.append({"model": "Molecule", "kwargs": kw})
    return out


PROBE_DTYPES = {"f": ["bool", "int8", "uint16", "int64", "float16", "float32", ">f8"], "i": ["bool", "int8", "uint8", ">i2", "int64", "float64"],
                "b": ["bool", "uint8", "int64", "float32"], "U": ["<U8", ">U8", "O"]}
PROBE_SHAPES = [[3], [1], [1, 3], [3, 3], [1, 1], [9]]


def _probe_data(kind, dt, n, alias):
    if kind == "U":
        return ["He" if alias == "symbols" else "a"] * n
    if dt == "bool":
        return [i % 2 == 0 for i in range(n)]
    if kind == "b":
        return [float((i + 1) % 2) if dt.startswith("float") else (i + 1) % 2 for i in range(n)]
    if alias in ("atomic_numbers", "mass_numbers"):
        v = {"atomic_numbers": 2, "mass_numbers": 4}[alias]
        return [float(v) if dt.startswith("float") else v] * n
    if alias == "fragments":
        return list(range(n))
    vals = [(i % 3) for i in range(n)]
    return [float(v) + (0.5 if "f" in dt and i == 1 else 0.0) for i, v in enumerate(vals)] if ("f" in dt and dt != "bool") else vals


def dtype_probe_recipes():
    """for every array-typed field of the published models (read from the models' field tables at run time) and every class of
    ndarray dtype: candidate minimal instances (one per plausible shape) that hand the field such an array"""
    import qcelemental.models as qm
    from qcelemental.models.results import WavefunctionProperties
    from qcelemental.models.types import TypedArray
    he = {"symbols": ["He"], "geometry": [0, 0, 0]}
    out = []

    def fields_of(cls):
        for f in cls.__fields__.values():
            for c in [f] + list(f.sub_fields or []):
                if isinstance(c.type_, type) and issubclass(c.type_, TypedArray):
                    yield f.alias, (np.dtype(c.type_._dtype).kind if c.type_._dtype is not str else "U"), c.shape
                    break
    for cls in (qm.AtomicResultProperties, WavefunctionProperties, qm.Molecule, qm.AtomicResult):
        for alias, kind, fshape in fields_of(cls):
            for dt in PROBE_DTYPES.get(kind, []):
                cands = []
                for shape in (PROBE_SHAPES if cls is not qm.Molecule else ([[3], [1, 3]] if alias == "geometry" else [[1]])):
                    n = int(np.prod(shape))
                    val = nd(dt, _probe_data(kind, dt, n, alias), shape, "F" if len(shape) == 2 else "C")
                    if cls is qm.AtomicResultProperties:
                        cands.append({"model": "AtomicResultProperties", "kwargs": {"calcinfo_natom": 1, alias: val}})
                    elif cls is WavefunctionProperties:
                        cands.append({"model": "AtomicResult", "kwargs": {
                            "molecule": he, "driver": "energy", "model": {"method": "hf"}, "protocols": {"wavefunction": "all"},
                            "provenance": {"creator": "x"}, "properties": {}, "return_result": 1.0, "success": True,
                            "wavefunction": {"basis": _basis([SHELL0]), "restricted": alias.endswith("_a"), alias: val}}})
                    elif cls is qm.AtomicResult:
                        cands.append({"model": "AtomicResult", "kwargs": {
                            "molecule": he, "driver": "gradient", "model": {"method": "hf"}, "provenance": {"creator": "x"}, "properties": {},
                            alias: val, "success": True}})
                    else:
                        for validate in (None, False):
                            kw = {"symbols": ["He"], "geometry": [0.0, 0.0, 0.0]}
                            if validate is False:
                                kw["validate"] = False
                            kw[alias] = [nd(dt, _probe_data(kind, dt, 1, alias), [1], "C")] if fshape == 2 else val
                            cands.append({"model": "Molecule", "kwargs": kw})
                out.append((cls.__name__, alias, dt, cands))
    return out


def incompat_sites():
    """ask the checker where descriptors and schemas disagree (beyond the four known uniqueItems sites):
    schema paths per model, from `incompat` evaluated on the regenerated Gen files"""
    req = ["QV.Common.Outcome", "QV.Common.JsonS", "QV.Model.QCSchema", "QV.Gen.Schemas", "QV.Gen.FieldTypes"]
    terms = [f"incompat (uniq_env basis_unique_sites env) defs_{n} 64 [] (TModel {cstr(n)}) S_{n}" for n in tr.SIX]
    parts, out = coqrun.eval_terms("C09d", req, "", terms)
    if parts is None or len(parts) != len(terms):
        return None
    rep = {}
    for n, txt in zip(tr.SIX, parts):
        import re
        paths = ["/".join(re.findall(r'"([^"]*)"', grp)) for grp in re.findall(r"\[((?:\s*\"[^\"]*\"\s*;?)+)\]", txt)]
        if paths:
            rep[n] = paths
    return rep


def search(ctx, corr, reasons):
    """Something broke (translator / proof / disagreement): look harder for a failing input on the implementation."""
    if _STATE["translate_ok"] and any(r.get("kind") == "proof" for r in reasons):
        try:
            rep = incompat_sites()
        except Exception as e:  # diagnostics only
            rep = None
        if rep:
            ctx.log("descriptor/schema incompatibilities (beyond the known uniqueItems sites):", rep)
            for r in reasons:
                if r.get("kind") == "proof":
                    r["what"] += " | incompatible sites: " + json.dumps(rep)[:1500]
    found = []
    for d in corr.disagreements:
        if d["case"].get("molrec"):
            try:
                probs, _ = molrec_oracle(d["case"]["molrec"])
            except Exception:
                probs = []
            for p in probs:
                found.append({"stream": "search", "case": {"molrec": d["case"]["molrec"]}, "what": p["what"], "observed": p["observed"]})
        rc = d["case"].get("recipe")
        if rc:
            try:
                probs, _ = oracle(rc)
            except Exception:
                continue
            for p in probs:
                found.append({"stream": "search", "case": {"recipe": rc}, "what": p["what"], "observed": p["observed"]})
    if found:
        return found
    rng = ctx.rng
    cover = {}
    for i in range(6000 if ctx.thorough else 1500):
        name = tr.SIX[i % 6]
        rc = retype_arrays(rng, gen_recipe(rng, name), cover)
        if i % 6 == 0:
            arrays, exports = gen_molrec_arrays(rng), gen_exports(rng)
            try:
                for p in molrec_history_oracle(arrays, exports):
                    found.append({"stream": "search", "case": {"molrec": arrays, "exports": exports}, "what": p["what"], "observed": p["observed"]})
            except Exception:
                pass
        try:
            probs, _ = oracle(rc)
        except Refused:
            continue
        except Exception as e:
            probs = [{"what": f"unexpected {type(e).__name__}: {e}"[:300], "observed": None}]
        for p in probs:
            found.append({"stream": "search", "case": {"recipe": rc}, "what": p["what"], "observed": p["observed"]})
        if len(found) >= 3:
            break
    return found


def replay(ctx, rp):
    case = rp["case"]
    if "recipe" in case and "history" in case:
        try:
            probs = history_oracle(case["recipe"], case["history"])
        except Refused as e:
            return {"fails": False, "note": f"the implementation refuses this input: {e}"[:300]}
        return {"recipe": case["recipe"], "history": case["history"], "problems": probs, "fails": bool(probs)}
    if "schema_of" in case:
        a = json.dumps(models()[case["schema_of"]].schema(), sort_keys=True)
        b = json.dumps(models()[case["schema_of"]].schema(), sort_keys=True)
        return {"fails": a != b, "note": "Model.schema() read twice"}
    if "recipe" in case:
        try:
            probs, info = oracle(case["recipe"])
        except Refused as e:
            return {"fails": False, "note": f"the implementation refuses this input: {e}"[:300]}
        except Exception as e:
            return {"fails": True, "error": f"{type(e).__name__}: {e}"}
        if case.get("must_reject"):
            return {"recipe": case["recipe"], "emitted": info["text"][:2000], "problems": probs, "fails": True,
                    "note": "this input must be refused"}
        return {"recipe": case["recipe"], "emitted": info["text"][:2000], "problems": probs, "fails": bool(probs)}
    if "init" in case:
        got = geom_init_replay(case)
        return {"init": case["init"], "seen_now": got[0], "seen_then": case.get("seen"), "fails": got[1]}
    if "molrec" in case and "exports" in case:
        try:
            probs = molrec_history_oracle(case["molrec"], case["exports"])
        except Refused as e:
            return {"fails": False, "note": f"from_arrays refuses this input: {e}"[:300]}
        return {"molrec": case["molrec"], "exports": case["exports"], "problems": probs, "fails": bool(probs)}
    if "molrec" in case:
        try:
            probs, _ = molrec_oracle(case["molrec"])
        except Refused as e:
            return {"fails": False, "note": f"from_arrays refuses this input: {e}"[:300]}
        return {"molrec": case["molrec"], "problems": probs, "fails": bool(probs)}
    if "requested" in case:
        from qcelemental.molparse import from_arrays, to_schema
        m = from_arrays(geom=[1.0, 0.0, 0.0, 0.0, 0.0, 3.0], elem=["He", "He"], units="Bohr")
        m["units"] = case["units"]
        if case.get("iu2au") is not None:
            m["input_units_to_au"] = case["iu2au"]
        try:
            s = to_schema(m, dtype=case["dtype"], units=case["requested"])
            g = s["geom"] if case["dtype"] == "psi4" else (s["molecule"] if case["dtype"] == 1 else s)["geometry"]
            out = float(np.asarray(g).reshape(-1)[0])
        except Exception as e:
            out = f"{type(e).__name__}"
        iu = case.get("iu2au")
        rq = case["requested"]
        bad = (case["dtype"] in (1, 2) and rq != "Bohr" and not isinstance(out, str) and
               (rq == "Angstrom" or not any(abs(out - x) <= 1e-6 * abs(x) for x in bohr_x(case["units"], iu) + bohr_x(case["units"], None)))) or \
              (isinstance(out, str) and out != "ValidationError" and rq not in ("Bohr", "Angstrom") and known_length_unit(case["units"], rq)) or \
              (case["units"] == "Bohr" and case["requested"] == "Bohr" and out != 1.0) or \
              (case["units"] == "Angstrom" and case["requested"] == "Bohr" and iu is not None and abs(iu - IU_BASE) < 0.05 and out != iu)
        return {"case": case, "exported_x_of_unit_atom": out, "fails": bool(bad)}
    return {"fails": False, "note": "nothing to replay"}


def _errors_of(f):
    obs = f.get("observed")
    return obs.get("errors") if isinstance(obs, dict) else None


def _all_errors(errs, leaf_ok):
    """every error is a known leaf, or an anyOf one of whose branches fails only for known reasons"""
    if not errs:
        return False
    for e in errs:
        if e["validator"] == "anyOf" and e.get("branches"):
            if not any(_all_errors(br, leaf_ok) for br in e["branches"]):
                return False
        elif not leaf_ok(e):
            return False
    return True


def _only_unique_at(f, tails):
    def leaf_ok(e):
        sp = e["schema_path"]
        return e["validator"] == "uniqueItems" and sp[-1] == "uniqueItems" and any(sp[-len(t) - 1:-1] == t for t in tails)
    return _all_errors(_errors_of(f), leaf_ok)


def _known_unique_shells(f):
    # only: uniqueItems on BasisCenter.electron_shells, or on ElectronShell.angular_momentum
    return _only_unique_at(f, [["properties", "electron_shells"],
                               ["properties", "electron_shells", "items", "properties", "angular_momentum"]])


def _known_unique_ecp(f):
    return _only_unique_at(f, [["properties", "ecp_potentials"],
                               ["properties", "ecp_potentials", "items", "properties", "angular_momentum"]])


# the unguarded ndarray fields as pinned by theorem C09_unguarded_array_fields (plus Molecule.fragments items, handled below).
# Deliberately NOT the set regenerated from the source: a validator dropped later must be reported, not absorbed.
STILL_0D = {("WavefunctionProperties", "localized_fock_a"), ("WavefunctionProperties", "localized_fock_b"),
            ("Molecule", "atomic_numbers"), ("Molecule", "mass_numbers"), ("Molecule", "atom_labels")}


def _known_scalar_array(f):
    case = f.get("case") or {}
    if case.get("must_reject"):
        return False
    rc = case.get("recipe") or {}
    kw = rc.get("kwargs") or {}
    unguarded = STILL_0D
    wfn = {a for m, a in unguarded if m == "WavefunctionProperties"}
    mol = {a for m, a in unguarded if m == "Molecule"}

    def leaf_ok(e):
        # only: "type": "array" failing on a bare scalar that was given as a scalar to that very field, and only for
        # fields that have no shape-guarding validator (list read from the source by the translator)
        if e["validator"] != "type" or e["schema_path"][-1] != "type" or not e["path"] or "is not of type 'array'" not in e["message"]:
            return False
        path = list(e["path"])
        if len(path) >= 2 and path[-2] == "fragments" and path[-1].isdigit():      # an item of Molecule.fragments
            holder = kw
            for p in path[:-2]:
                holder = holder.get(p, {}) if isinstance(holder, dict) else {}
            fr = holder.get("fragments") if isinstance(holder, dict) else None
            return isinstance(holder, dict) and holder.get("validate") is False and isinstance(fr, list) \
                and int(path[-1]) < len(fr) and isinstance(fr[int(path[-1])], (int, float)) and not isinstance(fr[int(path[-1])], bool)
        fld = path[-1]
        holder = kw
        for p in path[:-1]:
            holder = holder.get(p, {}) if isinstance(holder, dict) else {}
        if not isinstance(holder, dict):
            return False
        if fld in wfn:
            ok_field = path[-2:-1] == ["wavefunction"]
        elif fld in mol:
            ok_field = holder.get("validate") is False
        else:
            ok_field = False
        v = holder.get(fld)
        return ok_field and (not isinstance(v, bool)) and isinstance(v, (int, float, str))
    return _all_errors(_errors_of(f), leaf_ok)


def _known_negative_separators(f):
    """only: the separators that came back are the non-negative equivalents of negative ones that from_arrays was given"""
    arrays = (f.get("case") or {}).get("molrec") or {}
    seps = arrays.get("fragment_separators")
    if not seps or not any(isinstance(x, int) and x < 0 for x in seps) or "changed 'fragment_separators'" not in f.get("what", ""):
        return False
    import re
    nat = len(arrays.get("elem") or [])
    obs = f.get("observed") or {}
    after = [int(x) for x in re.findall(r"-?\d+", re.sub(r"int64", "", str(obs.get("after", ""))))]
    return after == [x if x >= 0 else x + nat for x in seps] and all(-nat < x < nat for x in seps)


KNOWN = {"C09-negative-separators": _known_negative_separators, "C09-uniqueitems": _known_unique_shells, "C09-uniqueitems-ecp": _known_unique_ecp,
         "C09-scalar-array-0d": _known_scalar_array}

TRUSTED = [
    "hand-written Gallina models: Common/JsonS.v (JSON values, draft-04 validator for the keyword subset in use, relation Valid), "
    "Model/QCSchema.v (pydantic.v1 field descriptors, values, emission with unset/None dropped and ndarrays flattened, compat), "
    "Model/SchemaMol.v (np.split/cumsum index core and unit factor of to_schema/from_schema), Model/SchemaTrans.v (whole-record to_schema / "
    "from_schema incl. contiguize_from_fragment_pattern(throw_reorder=True), on C04's Model/MolRec.v molrec and from_arrays), "
    "Model/GeomInit.v (stored / hashed geometry over the generated branch; float_prep and _orient_molecule_internal are parameters)",
    "translator harness/translate/c09_schema.py (Model.schema() and __fields__ read at run time from the imported models; to_schema.py and "
    "from_schema.py ASTs -> unit branch, key tables, headers, recognition rules; from_arrays defaults from its signature; models/molecule.py "
    "AST -> geometry branch of Molecule.__init__, validate default, GEOMETRY_NOISE, shape of float_prep / get_hash / __eq__; name / comment "
    "statements of to_schema, from_schema, from_arrays, validate_and_fill_units; models/types.py TypedArray.validate pinned to "
    "np.asarray(v, dtype=field dtype); fail closed)",
    "pydantic.v1 validation ('a field declared with descriptor D holds an inhabitant of D') and json/jsonschema are modelled, not verified: "
    "checked on every generated instance (inhabitsb, emitted text == modelled emission, Gallina verdict == jsonschema verdict)",
    "regular expressions: only anchored literal alternations, read with ECMA semantics ('$' matches at the very end only)",
    "C04's model of from_arrays (Model/MolRec.v, tied to the code by C04's own correspondence) is reused, and C04_idempotent is the main lemma of "
    "the whole-record round trip; the record model of to_schema/from_schema is tied to the code by the pinned key tables (theorems over "
    "Gen/SchemaKeys.v) and by differential execution of whole molrecs and damaged dictionaries (streams trans, damaged-schema)",
]
ASSUMPTIONS = [
    "strings are latin-1, floats finite (NaN/inf are not JSON), dictionary keys are str",
    "clause C theorems: float_prep is idempotent at GEOMETRY_NOISE decimals (hypothesis of C09_revalidated_same_hashed_geometry; proved for C11's "
    "model of float_prep as C11_prep_idempotent); pydantic hands Molecule.__init__ the coordinates it was given (field validation only reshapes)",
    "Inh false: ndarray-typed fields hold arrays of at least one dimension (0-d arrays are the finding C09-scalar-array-0d: after e040dda only WavefunctionProperties.localized_fock_a/_b and Molecule(validate=False).atomic_numbers/mass_numbers/atom_labels)",
    "index core: fragment_separators are non-decreasing and within 0..nat (wf_seps); whole-record round trip: the molrec was accepted by from_arrays "
    "with tooclose / mtol / zero_ghost_fragments at from_arrays' defaults (the settings from_schema uses), is stored in Bohr, has at least one atom "
    "and non-negative separators (forced by the proof: C09_roundtrip_negative_separators_refuted); charges and multiplicities are integers in "
    "Model/MolRec.v; coordinates and masses are the exact decimals of the floats' shortest repr",
]
TECHNIQUE = ("Coq proof: generic soundness of a descriptor-vs-schema checker (induction on fuel, all instances), instantiated per model by "
             "vm_compute on schemas/descriptors regenerated from the code on every run; validator proved sound and complete for a relational "
             "spec; differential correspondence against pydantic/jsonschema; oracle on the implementation")
DESIGN_REF = "DESIGN.md §6 C09"
LEVEL_TEXT = (
    "Machine-checked (Coq 8.16.1), 48 theorems, all closed. CONFORMANCE. Generic: C09_compatible_sound (if compat z accepts descriptor D against "
    "schema S then the JSON emitted for EVERY inhabitant of D is Valid for S; z says whether plain ndarray fields may hold 0-d arrays; induction on "
    "fuel, unbounded over instances), C09_compatible_never_rejected, C09_validator_sound/_complete (the executable draft-04 validator decides "
    "the relation Valid), C09_inhabits_checker_sound, C09_strip_unique_weakens (removing uniqueItems only weakens a schema), "
    "C09_duplicate_free_enforced (converse checker enf: validity forces the uniqueItems-carrying lists to be duplicate-free), "
    "C09_incompat_sites_exact (the diagnostic incompat is empty iff compat accepts). Per run, by vm_compute on schemas and field descriptors "
    "regenerated from the code: C09_{Molecule,Provenance,AtomicResultProperties}_conforms (full); C09_{BasisSet,AtomicInput,AtomicResult}_"
    "conforms_modulo_uniqueItems and C09_{BasisSet,AtomicInput,AtomicResult}_valid_iff_duplicate_free (EXACT: for every instance, its JSON is "
    "valid against the exported schema iff its four uniqueItems-carrying lists are duplicate-free) with C09_BasisSet_conforms_refuted and "
    "C09_BasisSet_incompat_sites (the four schema paths). 0-d arrays: descriptors carry TArrS for ndarray fields whose validators (AST, per "
    "run) reshape / take len(), plain TArr otherwise; C09_unguarded_array_fields pins the plain ones, C09_Molecule_0d_sites names the failing "
    "schema paths, C09_{Molecule,AtomicResultProperties,AtomicResult}_conforms_0d_exact (every instance, 0-d arrays admitted wherever no "
    "validator excludes them, conforms once the pinned fields are at least 1-d), C09_scalar_in_array_field_refuted (witnesses). "
    "TRANSLATION. Whole record (Model/SchemaTrans.v on C04's molrec / from_arrays model): C09_schema_roundtrip_full (EVERY molrec accepted by "
    "from_arrays under from_schema's settings, stored in Bohr, >= 1 atom, separators >= 0: to_schema dtype 1 or 2 succeeds, from_schema accepts "
    "the dictionary and returns the same molrec but for input_units_to_au; uses C04_idempotent), C09_schema_roundtrip_angstrom (the same for a molrec "
    "stored in Angstrom, result = the molrec expressed in Bohr, for a Bohr-per-Angstrom factor >= 1: rescaled atoms stay apart), C09_schema_second_translation (the molrec that "
    "came back exports the same dictionary), C09_roundtrip_negative_separators_refuted (the hypothesis is needed: finding "
    "C09-negative-separators), C09_headers_recognised (whatever header to_schema writes for a dtype is recognised by from_schema's rules, both "
    "generated), C09_schema_keys_inverse / C09_schema_keys_complete (key tables read from the two ASTs: each exported molrec key is read back "
    "into the same from_arrays argument, nothing is read that is not written, required keys are written unconditionally), "
    "C09_to_schema_exports_bohr, C09_to_schema_refuses_other_units (ValidationError), C09_from_schema_reads_bohr. Index+unit core (any units): "
    "C09_fragments_cover, C09_separators_roundtrip, C09_fragments_roundtrip, C09_exported_geometry_in_bohr (unit branch from the AST), "
    "C09_schema_roundtrip_core. Name and comment: C09_name_comment_roundtrip (the name - the formula for an unnamed molecule - and the comment "
    "come back exactly), C09_named_molrec_extras_roundtrip, C09_name_comment_second_translation, C09_comment_exported_iff_present, over "
    "Gen/SchemaExtras.v (ASTs of to_schema, from_schema, from_arrays, validate_and_fill_units; formula_generator a parameter), stream extras. "
    "REBUILT FROM ITS OWN DICTIONARY, geometry (float_prep and the orientation routine are parameters): "
    "C09_rebuilt_keeps_geometry (a dictionary that says validated=True is stored coordinate for coordinate, whatever truncation the original "
    "was stored with), C09_rebuilt_same_hashed_geometry, C09_revalidated_same_hashed_geometry (re-validated at the default truncation, get_hash "
    "is fed the same coordinates, given float_prep idempotent at GEOMETRY_NOISE), C09_unvalidated_keeps_geometry; the branch of "
    "Molecule.__init__, the validate default and the two noise constants are Gen/MolGeomInit.v (AST of __init__, float_prep, get_hash, __eq__, "
    "fail closed), tied by stream geom-init (what the implementation is seen to do to 17-digit coordinates over validate x validated x "
    "_geometry_prep x geometry_noise). Tie: Gen/Schemas.v, Gen/FieldTypes.v (incl. the shape-guard classification of validators), Gen/ToSchemaGen.v, "
    "Gen/SchemaKeys.v regenerated fail-closed; differential execution on instances of all six "
    "models (inhabits descriptor with 0-d only at unguarded fields, modelled emission == emitted text, Gallina verdict == jsonschema verdict "
    "with and without uniqueItems, duplicate-free <-> fully valid), mutated documents, a scalar probe of every ndarray field, molrecs from "
    "from_arrays with user masses/isotopes/ghosts through to_schema/from_schema on every field, whole molrecs through the record model of "
    "to_schema x {1,2} x np_out and from_schema (stream trans), damaged schema dictionaries through from_schema with every error class "
    "(ValidationError, NotAnElementError, KeyError; stream damaged-schema, per-damage and per-outcome hit counts), np.split/cumsum "
    "core, unit factor; oracle on the implementation (jsonschema; full-field round trips v1/v2 x np_out; re-validation keeps the hash; input "
    "kept; Bohr; molecules handed back by scramble()/align()/orient_molecule(), finer geometry_noise, validated=True payloads with unrounded "
    "coordinates and validate=False molecules rebuilt from dict() / dict(encoding='json') / JSON; ndarray inputs of every dtype class (bool, "
    "narrow/unsigned/big-endian integers, half/single precision, big-endian floats, object strings, Fortran-ordered, strided) for every "
    "array-typed field, generated and as a per-field probe; several exports (dtype x np_out x copy) from one live molrec each judged against "
    "the original coordinates in Bohr and against a fresh record).")
LEVEL_NOTE = (
    "Clause map: (A) emitted JSON of every valid instance validates - theorems for all six models (three full, three exactly 'iff "
    "duplicate-free': known findings C09-uniqueitems, -ecp; 0-d arrays: known finding C09-scalar-array-0d); 'instances inhabit their "
    "descriptors' and 'emitted text = emit' are correspondence. (B) schema round trip v1/v2 - C09_schema_roundtrip_full + "
    "_second_translation for Bohr molrecs and C09_schema_roundtrip_angstrom for Angstrom molrecs at the whole-record level "
    "(name/comment: C09_name_comment_roundtrip etc. on a separate two-field record; provenance not carried - from_schema stamps its own; "
    "np_out is a representation choice, oracle only; the model computes in exact rationals, the "
    "binary64 rounding of geom*factor is outside it); negative separators refuted (known finding C09-negative-separators). (C) Molecule rebuilt from its own dict equal with equal "
    "hash - theorems for the geometry (the stored coordinates are kept; re-validation feeds get_hash the same coordinates) with float_prep "
    "as a parameter whose idempotence is assumed there (it is C11_prep_idempotent for C11's model of float_prep) and the orient=True branch "
    "tied by the AST only; the other fields and the digest are oracle on the implementation only (hashing is C11). (D) geometry exported in Bohr - theorems (unit branch and guard from the AST). "
    "Trusted: Coq kernel + vm_compute; the hand-written models of JSON Schema draft-04 (keyword subset; patterns = anchored literal "
    "alternations with ECMA '$'), of pydantic.v1 emission (set fields, None dropped, ndarray flattened), of to_schema/from_schema/contiguize "
    "(record level) and C04's from_arrays model; the translator. Pydantic validation itself is modelled as 'instances inhabit their field "
    "descriptors' and is checked on every generated instance, not proved; validators that only restrict values further do not affect the "
    "theorems. BasisSet-bearing models conform only when duplicate-free; 0-d arrays are possible exactly at the ndarray fields without a "
    "shape-guarding validator (read from the validators' source by a small AST classifier that treats anything it does not recognise as not "
    "guarding; pinned by C09_unguarded_array_fields); the classifier and the per-field scalar probe that ties it to the code are "
    "trusted/tested, not proved. by_alias/exclude_unset forcing in Molecule.dict() is a translator guard plus the emission differential. "
    "AtomicResultProperties.schema() declares no $schema; it is read as draft-04 (stricter on 'integer' than newer drafts). No axioms.")
